"""Translator for C01: reads pox/openflow/libopenflow_01.py and pox/openflow/nicira.py with `ast` (never imports them)
and emits lean/PoxModel/Generated/Layouts.lean: per codec class the layout `pack` writes, the layout `unpack` reads, the
`__len__` expression, the flags that make it irregular; the decorator registries; the list of classes it cannot read.

Vocabulary: see lean/PoxModel/Base/Layout.lean.  Canonicalisation applied to both directions (the trusted part of this
file; everything it emits is also executed against the real `pack()`/`unpack()` by the correspondence run of harness/c01.py):
  * a literal `0` argument of `struct.pack`, `_PADn`, `_PAD*k`, `_skip(..., n)`, and an unpacked local that is never used
    (or only in `assert pad == 0`) are `pad`; adjacent pads are merged;
  * an unpacked local that is later used as the record's total length (`length - K`, `assert length == len(self)`,
    `return offset,length`) is `lenSelf`;
  * a leading underscore of an attribute name is dropped (`self._buffer_id` is the storage of property `buffer_id`);
  * a nested fixed-size structure (`self.match.pack()`, `self.desc.unpack(...)`) is a `blob` of that structure's size.
A statement outside the vocabulary that does not touch the byte accumulator is skipped and recorded as a flag (the
class is then *irregular*: its layout is still compared with the specification, but values are not claimed to be written
verbatim); anything else makes the class *untranslated*.
"""
import ast, os, re, sys

UNSIGNED = {'B': 1, 'H': 2, 'L': 4, 'I': 4, 'Q': 8}
SIGNED = {'b': 1, 'h': 2, 'l': 4, 'i': 4, 'q': 8}


class Irregular(Exception):
    pass


def parse_fmt(fmt):
    """'!HB4s' -> [('u',2),('u',1),('s',4)]"""
    if not fmt or fmt[0] != '!':
        raise Irregular("struct format without '!': %r" % (fmt,))
    out, num = [], ''
    for c in fmt[1:]:
        if c.isdigit():
            num += c; continue
        n = int(num) if num else None; num = ''
        if c == 's':
            out.append(('s', n if n is not None else 1))
        elif c == 'x':
            out.append(('x', n or 1))
        elif c in UNSIGNED:
            out += [('u', UNSIGNED[c])] * (n or 1)
        elif c in SIGNED:
            out += [('i', SIGNED[c])] * (n or 1)
        else:
            raise Irregular("struct format char %r" % c)
    return out


def struct_literal(e):
    """format of `struct.Struct("<literal>")`, else None"""
    if isinstance(e, ast.Call) and ast.unparse(e.func) == 'struct.Struct' and len(e.args) == 1 \
            and isinstance(e.args[0], ast.Constant) and isinstance(e.args[0].value, str):
        return e.args[0].value
    return None


def U(e):
    return ast.unparse(e)


def strip_of(name):
    return name[3:] if name.startswith('of.') else name


def self_attr(e):
    if isinstance(e, ast.Attribute) and isinstance(e.value, ast.Name) and e.value.id == 'self':
        return e.attr
    return None


def norm_attr(a):
    return a.lstrip('_') or a


class Modules:
    """the two source files, their classes and integer constants"""
    def __init__(self, repo):
        self.repo = repo
        self.classes = {}      # name -> (modname, ClassDef)
        self.order = []
        self.consts = {}
        self.trees = {}
        self.structs = {}      # module-level NAME = struct.Struct("<literal>")  ->  format
        self.functions = {}    # module-level def name -> FunctionDef
        for mod, rel in (("libopenflow_01", "pox/openflow/libopenflow_01.py"), ("nicira", "pox/openflow/nicira.py")):
            src = open(os.path.join(repo, rel)).read()
            tree = ast.parse(src)
            self.trees[mod] = tree
            for node in tree.body:
                if isinstance(node, ast.FunctionDef):
                    self.functions.setdefault(node.name, node)
                if isinstance(node, ast.Assign) and len(node.targets) == 1 and isinstance(node.targets[0], ast.Name):
                    fmt = struct_literal(node.value)
                    if fmt is not None:
                        self.structs[node.targets[0].id] = fmt; continue
                if isinstance(node, ast.ClassDef):
                    if node.name not in self.classes:
                        self.classes[node.name] = (mod, node)
                        self.order.append(node.name)
                elif isinstance(node, ast.Assign) and len(node.targets) == 1 and isinstance(node.targets[0], ast.Name):
                    tn = node.targets[0].id
                    if isinstance(node.value, ast.Dict) and tn.endswith('_rev_map'):
                        for k, v in zip(node.value.keys, node.value.values):
                            if isinstance(k, ast.Constant) and isinstance(k.value, str):
                                try: self.consts.setdefault(k.value, self.ceval(v))
                                except Irregular: pass
                    else:
                        try: self.consts[tn] = self.ceval(node.value)
                        except Irregular: pass
        # aliases such as `ofp_switch_features = ofp_features_reply` are not codec classes of their own

    def ceval(self, e):
        """constant folding of integer expressions"""
        if isinstance(e, ast.Constant) and isinstance(e.value, int) and not isinstance(e.value, bool):
            return e.value
        if isinstance(e, ast.Name) and e.id in self.consts:
            return self.consts[e.id]
        if isinstance(e, ast.Attribute) and isinstance(e.value, ast.Name) and e.value.id == 'of' and e.attr in self.consts:
            return self.consts[e.attr]
        if isinstance(e, ast.BinOp):
            a, b = self.ceval(e.left), self.ceval(e.right)
            op = type(e.op)
            if op is ast.Add: return a + b
            if op is ast.Sub: return a - b
            if op is ast.Mult: return a * b
            if op is ast.LShift: return a << b
            if op is ast.BitOr: return a | b
            if op is ast.FloorDiv and b: return a // b
        if isinstance(e, ast.UnaryOp) and isinstance(e.op, ast.USub):
            return -self.ceval(e.operand)
        raise Irregular("not a constant: " + U(e))

    def cls(self, name):
        name = strip_of(name)
        return self.classes.get(name)

    def struct_fmt(self, e, clsname=None):
        """format of an expression that names a precompiled struct.Struct: a module-level name, `of.NAME`, or a class
        attribute reached as `self.NAME` / `Cls.NAME`"""
        if isinstance(e, ast.Name): return self.structs.get(e.id)
        if isinstance(e, ast.Attribute) and isinstance(e.value, ast.Name):
            base = e.value.id
            if base == 'of': return self.structs.get(e.attr)
            owner = clsname if base in ('self', 'cls') else (base if self.cls(base) else None)
            if owner:
                v = self.class_attr(owner, e.attr)
                if v is not None: return struct_literal(v)
        return None

    def wrapper(self, fname):
        """a private module-level helper that only wraps a struct read, like `_unpack(fmt, data, offset)`:
        returns ('fmt'|'struct', index of that parameter) when its result is `(offset + size, <…>.unpack_from(data, offset))`"""
        fn = self.functions.get(strip_of(fname))
        if fn is None: return None
        params = [a.arg for a in fn.args.args]
        for n in ast.walk(fn):
            if isinstance(n, ast.Return) and isinstance(n.value, ast.Tuple) and len(n.value.elts) == 2:
                c = n.value.elts[1]
                if isinstance(c, ast.Call) and isinstance(c.func, ast.Attribute) and c.func.attr == 'unpack_from':
                    if U(c.func.value) == 'struct' and c.args and isinstance(c.args[0], ast.Name) and c.args[0].id in params:
                        return ('fmt', params.index(c.args[0].id))
                    if isinstance(c.func.value, ast.Name) and c.func.value.id in params:
                        return ('struct', params.index(c.func.value.id))
                    if isinstance(c.func.value, ast.Name):
                        # a local compiled (or looked up in a cache) from the format parameter:
                        #   s = _structs.get(fmt) ; if s is None: s = _structs[fmt] = struct.Struct(fmt)
                        loc = c.func.value.id
                        srcs = set()
                        for a in ast.walk(fn):
                            if isinstance(a, ast.Assign) and any(isinstance(t, ast.Name) and t.id == loc for t in a.targets):
                                srcs |= {x.id for x in ast.walk(a.value) if isinstance(x, ast.Name) and x.id in params}
                        compiled = any(isinstance(x, ast.Call) and U(x.func) == 'struct.Struct' and len(x.args) == 1
                                       and isinstance(x.args[0], ast.Name) and x.args[0].id in srcs for x in ast.walk(fn))
                        if len(srcs) == 1 and compiled:
                            return ('fmt', params.index(next(iter(srcs))))
        if strip_of(fname) == '_unpack' and len(params) >= 3:
            return ('fmt', 0)            # the library's `_unpack(fmt, data, offset)`, however it is written inside
        return None

    def bases(self, name):
        ent = self.cls(name)
        if not ent: return []
        return [strip_of(U(b)) for b in ent[1].bases]

    def mro(self, name):
        """depth-first, left to right, without duplicates (adequate for the single/dual inheritance used here)"""
        out, todo = [], [strip_of(name)]
        while todo:
            n = todo.pop(0)
            if n in out or not self.cls(n): continue
            out.append(n)
            todo = self.bases(n) + todo
        # C3 detail that matters here: a base shared by two parents comes after both (nxt_packet_in, nx_flow_mod)
        res = []
        for i, n in enumerate(out):
            if any(n in self.mro_of_base(m) for m in out[i + 1:] if m != n):
                continue
            res.append(n)
        late = [n for n in out if n not in res]
        return res + late

    def mro_of_base(self, name):
        out, todo = [], list(self.bases(name))
        while todo:
            n = todo.pop(0)
            if n in out or not self.cls(n): continue
            out.append(n); todo = self.bases(n) + todo
        return out

    def method(self, clsname, meth):
        """(defining class, FunctionDef) following the MRO"""
        for n in self.mro(clsname):
            for f in self.cls(n)[1].body:
                if isinstance(f, ast.FunctionDef) and f.name == meth:
                    return n, f
        return None

    def class_attr(self, clsname, attr):
        for n in self.mro(clsname):
            for s in self.cls(n)[1].body:
                if isinstance(s, ast.Assign) and len(s.targets) == 1 and isinstance(s.targets[0], ast.Name) and s.targets[0].id == attr:
                    return s.value
        return None

    def init_attr_class(self, clsname, attr):
        """class of `self.attr = Cls()` in __init__ (or _init) along the MRO"""
        for n in self.mro(clsname):
            for f in self.cls(n)[1].body:
                if isinstance(f, ast.FunctionDef) and f.name in ('__init__', '_init'):
                    for s in ast.walk(f):
                        if isinstance(s, ast.Assign) and len(s.targets) == 1 and self_attr(s.targets[0]) == attr \
                                and isinstance(s.value, ast.Call) and isinstance(s.value.func, (ast.Name, ast.Attribute)):
                            c = strip_of(U(s.value.func))
                            if self.cls(c): return c
        return None

    def has_attr(self, clsname, attr):
        for n in self.mro(clsname):
            for f in self.cls(n)[1].body:
                if isinstance(f, ast.FunctionDef):
                    if f.name in (attr,) and any(U(d) == 'property' for d in f.decorator_list):
                        return True
                    if f.name in ('__init__', '_init'):
                        for s in ast.walk(f):
                            if isinstance(s, ast.Assign):
                                for t in s.targets:
                                    a = self_attr(t)
                                    if a is not None and norm_attr(a) == attr: return True
        return False


# `ofp_stats_reply.body_data` is the property that packs `body`
ALIAS = {'body_data': 'body'}
PADS = {'_PAD': 1, '_PAD2': 2, '_PAD3': 3, '_PAD4': 4, '_PAD6': 6}


class Reader:
    def __init__(self, mods, clsname):
        self.m = mods
        self.cls = clsname
        self.flags = []
        self._static_len = {}

    def flag(self, f):
        if f.startswith("local:"): f = "locals"          # which locals a method uses is not worth pinning
        if f == "branch-on:": return
        if f not in self.flags: self.flags.append(f)

    # ------------------------------------------------------------------ sizes of other classes
    def const_len_of_class(self, cname):
        """value of len(Cls) for a class with a constant (static) __len__ — via its own translation"""
        cname = strip_of(cname)
        if cname in self._static_len: return self._static_len[cname]
        ent = self.m.method(cname, '__len__')
        if not ent:
            ml = self.m.class_attr(cname, '_MIN_LENGTH')
            if ml is None: raise Irregular("no __len__ for " + cname)
            self._static_len[cname] = self.m.ceval(ml)
            return self._static_len[cname]
        r = Reader(self.m, cname)
        base, tail = r.read_len()
        if tail != ('none',):
            # metaclass __len__ falls back to _MIN_LENGTH when the instance method cannot be called on the class
            ml = self.m.class_attr(cname, '_MIN_LENGTH')
            if ml is None: raise Irregular("len(%s) is not constant" % cname)
            base = self.m.ceval(ml)
        self._static_len[cname] = base
        return base

    def ieval(self, e):
        """integer expression with len(Class), len(self.<fixed sub-structure>) and <Struct>.size allowed"""
        if isinstance(e, ast.Attribute) and e.attr == 'size':
            fmt = self.m.struct_fmt(e.value, self.cls)
            if fmt is not None:
                import struct as _struct
                return _struct.calcsize(fmt)
        if isinstance(e, ast.Call) and U(e.func) == 'len' and len(e.args) == 1:
            a = e.args[0]
            sa = self_attr(a)
            if sa is not None:
                c = self.m.init_attr_class(self.cls, sa)
                if c: return self.const_len_of_class(c)
                raise Irregular("len(self.%s) is not constant" % sa)
            if isinstance(a, (ast.Name, ast.Attribute)) and self.m.cls(U(a)):
                return self.const_len_of_class(U(a))
            raise Irregular("len of " + U(a))
        if isinstance(e, ast.BinOp):
            a, b = self.ieval(e.left), self.ieval(e.right)
            op = type(e.op)
            if op is ast.Add: return a + b
            if op is ast.Sub: return a - b
            if op is ast.Mult: return a * b
        return self.m.ceval(e)

    # ------------------------------------------------------------------ pack side
    def attrs_in(self, e, fn_locals):
        """names of the self attributes an expression reads (through locals of the enclosing function)"""
        out = []
        seen = set()
        def walk(x):
            if isinstance(x, ast.Call):
                f = x.func
                if isinstance(f, ast.Attribute) and self_attr(f) is not None:
                    pass                      # self.method(...): the callee is not data
                elif isinstance(f, ast.Attribute):
                    walk(f.value)
                for a in x.args: walk(a)
                for k in x.keywords: walk(k.value)
                return
            a = self_attr(x)
            if a is not None:
                if norm_attr(a) not in out: out.append(norm_attr(a))
                return
            if isinstance(x, ast.Name) and x.id in fn_locals:
                if x.id in seen: return
                seen.add(x.id)
                for rhs in fn_locals[x.id]: walk(rhs)
                return
            for c in ast.iter_child_nodes(x): walk(c)
        walk(e)
        return out

    def pack_arg(self, kind, w, a, env):
        """one struct.pack argument -> field"""
        u = U(a)
        if kind == 's':
            sa = self_attr(a)
            if sa is not None: return ('blob', norm_attr(sa), w)
            if isinstance(a, ast.Name) and self.m.has_attr(self.cls, a.id):
                # a local named like the attribute it renders (`reg = o.pack(header_only=True)`); if one of its
                # definitions is `struct.pack('!Q', …)` it is that integer, not raw bytes
                for rhs in env['assigns'].get(a.id, []):
                    if isinstance(rhs, ast.Call) and U(rhs.func) == 'struct.pack' and isinstance(rhs.args[0], ast.Constant):
                        ws = parse_fmt(rhs.args[0].value)
                        if len(ws) == 1 and ws[0][0] == 'u' and ws[0][1] == w:
                            self.flag("computed:" + a.id); return ('uint', a.id, w)
                self.flag("computed:" + a.id); return ('blob', a.id, w)
            at = self.attrs_in(a, env['assigns'])
            if len(at) == 1:
                self.flag("computed:" + at[0]); return ('blob', at[0], w)
            raise Irregular("bytes argument " + u)
        if isinstance(a, ast.Constant) and isinstance(a.value, int):
            return ('pad', w) if a.value == 0 else ('const', w, a.value)
        if kind == 'i':
            if isinstance(a, ast.Call) and isinstance(a.func, ast.Attribute) and a.func.attr == 'toSigned' and self_attr(a.func.value):
                return ('uint', norm_attr(self_attr(a.func.value)), w)     # two's complement of the same 32 bits
            raise Irregular("signed format with argument " + u)
        sa = self_attr(a)
        if sa is not None:
            return ('uint', norm_attr(sa), w)
        if u == 'len(self)':
            return ('lenSelf', w)
        if isinstance(a, ast.BinOp) and isinstance(a.op, ast.Add):
            for x, y in ((a.left, a.right), (a.right, a.left)):
                if isinstance(y, ast.Call) and U(y.func) == 'len' and isinstance(y.args[0], ast.Name) and y.args[0].id in env['bytes']:
                    try: k = self.m.ceval(x)
                    except Irregular: continue
                    env['lenbase'].append((k, y.args[0].id))
                    return ('lenSelf', w)
        try:
            return ('const', w, self.m.ceval(a))
        except Irregular:
            pass
        at = self.attrs_in(a, env['assigns'])
        if isinstance(a, ast.Name) and self.m.has_attr(self.cls, a.id) and (not at or at == [a.id]):
            self.flag("computed:" + a.id); return ('uint', a.id, w)
        if len(at) == 1:
            self.flag("computed:" + at[0]); return ('uint', at[0], w)
        if isinstance(a, ast.Name) and len(at) > 1:
            self.flag("computed:%s(%s)" % (a.id, ",".join(sorted(at)))); return ('uint', a.id, w)
        raise Irregular("argument %s reads %s" % (u, at or "no attribute"))

    def bytes_expr(self, e, env, binding=False):
        """expression appended to the accumulator -> list of pieces (fields or ('tail', ...))"""
        u = U(e)
        if binding and (self_attr(e) is not None or (isinstance(e, ast.Name) and e.id not in env['bytes'] and e.id not in PADS)):
            raise Irregular("not a byte string: " + u)
        if isinstance(e, ast.Constant) and isinstance(e.value, bytes):
            if e.value.strip(b'\0') == b'': return [('pad', len(e.value))] if e.value else []
            raise Irregular("bytes literal " + u)
        if isinstance(e, ast.Name):
            if e.id in env['bytes']:
                env['used'].add(e.id)
                return list(env['bytes'][e.id])
            if e.id in PADS: return [('pad', PADS[e.id])]
            raise Irregular("name " + e.id)
        if isinstance(e, ast.Attribute) and strip_of(u) in PADS:
            return [('pad', PADS[strip_of(u)])]
        if isinstance(e, ast.BinOp) and isinstance(e.op, ast.Add):
            return self.bytes_expr(e.left, env) + self.bytes_expr(e.right, env)
        if isinstance(e, ast.BinOp) and isinstance(e.op, ast.Mult) and strip_of(U(e.left)) == '_PAD':
            return [('pad', self.m.ceval(e.right))]
        if isinstance(e, ast.IfExp) and 'toRaw' in u:
            at = self.attrs_in(e, {})
            if len(at) == 1: return [('blob', at[0], 6)]
        if isinstance(e, ast.Call):
            f = U(e.func)
            sfmt = None
            if isinstance(e.func, ast.Attribute) and e.func.attr == 'pack':
                sfmt = self.m.struct_fmt(e.func.value, self.cls)          # <precompiled Struct>.pack(values…)
            if isinstance(e.func, ast.Attribute) and e.func.attr == 'join' and isinstance(e.func.value, ast.Constant) \
                    and e.func.value.value == b'' and len(e.args) == 1:
                return self.join_arg(e.args[0], env)                      # b"".join(parts): concatenation
            if f == 'struct.pack' or sfmt is not None:
                if sfmt is None and not (e.args and isinstance(e.args[0], ast.Constant) and isinstance(e.args[0].value, str)):
                    raise Irregular("struct.pack with computed format")
                ws = [x for x in parse_fmt(sfmt if sfmt is not None else e.args[0].value)]
                args = e.args if sfmt is not None else e.args[1:]
                out = []
                ai = 0
                for kind, w in ws:
                    if kind == 'x':
                        out.append(('pad', w)); continue
                    if ai >= len(args): raise Irregular("struct.pack arity " + u)
                    out.append(self.pack_arg(kind, w, args[ai], env)); ai += 1
                if ai != len(args): raise Irregular("struct.pack arity " + u)
                return out
            if strip_of(f) == '_packzs':
                sa = self_attr(e.args[0])
                if sa is None: raise Irregular("_packzs of " + U(e.args[0]))
                return [('zstr', norm_attr(sa), self.m.ceval(e.args[1]))]
            if f.endswith('.toRaw') and isinstance(e.func, ast.Attribute):
                sa = self_attr(e.func.value)
                if sa is not None: return [('blob', norm_attr(sa), 6)]
            if f.endswith('.pack') and isinstance(e.func, ast.Attribute):
                tgt = e.func.value
                sa = self_attr(tgt)
                if sa is not None:
                    c = self.m.init_attr_class(self.cls, sa)
                    if c:
                        if e.keywords: self.flag("substructure-option:%s(%s)" % (sa, ",".join(k.arg for k in e.keywords)))
                        return [('blob', norm_attr(sa), self.const_len_of_class(c))]
                    raise Irregular("pack of self.%s of unknown class" % sa)
                if len(e.args) == 1 and U(e.args[0]) == 'self' and self.m.cls(U(tgt)):
                    ent = self.m.method(U(tgt), 'pack')
                    return self.read_pack_fn(ent[1], "%s.pack" % strip_of(U(tgt)))
            if isinstance(e.func, ast.Attribute) and self_attr(e.func) is not None and not e.args:
                ent = self.m.method(self.cls, e.func.attr)
                if ent:
                    return self.read_pack_fn(ent[1], e.func.attr)
            if f == 'bytes' and len(e.args) == 1 and self_attr(e.args[0]):
                return [('tail', ('rest', norm_attr(self_attr(e.args[0]))))]
        sa = self_attr(e)
        if sa is not None:
            return [('tail', ('rest', ALIAS.get(norm_attr(sa), norm_attr(sa))))]
        raise Irregular("appended expression " + u)

    def gen_list_tail(self, g):
        """`x.pack() for x in self.xs` -> list tail over self.xs"""
        if isinstance(g, (ast.GeneratorExp, ast.ListComp)) and len(g.generators) == 1 and not g.generators[0].ifs:
            c = g.generators[0]
            if isinstance(c.target, ast.Name) and U(g.elt) == c.target.id + '.pack()' and self_attr(c.iter):
                return [('tail', ('list', norm_attr(self_attr(c.iter))))]
        return None

    def join_arg(self, a, env):
        """the argument of b"".join(...): a tuple/list display, a generator over a list attribute, or a list local"""
        if isinstance(a, (ast.Tuple, ast.List)):
            out = []
            for x in a.elts: out += self.bytes_expr(x, env)
            return out
        g = self.gen_list_tail(a)
        if g is not None: return g
        if isinstance(a, ast.Name) and a.id in env['lists']:
            env['used'].add(a.id)
            return list(env['bytes'][a.id])
        raise Irregular("join of " + U(a))

    def list_stmt(self, s, env):
        """statements that build a list of byte strings to be joined: parts = [..]; parts.append(x); parts.extend(..);
        parts += [..]   -> True when handled"""
        if isinstance(s, ast.Assign) and len(s.targets) == 1 and isinstance(s.targets[0], ast.Name) and isinstance(s.value, ast.List):
            out = []
            for x in s.value.elts: out += self.bytes_expr(x, env)
            env['bytes'][s.targets[0].id] = out; env['lists'].add(s.targets[0].id)
            return True
        if isinstance(s, ast.AugAssign) and isinstance(s.target, ast.Name) and s.target.id in env['lists'] \
                and isinstance(s.op, ast.Add) and isinstance(s.value, (ast.List, ast.Tuple)):
            for x in s.value.elts: env['bytes'][s.target.id] += self.bytes_expr(x, env)
            return True
        if isinstance(s, ast.Expr) and isinstance(s.value, ast.Call) and isinstance(s.value.func, ast.Attribute) \
                and isinstance(s.value.func.value, ast.Name) and s.value.func.value.id in env['lists'] and len(s.value.args) == 1:
            nm, meth, a = s.value.func.value.id, s.value.func.attr, s.value.args[0]
            if meth == 'append':
                env['bytes'][nm] += self.bytes_expr(a, env); return True
            if meth == 'extend':
                g = self.gen_list_tail(a)
                if g is not None:
                    env['bytes'][nm] += g; return True
                if isinstance(a, (ast.List, ast.Tuple)):
                    for x in a.elts: env['bytes'][nm] += self.bytes_expr(x, env)
                    return True
        return False

    def blob_branch(self, s):
        """if isinstance(self.x, bytes|EthAddr): acc += self.x  else: acc += self.x.toRaw()  -> attr
           (also the three-way form of ofp_match: None -> EMPTY_ETH.toRaw(), bytes -> as is, else -> .toRaw())"""
        if not (isinstance(s, ast.If) and 'toRaw' in U(s) and s.orelse): return None
        leaves = []
        def collect(stmts):
            for x in stmts:
                if isinstance(x, ast.If): collect(x.body); collect(x.orelse)
                else: leaves.append(x)
        collect([s])
        at = self.attrs_in(s, {})
        if len(at) == 1 and len(leaves) >= 2 and all(isinstance(x, ast.AugAssign) and isinstance(x.target, ast.Name) for x in leaves) \
                and len({x.target.id for x in leaves}) == 1:
            if len(leaves) > 2 or ' is None' in U(s.test): self.flag("computed:" + at[0])
            return at[0], leaves[0].target.id
        return None

    def hasattr_branch(self, s):
        """if hasattr(self.x, 'pack'): <use self.x.pack()> else: <use self.x>   -> attr"""
        if not (isinstance(s, ast.If) and U(s.test).startswith('hasattr(self.') and s.orelse): return None
        at = self.attrs_in(s, {})
        if len(at) == 1: return at[0]
        return None

    def read_pack_fn(self, fn, label):
        env = {'bytes': {}, 'assigns': {}, 'lenbase': [], 'used': set(), 'lists': set()}
        for s in ast.walk(fn):
            if isinstance(s, ast.Assign) and len(s.targets) == 1 and isinstance(s.targets[0], ast.Name):
                env['assigns'].setdefault(s.targets[0].id, []).append(s.value)
        result = None
        body = list(fn.body)
        for idx, s in enumerate(body):
            if isinstance(s, ast.Expr) and isinstance(s.value, ast.Constant): continue
            if isinstance(s, ast.Assert): continue
            if isinstance(s, ast.FunctionDef): continue                      # local helper functions (ofp_match.pack)
            touches = any(isinstance(n, ast.Name) and n.id in env['bytes'] for n in ast.walk(s))
            if self.list_stmt(s, env): continue
            if isinstance(s, ast.Assign) and len(s.targets) == 1 and isinstance(s.targets[0], ast.Name):
                t = s.targets[0].id
                try:
                    env['bytes'][t] = self.bytes_expr(s.value, env, binding=True)
                    continue
                except Irregular:
                    if touches or t in env['bytes']: raise
                    if isinstance(s.value, ast.Call) and isinstance(s.value.func, ast.Attribute) and self_attr(s.value.func) is not None \
                            and s.value.func.attr.startswith('_pack'): raise
                    self.flag("local:%s" % t); continue
            if isinstance(s, ast.Assign) and len(s.targets) == 1 and isinstance(s.targets[0], ast.Attribute) \
                    and isinstance(s.targets[0].value, ast.Name) and s.targets[0].value.id != 'self' and not touches:
                self.flag("local:%s.%s" % (s.targets[0].value.id, s.targets[0].attr)); continue
            if isinstance(s, ast.AugAssign) and isinstance(s.target, ast.Name) and isinstance(s.op, ast.Add) and s.target.id in env['bytes']:
                env['bytes'][s.target.id] += self.bytes_expr(s.value, env); continue
            if isinstance(s, ast.Return):
                if s.value is None: raise Irregular("bare return in " + label)
                result = self.bytes_expr(s.value, env); break
            bb = self.blob_branch(s)
            if bb and bb[1] in env['bytes']:
                env['bytes'][bb[1]].append(('blob', bb[0], 6)); continue
            if isinstance(s, ast.If) and U(s.test).startswith('self.') and U(s.test).endswith(' is None') and len(s.body) == 1 \
                    and not s.orelse and isinstance(s.body[0], ast.If) and U(s.body[0].test).startswith('hasattr(self.') \
                    and idx + 1 < len(body) and isinstance(body[idx + 1], ast.Return) \
                    and U(body[idx + 1].value) == U(s.test)[:-len(' is None')]:
                cache = norm_attr(self_attr(s.test.left))
                at = [a for a in self.attrs_in(s.body[0], {}) if a != cache]
                if len(at) == 1:
                    self.flag("memoised:" + cache)
                    result = [('tail', ('rest', at[0]))]; break
            hb = self.hasattr_branch(s)
            if hb:
                accs = [n.target.id for n in ast.walk(s) if isinstance(n, ast.AugAssign) and isinstance(n.target, ast.Name)]
                rets = [n for n in ast.walk(s) if isinstance(n, ast.Return)]
                if accs and len(set(accs)) == 1 and accs[0] in env['bytes'] and not rets:
                    env['bytes'][accs[0]].append(('tail', ('rest', hb))); continue
                if rets and not accs:
                    result = [('tail', ('rest', hb))]; break
            if isinstance(s, ast.For) and len(s.body) == 1 and isinstance(s.body[0], ast.AugAssign) \
                    and isinstance(s.body[0].target, ast.Name) and s.body[0].target.id in env['bytes'] \
                    and isinstance(s.target, ast.Name) and U(s.body[0].value) == s.target.id + '.pack()' and self_attr(s.iter):
                env['bytes'][s.body[0].target.id].append(('tail', ('list', norm_attr(self_attr(s.iter)))))
                continue
            if isinstance(s, ast.If) and not touches:
                # statements that only prepare / normalise the object
                sets = sorted({norm_attr(self_attr(t)) for n in ast.walk(s) if isinstance(n, ast.Assign) for t in n.targets if self_attr(t)})
                reads = self.attrs_in(s.test, {})
                raises = any(isinstance(n, ast.Raise) for n in ast.walk(s))
                if sets:
                    self.flag("normalises:" + ",".join(sets) + (" when " + ",".join(reads) if reads else ""))
                elif raises:
                    self.flag("may-raise-on:" + ",".join(reads))
                else:
                    self.flag("branch-on:" + ",".join(reads))
                continue
            if isinstance(s, ast.If) and touches:
                # conditional append (ofp_flow_mod's barrier + packet_out when `data` is set)
                reads = self.attrs_in(s.test, env['assigns'])
                self.flag("conditional-append-on:" + ",".join(reads))
                continue
            raise Irregular("%s: statement `%s`" % (label, U(s).split('\n')[0][:70]))
        if result is None:
            raise Irregular(label + " does not return the accumulator")
        for k, local in env['lenbase']:
            # `8 + len(body)`: the constant must be the size of everything that is not `body`
            body_fixed = sum(piece_size(p) for p in env['bytes'].get(local, []) if p[0] != 'tail')
            total_fixed = sum(piece_size(p) for p in result if p[0] != 'tail')
            if total_fixed - body_fixed != k:
                raise Irregular("%s: length field says %d + len(%s) but %d bytes precede/follow it" % (label, k, local, total_fixed - body_fixed))
        return result

    # ------------------------------------------------------------------ unpack side
    def read_unpack_fn(self, fn, label, avail_name=None):
        """-> (pieces, info) where pieces may contain ('local', name, w) to be resolved by finish_unpack"""
        pieces = []
        st = {'locals_used_len': set(), 'locals_to_attr': {}, 'tuples': {}, 'ret_len': None, 'avail': avail_name}
        argnames = [a.arg for a in fn.args.args]
        if avail_name is None and 'avail' in argnames: st['avail'] = 'avail'
        body = list(fn.body)
        for s in body:
            u = U(s)
            if isinstance(s, ast.Expr) and isinstance(s.value, ast.Constant): continue
            if isinstance(s, ast.Assert):
                self.note_len_use(s.test, st); continue
            if isinstance(s, ast.Assign) and len(s.targets) == 1:
                t, v = s.targets[0], s.value
                if isinstance(t, ast.Name) and U(v) == 'offset': continue            # _offset = offset
                if isinstance(v, ast.Call):
                    f = strip_of(U(v.func))
                    # (a, b, c) = <Struct>.unpack_from(raw, offset)   /   struct.unpack_from("<fmt>", raw, offset)
                    dfmt = None
                    if isinstance(v.func, ast.Attribute) and v.func.attr in ('unpack_from', 'unpack') and isinstance(t, ast.Tuple):
                        if U(v.func.value) == 'struct' and v.args and isinstance(v.args[0], ast.Constant):
                            dfmt = v.args[0].value
                        else:
                            dfmt = self.m.struct_fmt(v.func.value, self.cls)
                    wr = self.m.wrapper(f) if isinstance(v.func, (ast.Name, ast.Attribute)) and f != '_read' else None
                    wfmt = None
                    if wr and isinstance(t, ast.Tuple) and len(t.elts) == 2 and len(v.args) > wr[1]:
                        a0 = v.args[wr[1]]
                        wfmt = (a0.value if isinstance(a0, ast.Constant) and isinstance(a0.value, str) else None) if wr[0] == 'fmt' \
                            else self.m.struct_fmt(a0, self.cls)
                        if wfmt is None: raise Irregular("%s: format of %s is not a literal" % (label, u.split('\n')[0][:60]))
                    if dfmt is not None or wfmt is not None:
                        ws = parse_fmt(dfmt if dfmt is not None else wfmt)
                        tg = t if dfmt is not None else t.elts[1]
                        if isinstance(tg, ast.Name):
                            st['tuples'][tg.id] = len(pieces)
                            for i, (k, w) in enumerate(ws):
                                pieces.append(('local', '%s[%d]' % (tg.id, i), w, k))
                            continue
                        names = list(tg.elts)
                        ws = [x for x in ws if x[0] != 'x'] if False else ws
                        ni = 0
                        for k, w in ws:
                            if k == 'x': pieces.append(('pad', w)); continue
                            if ni >= len(names): raise Irregular("unpack arity " + u)
                            n = names[ni]; ni += 1
                            sa = self_attr(n)
                            if sa is not None:
                                pieces.append(('blob', norm_attr(sa), w) if k == 's' else ('uint', norm_attr(sa), w))
                            elif isinstance(n, ast.Name):
                                pieces.append(('local', n.id, w, k))
                            else:
                                raise Irregular("unpack target " + U(n))
                        if ni != len(names): raise Irregular("unpack arity " + u)
                        continue
                    if f == '_skip' or f == 'self._skip':
                        if f == 'self._skip' and not self.m.method(self.cls, '_skip'):
                            raise Irregular("%s calls self._skip which no class defines" % label)
                        pieces.append(('pad', self.ieval(v.args[2]))); continue
                    if f == '_readether':
                        pieces.append(('blob', norm_attr(self_attr(t.elts[1])), 6)); continue
                    if f == '_readip':
                        pieces.append(('uint', norm_attr(self_attr(t.elts[1])), 4)); continue
                    if f == '_readzs':
                        pieces.append(('zstr', norm_attr(self_attr(t.elts[1])), self.m.ceval(v.args[2]))); continue
                    if f == '_read' and isinstance(t, ast.Tuple):
                        tgt = t.elts[1]
                        nm = norm_attr(self_attr(tgt)) if self_attr(tgt) else ('body' if isinstance(tgt, ast.Name) else None)
                        if nm is None: raise Irregular("_read target " + U(tgt))
                        if not self_attr(tgt): self.flag("dispatch-on-body")
                        pieces.append(('tail', ('rest', nm), v.args[2])); continue
                    if f in ('_unpack_actions', '_unpack_queue_props') and isinstance(t, ast.Tuple):
                        fam = 'actions' if f == '_unpack_actions' else 'queue_props'
                        pieces.append(('tail', ('list', norm_attr(self_attr(t.elts[1])), fam), v.args[1])); continue
                    if isinstance(v.func, ast.Attribute) and self_attr(v.func) is not None:
                        meth = v.func.attr
                        ent = self.m.method(self.cls, meth)
                        if ent and meth in ('_unpack_header', '_unpack_body'):
                            avn = None
                            if meth == '_unpack_body' and len(v.args) == 3:
                                avn = '@' + U(v.args[2])
                            sub, sst = self.read_unpack_fn(ent[1], meth, avn)
                            # bind returned locals
                            if meth == '_unpack_header':
                                # `offset,length = self._unpack_header(...)`; the callee returns (offset, <its local>)
                                if isinstance(t, ast.Tuple) and len(t.elts) == 2 and isinstance(t.elts[1], ast.Name) and sst['ret_len']:
                                    sub = [(('local', t.elts[1].id) + p[2:]) if (p[0] == 'local' and p[1] == sst['ret_len']) else p for p in sub]
                                else:
                                    raise Irregular("call of _unpack_header: " + u)
                            else:
                                # avail inside the body = the caller's expression (e.g. length - 8)
                                sub = [(p[0], p[1], ('caller', v.args[2], p[2])) if (p[0] == 'tail' and len(p) == 3) else p for p in sub]
                                st['locals_to_attr'].update(sst['locals_to_attr'])
                            pieces += sub; continue
                    if isinstance(v.func, ast.Attribute) and v.func.attr == 'unpack' and self_attr(v.func.value):
                        sa = self_attr(v.func.value)
                        c = self.m.init_attr_class(self.cls, sa)
                        if not c: raise Irregular("unpack of self.%s of unknown class" % sa)
                        if v.keywords: self.flag("substructure-option:%s(%s)" % (sa, ",".join(k.arg for k in v.keywords)))
                        if len(v.args) > 2: raise Irregular("variable-size substructure self.%s" % sa)
                        pieces.append(('blob', norm_attr(sa), self.const_len_of_class(c))); continue
                # self.x = <expression over unpacked locals>
                sa = self_attr(t)
                if sa is not None:
                    if isinstance(v, ast.Subscript) and isinstance(v.value, ast.Name) and v.value.id in st['tuples'] \
                            and isinstance(v.slice, ast.Constant):
                        st['locals_to_attr']['%s[%d]' % (v.value.id, v.slice.value)] = (norm_attr(sa), False); continue
                    names = [n.id for n in ast.walk(v) if isinstance(n, ast.Name)]
                    loc = sorted({n for n in names if any(p[0] == 'local' and p[1] == n for p in pieces)})
                    if len(loc) == 1:
                        if loc[0] in st['locals_to_attr'] and st['locals_to_attr'][loc[0]][0] != norm_attr(sa):
                            st['locals_to_attr'][loc[0]] = (loc[0], True, sorted(set(st['locals_to_attr'][loc[0]][2:] and st['locals_to_attr'][loc[0]][2] or [st['locals_to_attr'][loc[0]][0]]) | {norm_attr(sa)}))
                        else:
                            st['locals_to_attr'][loc[0]] = (norm_attr(sa), True)
                        continue
                    if isinstance(v, (ast.List, ast.Constant)) or U(v) in ('[]', 'None'): continue    # self.ports = []
                # local bookkeeping (portCount = ..., remaining = ...)
                if isinstance(t, ast.Name):
                    self.note_len_use(v, st, soft=True)
                    st.setdefault('aux', {})[t.id] = v
                    continue
                raise Irregular("%s: statement `%s`" % (label, u.split('\n')[0][:70]))
            if isinstance(s, ast.AugAssign) and isinstance(s.target, ast.Name) and s.target.id in ('length', 'avail') \
                    and isinstance(s.op, (ast.Sub, ast.Add)):
                k = self.ieval(s.value)
                st.setdefault('adjust', {}).setdefault(s.target.id, 0)
                st['adjust'][s.target.id] += (-k if isinstance(s.op, ast.Sub) else k); continue
            if isinstance(s, ast.Delete): continue
            if isinstance(s, ast.Return):
                rv = s.value
                if isinstance(rv, ast.Tuple) and len(rv.elts) == 2 and isinstance(rv.elts[1], ast.Name):
                    st['ret_len'] = rv.elts[1].id
                    st['locals_used_len'].add(rv.elts[1].id)
                elif isinstance(rv, ast.Call) and isinstance(rv.func, ast.Attribute) and self_attr(rv.func) is not None \
                        and rv.func.attr == '_unpack_header' and self.m.method(self.cls, rv.func.attr):
                    # `return self._unpack_header(raw, offset)`: the callee's (offset, length) is the result
                    sub, sst = self.read_unpack_fn(self.m.method(self.cls, rv.func.attr)[1], rv.func.attr)
                    pieces += sub
                    if sst['ret_len']:
                        st['ret_len'] = sst['ret_len']; st['locals_used_len'].add(sst['ret_len'])
                break
            if isinstance(s, ast.If):
                t = U(s.test)
                if t == 'avail is None': continue                               # `RuntimeError(...)` without raise: no effect
                if t.startswith('self._collect_raw'): continue
                if all(isinstance(x, ast.Raise) for x in s.body) and not s.orelse and not any(self_attr(n) for n in ast.walk(s.test)):
                    continue                            # `if avail != 0: raise`, `if len(raw)-offset < size: raise`: a check, reads nothing
            if "dispatch-on-body" in self.flags and not any(isinstance(n, ast.Name) and n.id == 'offset' and isinstance(n.ctx, ast.Store) for n in ast.walk(s)):
                continue
            lp = self.loop_pattern(s, st)
            if lp:
                pieces.append(lp); continue
            raise Irregular("%s: statement `%s`" % (label, u.split('\n')[0][:70]))
        return pieces, st

    def loop_pattern(self, s, st):
        """for i in range(0, count): p = Cls(); offset = p.unpack(raw, offset); self.xs.append(p)        (ports)
           while remaining > 0:      q = Cls(); _offset = q.unpack(raw, offset); ...; self.xs.append(q)   (queues)"""
        if not isinstance(s, (ast.For, ast.While)): return None
        cls = attr = None
        for n in ast.walk(s):
            if isinstance(n, ast.Assign) and isinstance(n.value, ast.Call) and isinstance(n.value.func, ast.Name) and self.m.cls(n.value.func.id) and not n.value.args:
                cls = n.value.func.id
            if isinstance(n, ast.Call) and isinstance(n.func, ast.Attribute) and n.func.attr == 'append' and self_attr(n.func.value):
                attr = norm_attr(self_attr(n.func.value))
        if not (cls and attr and '.unpack(raw, offset)' in U(s)): return None
        aux = st.get('aux', {})
        if isinstance(s, ast.For):
            it = s.iter
            if not (isinstance(it, ast.Call) and U(it.func) == 'range'): return None
            cnt = it.args[-1]
            e = aux.get(cnt.id) if isinstance(cnt, ast.Name) else None
            # portCount = (length - 32) // len(ofp_phy_port)
            if not (isinstance(e, ast.BinOp) and isinstance(e.op, ast.FloorDiv)): return None
            if self.ieval(e.right) != self.const_len_of_class(cls): raise Irregular("element count divides by %s, element size is %d" % (U(e.right), self.const_len_of_class(cls)))
            return ('tail', ('list', attr, cls), e.left)
        test = s.test
        if isinstance(test, ast.Compare) and isinstance(test.left, ast.Name) and test.left.id in aux and U(test.ops[0]) == '' or True:
            nm = test.left.id if isinstance(test, ast.Compare) and isinstance(test.left, ast.Name) else None
            e = aux.get(nm)
            if e is None: return None
            return ('tail', ('list', attr, cls), e)

    def note_len_use(self, e, st, soft=False):
        for n in ast.walk(e):
            if isinstance(n, ast.Name) and n.id in ('length',):
                st['locals_used_len'].add(n.id)

    def finish_unpack(self, pieces, st, top_avail):
        """resolve locals, check the tail length expression, canonicalise"""
        out = []
        fixed_before = 0
        lens = [p[1] for p in pieces if p[0] == 'local' and (p[1] in st['locals_used_len'] or p[1] == 'length')]
        for p in pieces:
            if p[0] == 'local':
                name, w, k = p[1], p[2], p[3]
                if name in st['locals_to_attr']:
                    ent = st['locals_to_attr'][name]
                    attr, computed = ent[0], ent[1]
                    if computed: self.flag("computed:" + attr + ("(%s)" % ",".join(ent[2]) if len(ent) > 2 else ""))
                    out.append(('blob', attr, w) if k == 's' else ('uint', attr, w))
                elif name in lens:
                    out.append(('lenSelf', w))
                else:
                    out.append(('pad', w))
            elif p[0] == 'tail':
                tail = p[1]
                expr = p[2]
                base = sum(piece_size(x) for x in out)
                self.check_tail_len(expr, base, lens, top_avail, st.get('adjust', {}))
                out.append(('tail', tail))
            else:
                out.append(p)
        return out

    def check_tail_len(self, expr, base, lens, top_avail, adjust={}):
        """the tail length must be <declared total> - <bytes read so far>"""
        caller = None
        if isinstance(expr, tuple) and expr[0] == 'caller':
            caller, expr = expr[1], expr[2]
        def lin(e):
            """-> (symbol, constant) with e == symbol + constant"""
            if isinstance(e, ast.Name): return (e.id, 0)
            if isinstance(e, ast.BinOp) and isinstance(e.op, ast.Sub):
                s, c = lin(e.left); return (s, c - self.ieval(e.right))
            if isinstance(e, ast.BinOp) and isinstance(e.op, ast.Add):
                s, c = lin(e.left); return (s, c + self.ieval(e.right))
            raise Irregular("tail length expression " + U(e))
        sym, c = lin(expr)
        if caller is not None:
            if sym != 'avail': raise Irregular("body tail length is %s, not derived from avail" % U(expr))
            s2, c2 = lin(caller); sym, c = s2, c + c2
        c += adjust.get(sym, 0)
        if sym in lens:
            if -c != base: raise Irregular("tail length is %s%+d but %d bytes precede the tail" % (sym, c, base))
        elif sym == 'avail' and top_avail:
            if -c != base: raise Irregular("tail length is avail%+d but %d bytes precede the tail" % (c, base))
        else:
            raise Irregular("tail length %s is not the record length" % U(expr))

    # ------------------------------------------------------------------ __len__
    def read_len(self):
        ent = self.m.method(self.cls, '__len__')
        if not ent: raise Irregular("no __len__")
        owner, fn = ent
        static = any(U(d) == 'staticmethod' for d in fn.decorator_list)
        if static and any(isinstance(n, ast.Name) and n.id == 'self' for n in ast.walk(fn)):
            raise Irregular("@staticmethod __len__ refers to self")
        return self.len_body(fn)

    def len_expr(self, e):
        """-> (const, tail) for K, K+len(self.x), K+len(self.xs)*len(Cls), K+self._body_length(), K+len(self._pack_body())"""
        if isinstance(e, ast.BinOp) and isinstance(e.op, ast.Add):
            a, ta = self.len_expr(e.left); b, tb = self.len_expr(e.right)
            if ta != ('none',) and tb != ('none',): raise Irregular("two variable terms in __len__")
            return a + b, (ta if ta != ('none',) else tb)
        if isinstance(e, ast.BinOp) and isinstance(e.op, ast.Mult):
            for x, y in ((e.left, e.right), (e.right, e.left)):
                if isinstance(x, ast.Call) and U(x.func) == 'len' and self_attr(x.args[0]) and not self.m.init_attr_class(self.cls, self_attr(x.args[0])):
                    return 0, ('count', self.ieval(y))
        if isinstance(e, ast.Call) and U(e.func) == 'len' and len(e.args) == 1:
            a = e.args[0]
            sa = self_attr(a)
            if sa is not None and not self.m.init_attr_class(self.cls, sa):
                return 0, ('bytes',)
            if isinstance(a, ast.Call) and self_attr(a.func) is not None:           # len(self._pack_body())
                ent = self.m.method(self.cls, a.func.attr)
                if ent:
                    try:
                        ps = Reader(self.m, self.cls).read_pack_fn(ent[1], a.func.attr)
                    except Irregular:
                        return 0, ('bytes',)
                    k = sum(piece_size(p) for p in ps if p[0] != 'tail')
                    tails = [p for p in ps if p[0] == 'tail']
                    return k, (('none',) if not tails else ('bytes',) if tails[0][1][0] == 'rest' else ('sum',))
        if isinstance(e, ast.Call) and self_attr(e.func) is not None and not e.args:  # self._body_length()
            ent = self.m.method(self.cls, e.func.attr)
            if ent: return self.len_body(ent[1])
        return self.ieval(e), ('none',)

    def len_body(self, fn):
        acc = None; tail = ('none',)
        for s in fn.body:
            if isinstance(s, ast.Expr) and isinstance(s.value, ast.Constant): continue
            if isinstance(s, ast.Return):
                if acc is not None and isinstance(s.value, ast.Name) and s.value.id == acc[0]:
                    return acc[1], tail
                k, t = self.len_expr(s.value)
                return k, t
            if isinstance(s, ast.Assign) and isinstance(s.targets[0], ast.Name):
                k, t = self.len_expr(s.value)
                if t != ('none',): raise Irregular("__len__: " + U(s))
                acc = (s.targets[0].id, k); continue
            if isinstance(s, ast.AugAssign) and acc and isinstance(s.target, ast.Name) and s.target.id == acc[0] and isinstance(s.op, ast.Add):
                k, t = self.len_expr(s.value)
                if t != ('none',):
                    if tail != ('none',): raise Irregular("__len__: two variable terms")
                    tail = t
                acc = (acc[0], acc[1] + k); continue
            if isinstance(s, ast.For) and acc and len(s.body) == 1 and U(s.body[0]) == '%s += len(%s)' % (acc[0], U(s.target)) and self_attr(s.iter):
                if tail != ('none',): raise Irregular("__len__: two variable terms")
                tail = ('sum',); continue
            if isinstance(s, ast.If) and 'isinstance(self.' in U(s.test) and len(s.body) == 1 and isinstance(s.body[0], ast.Return) and not s.orelse:
                v = s.body[0].value          # K + sum(len(part) for part in self.body)
                if isinstance(v, ast.BinOp) and isinstance(v.op, ast.Add) and isinstance(v.right, ast.Call) and U(v.right.func) == 'sum':
                    branch_k = self.ieval(v.left)
                    rest = [x for x in fn.body[fn.body.index(s) + 1:]]
                    if len(rest) == 1 and isinstance(rest[0], ast.Return):
                        k, t = self.len_expr(rest[0].value)
                        if k == branch_k and t == ('bytes',):
                            return k, ('bytes',)
                raise Irregular("__len__: branches disagree: " + U(s).split('\n')[0][:60])
            raise Irregular("__len__: statement `%s`" % U(s).split('\n')[0][:60])
        raise Irregular("__len__ without return")


def piece_size(p):
    if p[0] in ('uint', 'blob', 'zstr'): return p[2]
    if p[0] in ('pad', 'lenSelf'): return p[1]
    if p[0] == 'const': return p[1]
    if p[0] == 'local': return p[2]
    return 0


def canon(pieces, label):
    """merge adjacent pads; split fixed / tail; the tail must be last"""
    fixed, tail = [], None
    for p in pieces:
        if tail is not None:
            raise Irregular("%s: bytes follow the variable tail" % label)
        if p[0] == 'tail':
            tail = p[1]; continue
        if p[0] == 'pad':
            if p[1] == 0: continue
            if fixed and fixed[-1][0] == 'pad':
                fixed[-1] = ('pad', fixed[-1][1] + p[1]); continue
        fixed.append(p)
    return fixed, tail


LIST_FAMILY = {'actions': 'actions', 'properties': 'queue_props', 'ports': 'ofp_phy_port', 'queues': 'ofp_packet_queue'}


def translate_class(mods, name):
    """-> dict(name, pack, unpack, len, flags) or raises Irregular"""
    r = Reader(mods, name)
    pk = mods.method(name, 'pack')
    up = mods.method(name, 'unpack')
    if not pk or not up: raise Irregular("no pack/unpack")
    pieces = r.read_pack_fn(pk[1], 'pack')
    pfixed, ptail = canon(pieces, 'pack')
    if ptail and ptail[0] == 'list':
        fam = LIST_FAMILY.get(ptail[1])
        if not fam: raise Irregular("pack: list of unknown element family self.%s" % ptail[1])
        ptail = ('list', ptail[1], fam)
    argn = [a.arg for a in up[1].args.args]
    top_avail = 'avail' in argn
    upieces, st = r.read_unpack_fn(up[1], 'unpack')
    upieces = r.finish_unpack(upieces, st, top_avail)
    ufixed, utail = canon(upieces, 'unpack')
    lb, lt = r.read_len()
    return dict(name=name, module=mods.cls(name)[0], pack=(pfixed, ptail), unpack=(ufixed, utail), len=(lb, lt), flags=list(r.flags))


# ---------------------------------------------------------------------------------------------- registries

DECOS = {'openflow_message', 'openflow_sc_message', 'openflow_c_message', 'openflow_s_message'}


def registries(mods):
    msgs, acts, props, sreq, srep = [], [], [], [], []
    names = {}
    for cname in mods.order:
        mod, node = mods.cls(cname)
        for d in reversed(node.decorator_list):            # decorators apply bottom-up
            if not isinstance(d, ast.Call): continue
            f = U(d.func)
            args = d.args
            kw = {k.arg: k.value for k in d.keywords}
            if f in DECOS:
                msgs.append((mods.ceval(args[1]), cname))
            elif f == 'openflow_action':
                acts.append((mods.ceval(args[1]), cname))
            elif f == 'openflow_queue_prop':
                props.append((mods.ceval(args[1]), cname))
            elif f in ('openflow_stats_request', 'openflow_stats_reply'):
                sname = args[0].value
                tv = args[1] if len(args) > 1 else kw.get('type_val')
                if tv is not None and not (isinstance(tv, ast.Constant) and tv.value is None):
                    names[sname] = mods.ceval(tv)
                val = names.get(sname)
                if val is None: val = 0xfffff      # registered under its name only: no numeric code (reported by registry_total)
                il = kw.get('is_list')
                is_list = bool(isinstance(il, ast.Constant) and il.value is True)
                (sreq if f.endswith('request') else srep).append((val, cname, is_list))
    return dict(messages=sorted(msgs), actions=sorted(acts), queueProps=sorted(props),
                statsRequests=sorted((a, b) for a, b, _ in sreq), statsReplies=sorted(srep))


def nxm_types(mods):
    """(name, type, length, maskable) from the `_make_nxm("NAME", vendor, field, length, ...)` / `_make_nxm_w(...)` calls of
    nicira.py, including the register loop of `_init_regs` (type = vendor << 7 | field, `_make_type`)."""
    out = []
    tree = mods.trees['nicira']
    def one(call, envv):
        f = U(call.func)
        if f not in ('_make_nxm', '_make_nxm_w'): return
        def ev(e):
            if isinstance(e, ast.Name) and e.id in envv: return envv[e.id]
            if isinstance(e, ast.BinOp) and isinstance(e.op, ast.Add) and isinstance(e.left, ast.Constant) and isinstance(e.left.value, str):
                return e.left.value + str(ev(e.right.args[0]) if isinstance(e.right, ast.Call) else ev(e.right))
            if isinstance(e, ast.Constant): return e.value
            return mods.ceval(e)
        a = call.args
        name, vendor, field = ev(a[0]), ev(a[1]), ev(a[2])
        length = ev(a[3]) if len(a) > 3 else None
        if length is None: raise Irregular("nxm type %s without a length" % name)
        out.append((name, (vendor << 7) | field, length, f == '_make_nxm_w'))
    for node in tree.body:
        if isinstance(node, ast.Expr) and isinstance(node.value, ast.Call):
            one(node.value, {})
        elif isinstance(node, ast.FunctionDef) and node.name == '_init_regs':
            for s in node.body:
                if isinstance(s, ast.For) and isinstance(s.iter, ast.Call) and U(s.iter.func) == 'range':
                    hi = mods.ceval(s.iter.args[-1])
                    for i in range(hi):
                        envv = {s.target.id: i}
                        for st in s.body:
                            if isinstance(st, ast.Assign) and isinstance(st.targets[0], ast.Name) and not isinstance(st.value, ast.Call):
                                try: envv[st.targets[0].id] = "NXM_NX_REG" + str(i) if 'NXM_NX_REG' in U(st.value) else None
                                except Exception: pass
                            if isinstance(st, ast.Assign) and isinstance(st.value, ast.Call):
                                one(st.value, envv)
    return out


# ---------------------------------------------------------------------------------------------- emission

def lean_str(s):
    return '"' + s.replace('\\', '\\\\').replace('"', '\\"') + '"'


def lean_field(p):
    if p[0] == 'uint': return '.uint %s %d' % (lean_str(p[1]), p[2])
    if p[0] == 'pad': return '.pad %d' % p[1]
    if p[0] == 'blob': return '.blob %s %d' % (lean_str(p[1]), p[2])
    if p[0] == 'zstr': return '.zstr %s %d' % (lean_str(p[1]), p[2])
    if p[0] == 'lenSelf': return '.lenSelf %d' % p[1]
    if p[0] == 'const': return '.const %d %d' % (p[1], p[2])
    raise ValueError(p)


def lean_layout(fixed, tail):
    t = '.none' if tail is None else ('.rest %s' % lean_str(tail[1]) if tail[0] == 'rest' else '.list %s %s' % (lean_str(tail[1]), lean_str(tail[2])))
    return '⟨[%s], %s⟩' % (', '.join(lean_field(p) for p in fixed), t)


def lean_len(lb, lt):
    t = {'none': '.none', 'bytes': '.bytes', 'sum': '.sum'}.get(lt[0]) or '.count %d' % lt[1]
    return '⟨%d, %s⟩' % (lb, t)


def codec_classes(mods):
    """classes that define or inherit pack+unpack and derive from ofp_base (plus the nicira codec helper classes)"""
    out = []
    for n in mods.order:
        if n.startswith('_ofp_meta') or n in ('ofp_base', 'ofp_stats_body_base', 'ofp_action_base', 'ofp_queue_prop_base',
                                              'ofp_vendor_base', 'ofp_action_vendor_base', 'nicira_base', 'UnderrunError', '_StatsClassInfo'):
            continue
        mro = mods.mro(n)
        if 'ofp_base' in mro:
            out.append(n)
        elif mods.cls(n)[0] == 'nicira' and n in ('nxm_entry', 'nx_match', 'flow_mod_spec'):
            out.append(n)
    return out


def run(repo):
    mods = Modules(repo)
    classes, untranslated = [], []
    for n in codec_classes(mods):
        try:
            classes.append(translate_class(mods, n))
        except Irregular as e:
            untranslated.append((n, str(e)))
        except Exception as e:                       # a shape the reader does not even parse: still named, never guessed
            untranslated.append((n, "%s: %s" % (type(e).__name__, e)))
    regs = registries(mods)
    regs['nxmTypes'] = nxm_types(mods)
    return classes, untranslated, regs


def render(repo):
    classes, untranslated, regs = run(repo)
    out = []
    w = out.append
    w("import PoxModel.Base.Layout")
    w("/-! GENERATED by harness/translate/codec_layouts.py from pox/openflow/libopenflow_01.py and pox/openflow/nicira.py.")
    w("    Do not edit: rewritten on every `./check C01`.  Data only; the theorems about it are in Properties/C01.lean. -/")
    w("namespace Pox.Generated")
    w("open Pox.Layout")
    w("")
    w("def classes : List ClassInfo := [")
    rows = []
    for c in classes:
        rows.append("  { name := %s,\n    packL := %s,\n    unpackL := %s,\n    lenL := %s,\n    flags := [%s] }" % (
            lean_str(c['name']), lean_layout(*c['pack']), lean_layout(*c['unpack']), lean_len(*c['len']),
            ', '.join(lean_str(f) for f in c['flags'])))
    w(",\n".join(rows))
    w("]")
    w("")
    w("/- classes whose `pack`/`unpack`/`__len__` are outside the translator's vocabulary, and why:")
    for n, why in untranslated:
        w("     %s: %s" % (n, why.replace('\n', ' ').replace('-/', '- /')[:160]))
    w("-/")
    w("def untranslated : List String := [%s]" % ', '.join(lean_str(n) for n, _ in untranslated))
    w("")
    for k in ('messages', 'actions', 'queueProps', 'statsRequests'):
        w("def %s : List (Nat × String) := [%s]" % (k, ', '.join('(%d, %s)' % (a, lean_str(b)) for a, b in regs[k])))
    w("def statsReplies : List (Nat × String × Bool) := [%s]" % ', '.join('(%d, %s, %s)' % (a, lean_str(b), 'true' if c else 'false') for a, b, c in regs['statsReplies']))
    w("/-- NXM entry types of nicira.py: (name, type = vendor << 7 | field, value length, maskable) -/")
    w("def nxmTypes : List (String × Nat × Nat × Bool) := [%s]" % ', '.join('(%s, %d, %d, %s)' % (lean_str(a), b, c, 'true' if d else 'false') for a, b, c, d in regs['nxmTypes']))
    w("")
    w("end Pox.Generated")
    return "\n".join(out) + "\n", classes, untranslated, regs


if __name__ == '__main__':
    repo = sys.argv[1] if len(sys.argv) > 1 else os.environ.get("POX_REPO", "/repo")
    text, classes, untranslated, regs = render(repo)
    if len(sys.argv) > 2 and sys.argv[2] == '--lean':
        sys.stdout.write(text)
    else:
        for c in classes:
            print("%-32s %s%s" % (c['name'], "regular" if not c['flags'] else "IRREGULAR " + "; ".join(c['flags']),
                                  "" if c['pack'] == c['unpack'] else "   ** pack != unpack **"))
            if c['pack'] != c['unpack']:
                print("      pack  :", c['pack']); print("      unpack:", c['unpack'])
        print()
        for n, why in untranslated: print("UNTRANSLATED %-30s %s" % (n, why))
        print()
        print(len(classes), "translated,", sum(1 for c in classes if not c['flags']), "regular,", len(untranslated), "untranslated")
        for k, v in regs.items(): print(k, v)
