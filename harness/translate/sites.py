"""Translator for C07: reads pox/lib/recoco/recoco.py, pox/core.py and pox/lib/util.py with `ast` (never imports
them) and emits lean/PoxModel/Generated/Sites.lean: for every function that takes part in the thread/scheduler
hand-off, the ordered list of its *statements that can touch state visible to another thread*.

A statement is listed iff its own expressions (for a compound statement: the header, not the body) contain an
attribute access or a call whose root is not one of the NOISE modules (traceback, logging, time, sys, inspect) or a
plain builtin (print, isinstance, len, ...), or a `yield`; `raise` and `return <value>` statements are always listed.
Text = `ast.unparse` of the statement / the reconstructed header line; a `with X:` statement additionally yields the
pseudo statement `end with X` after its body (the `__exit__`).  Order = source order (pre-order).

lean/PoxModel/Model/HandoffSites.lean holds the model's table: the same lists, each statement tagged with the model
action (site) it is, or marked as a call / thread-local / not modelled.  `Pox.C07.sites_agree : Generated = Model`
is proved by `decide`, so a statement that disappears, changes, moves, or a new attribute-touching statement inside
one of these functions breaks the build.  The line numbers are used by the harness only (harness/c07.py) to map
`sys.settrace` line events and primitive operations to sites.
"""
import ast, os

NOISE = {"traceback", "logging", "time", "sys", "inspect"}
BUILTINS = {"print", "isinstance", "len", "type", "list", "callable", "set", "min", "max", "range", "str", "int"}

# (file, qualified name inside the file)
FUNCTIONS = [
    ("pox/lib/recoco/recoco.py", "BaseTask.start"),
    ("pox/lib/recoco/recoco.py", "Scheduler.callLater"),
    ("pox/lib/recoco/recoco.py", "Scheduler.synchronized"),
    ("pox/lib/recoco/recoco.py", "Scheduler.schedule"),
    ("pox/lib/recoco/recoco.py", "Scheduler.fast_schedule"),
    ("pox/lib/recoco/recoco.py", "Scheduler.run"),
    ("pox/lib/recoco/recoco.py", "Scheduler.cycle"),
    ("pox/lib/recoco/recoco.py", "Select.execute"),
    ("pox/lib/recoco/recoco.py", "SelectHub.idle"),
    ("pox/lib/recoco/recoco.py", "SelectHub.break_idle"),
    ("pox/lib/recoco/recoco.py", "SelectHub._threadProc"),
    ("pox/lib/recoco/recoco.py", "SelectHub._select"),
    ("pox/lib/recoco/recoco.py", "SelectHub.registerSelect"),
    ("pox/lib/recoco/recoco.py", "SelectHub._cycle"),
    ("pox/lib/recoco/recoco.py", "SelectHub._return"),
    ("pox/lib/recoco/recoco.py", "ScheduleTask.run"),
    ("pox/lib/recoco/recoco.py", "SyncTask.__init__"),
    ("pox/lib/recoco/recoco.py", "SyncTask.run"),
    ("pox/lib/recoco/recoco.py", "Synchronizer.__enter__"),
    ("pox/lib/recoco/recoco.py", "Synchronizer.__exit__"),
    ("pox/lib/recoco/recoco.py", "CallLaterTask.__init__"),
    ("pox/lib/recoco/recoco.py", "CallLaterTask.callLater"),
    ("pox/lib/recoco/recoco.py", "CallLaterTask.run"),
    ("pox/lib/recoco/recoco.py", "_LockAcquire.execute"),
    ("pox/lib/recoco/recoco.py", "_LockRelease.execute"),
    ("pox/lib/recoco/recoco.py", "Lock.__init__"),
    ("pox/lib/recoco/recoco.py", "Lock._do_release"),
    ("pox/lib/recoco/recoco.py", "Lock._do_acquire"),
    ("pox/core.py", "POXCore.callLater"),
    ("pox/core.py", "POXCore.call_later"),
    ("pox/core.py", "POXCore.raiseLater"),
    ("pox/lib/util.py", "make_pinger.PipePinger.ping"),
    ("pox/lib/util.py", "make_pinger.PipePinger.pongAll"),
    ("pox/lib/util.py", "make_pinger.PipePinger.pong_all"),
]


def _root(e):
    while isinstance(e, (ast.Attribute, ast.Subscript, ast.Call)):
        e = e.value if not isinstance(e, ast.Call) else e.func
    return e.id if isinstance(e, ast.Name) else None


def _touches(exprs):
    for e in exprs:
        if e is None:
            continue
        for n in ast.walk(e):
            if isinstance(n, (ast.Yield, ast.YieldFrom, ast.Await)):
                return True
            if isinstance(n, ast.Attribute) and _root(n) not in NOISE:
                return True
            if isinstance(n, ast.Call) and not (isinstance(n.func, ast.Name) and n.func.id in BUILTINS) \
                    and _root(n.func) not in NOISE:
                return True
    return False


def _is_docstring(st):
    return isinstance(st, ast.Expr) and isinstance(st.value, ast.Constant) and isinstance(st.value.value, str)


def _walk(body, out):
    for st in body:
        if _is_docstring(st) or isinstance(st, (ast.Import, ast.ImportFrom, ast.Pass, ast.Break, ast.Continue,
                                                 ast.Global, ast.Nonlocal)):
            continue
        if isinstance(st, ast.If):
            if _touches([st.test]): out.append(("if %s:" % ast.unparse(st.test), st.lineno))
            _walk(st.body, out); _walk(st.orelse, out)
        elif isinstance(st, ast.While):
            if _touches([st.test]): out.append(("while %s:" % ast.unparse(st.test), st.lineno))
            _walk(st.body, out); _walk(st.orelse, out)
        elif isinstance(st, ast.For):
            if _touches([st.target, st.iter]):
                out.append(("for %s in %s:" % (ast.unparse(st.target), ast.unparse(st.iter)), st.lineno))
            _walk(st.body, out); _walk(st.orelse, out)
        elif isinstance(st, ast.With):
            items = ", ".join(ast.unparse(i) for i in st.items)
            t = _touches([i.context_expr for i in st.items])
            if t: out.append(("with %s:" % items, st.lineno))
            _walk(st.body, out)
            if t: out.append(("end with %s" % items, st.lineno))
        elif isinstance(st, ast.Try):
            _walk(st.body, out)
            for h in st.handlers:
                if h.type is not None and _touches([h.type]):
                    out.append(("except %s:" % ast.unparse(h.type), h.lineno))
                _walk(h.body, out)
            _walk(st.orelse, out); _walk(st.finalbody, out)
        elif isinstance(st, (ast.FunctionDef, ast.AsyncFunctionDef, ast.ClassDef)):
            out.append(("<nested definition %s>" % st.name, st.lineno))
        elif isinstance(st, ast.Raise) or (isinstance(st, ast.Return) and st.value is not None):
            out.append((ast.unparse(st), st.lineno))
        else:
            if _touches([st]):
                out.append((ast.unparse(st), st.lineno))


def _find(tree, qual):
    node = tree
    for part in qual.split("."):
        nxt = None
        for ch in ast.iter_child_nodes(node) if not isinstance(node, ast.Module) else node.body:
            if isinstance(ch, (ast.FunctionDef, ast.ClassDef, ast.AsyncFunctionDef)) and ch.name == part:
                nxt = ch
        if nxt is None:
            # definitions nested below statements (e.g. a class defined inside a function body)
            for ch in ast.walk(node):
                if ch is not node and isinstance(ch, (ast.FunctionDef, ast.ClassDef)) and ch.name == part:
                    nxt = ch; break
        if nxt is None:
            return None
        node = nxt
    return node if isinstance(node, ast.FunctionDef) else None


def extract(repo):
    """-> list of (file, qualname, [(text, lineno)], (def line, last line, first body line) or None)"""
    trees, res = {}, []
    for rel, qual in FUNCTIONS:
        if rel not in trees:
            try:
                trees[rel] = ast.parse(open(os.path.join(repo, rel)).read())
            except (OSError, SyntaxError):
                trees[rel] = None
        tree = trees[rel]
        fn = _find(tree, qual) if tree is not None else None
        if fn is None:
            res.append((rel, qual, [("<function not found>", 0)], None)); continue
        out = []
        _walk(fn.body, out)
        body = [st for st in fn.body if not _is_docstring(st)]
        res.append((rel, qual, out, (fn.lineno, fn.end_lineno, body[0].lineno if body else fn.end_lineno)))
    return res


def key(rel, qual):
    return os.path.basename(rel)[:-3] + "." + qual


def lean_str(s):
    return '"' + s.replace("\\", "\\\\").replace('"', '\\"') + '"'


def render(repo):
    ex = extract(repo)
    lines = ["/-! GENERATED by harness/translate/sites.py from pox/lib/recoco/recoco.py, pox/core.py, pox/lib/util.py — do not edit.",
             "    Per function: the ordered statements that can touch state visible to another thread. -/",
             "namespace Pox.Generated.Sites", "",
             "def fns : List (String × List String) := ["]
    rows = []
    for rel, qual, sts, _ in ex:
        rows.append("  (%s, [\n%s])" % (lean_str(key(rel, qual)),
                                        ",\n".join("      " + lean_str(t) for t, _ in sts)))
    lines.append(",\n".join(rows))
    lines += ["]", "", "end Pox.Generated.Sites", ""]
    return "\n".join(lines), ex


if __name__ == "__main__":
    import sys
    text, ex = render(sys.argv[1] if len(sys.argv) > 1 else "/repo")
    for rel, qual, sts, span in ex:
        print(key(rel, qual), span)
        for t, l in sts:
            print("   %4d  %s" % (l, t))
