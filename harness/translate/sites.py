"""Translator for C07: reads pox/lib/recoco/recoco.py, pox/core.py and pox/lib/util.py with `ast` (never imports
them) and emits lean/PoxModel/Generated/Sites.lean: for every function that takes part in the thread/scheduler
hand-off, the ordered list of its *statements that can touch state visible to another thread*.

A statement is listed iff its own expressions (for a compound statement: the header, not the body) contain an
attribute access or a call whose root is not one of the NOISE modules (traceback, logging, time, sys, inspect) or a
plain builtin (print, isinstance, len, ...), or a `yield`; `raise` and `return <value>` statements are always listed.
Text = `ast.unparse` of the statement / the reconstructed header line; a `with X:` statement additionally yields the
pseudo statement `end with X` after its body (the `__exit__`).  Order = source order (pre-order).

lean/PoxModel/Model/HandoffSites.lean holds the model's table: the same lists, each statement tagged with the model
action (site) it is, or marked as a call / thread-local / not modelled.  The texts are EVIDENCE (they change with every
refactoring); the obligation proved by `decide` is `Pox.C07.ops_agree : Generated.ops = Model.ops` on the structural
summary defined further down (`ops`).  Line numbers are used by the harness for anchors/coverage and diagnostics only.
"""
import ast, os

NOISE = {"traceback", "logging", "time", "sys", "inspect"}
BUILTINS = {"print", "isinstance", "len", "type", "list", "callable", "set", "min", "max", "range", "str", "int"}

# (file, qualified name inside the file)
FUNCTIONS = [
    ("pox/lib/recoco/recoco.py", "BaseTask.start"),
    ("pox/lib/recoco/recoco.py", "Scheduler.callLater"),
    ("pox/lib/recoco/recoco.py", "Scheduler.synchronized"),
    ("pox/lib/recoco/recoco.py", "Scheduler.schedule"),
    ("pox/lib/recoco/recoco.py", "Scheduler.fast_schedule"),
    ("pox/lib/recoco/recoco.py", "Scheduler.run"),
    ("pox/lib/recoco/recoco.py", "Scheduler.cycle"),
    ("pox/lib/recoco/recoco.py", "Select.execute"),
    ("pox/lib/recoco/recoco.py", "SelectHub.idle"),
    ("pox/lib/recoco/recoco.py", "SelectHub.break_idle"),
    ("pox/lib/recoco/recoco.py", "SelectHub._threadProc"),
    ("pox/lib/recoco/recoco.py", "SelectHub._select"),
    ("pox/lib/recoco/recoco.py", "SelectHub.registerSelect"),
    ("pox/lib/recoco/recoco.py", "SelectHub._cycle"),
    ("pox/lib/recoco/recoco.py", "SelectHub._return"),
    ("pox/lib/recoco/recoco.py", "ScheduleTask.run"),
    ("pox/lib/recoco/recoco.py", "SyncTask.__init__"),
    ("pox/lib/recoco/recoco.py", "SyncTask.run"),
    ("pox/lib/recoco/recoco.py", "Synchronizer.__enter__"),
    ("pox/lib/recoco/recoco.py", "Synchronizer.__exit__"),
    ("pox/lib/recoco/recoco.py", "CallLaterTask.__init__"),
    ("pox/lib/recoco/recoco.py", "CallLaterTask.callLater"),
    ("pox/lib/recoco/recoco.py", "CallLaterTask.run"),
    ("pox/lib/recoco/recoco.py", "_LockAcquire.execute"),
    ("pox/lib/recoco/recoco.py", "_LockRelease.execute"),
    ("pox/lib/recoco/recoco.py", "Lock.__init__"),
    ("pox/lib/recoco/recoco.py", "Lock._do_release"),
    ("pox/lib/recoco/recoco.py", "Lock._do_acquire"),
    ("pox/core.py", "POXCore.callLater"),
    ("pox/core.py", "POXCore.call_later"),
    ("pox/core.py", "POXCore.raiseLater"),
    ("pox/lib/util.py", "make_pinger.PipePinger.ping"),
    ("pox/lib/util.py", "make_pinger.PipePinger.pongAll"),
    ("pox/lib/util.py", "make_pinger.PipePinger.pong_all"),
]


def _root(e):
    while isinstance(e, (ast.Attribute, ast.Subscript, ast.Call)):
        e = e.value if not isinstance(e, ast.Call) else e.func
    return e.id if isinstance(e, ast.Name) else None


def _touches(exprs):
    for e in exprs:
        if e is None:
            continue
        for n in ast.walk(e):
            if isinstance(n, (ast.Yield, ast.YieldFrom, ast.Await)):
                return True
            if isinstance(n, ast.Attribute) and _root(n) not in NOISE:
                return True
            if isinstance(n, ast.Call) and not (isinstance(n.func, ast.Name) and n.func.id in BUILTINS) \
                    and _root(n.func) not in NOISE:
                return True
    return False


def _is_docstring(st):
    return isinstance(st, ast.Expr) and isinstance(st.value, ast.Constant) and isinstance(st.value.value, str)


def _walk(body, out):
    for st in body:
        if _is_docstring(st) or isinstance(st, (ast.Import, ast.ImportFrom, ast.Pass, ast.Break, ast.Continue,
                                                 ast.Global, ast.Nonlocal)):
            continue
        if isinstance(st, ast.If):
            if _touches([st.test]): out.append(("if %s:" % ast.unparse(st.test), st.lineno))
            _walk(st.body, out); _walk(st.orelse, out)
        elif isinstance(st, ast.While):
            if _touches([st.test]): out.append(("while %s:" % ast.unparse(st.test), st.lineno))
            _walk(st.body, out); _walk(st.orelse, out)
        elif isinstance(st, ast.For):
            if _touches([st.target, st.iter]):
                out.append(("for %s in %s:" % (ast.unparse(st.target), ast.unparse(st.iter)), st.lineno))
            _walk(st.body, out); _walk(st.orelse, out)
        elif isinstance(st, ast.With):
            items = ", ".join(ast.unparse(i) for i in st.items)
            t = _touches([i.context_expr for i in st.items])
            if t: out.append(("with %s:" % items, st.lineno))
            _walk(st.body, out)
            if t: out.append(("end with %s" % items, st.lineno))
        elif isinstance(st, ast.Try):
            _walk(st.body, out)
            for h in st.handlers:
                if h.type is not None and _touches([h.type]):
                    out.append(("except %s:" % ast.unparse(h.type), h.lineno))
                _walk(h.body, out)
            _walk(st.orelse, out); _walk(st.finalbody, out)
        elif isinstance(st, (ast.FunctionDef, ast.AsyncFunctionDef, ast.ClassDef)):
            out.append(("<nested definition %s>" % st.name, st.lineno))
        elif isinstance(st, ast.Raise) or (isinstance(st, ast.Return) and st.value is not None):
            out.append((ast.unparse(st), st.lineno))
        else:
            if _touches([st]):
                out.append((ast.unparse(st), st.lineno))


def _find(tree, qual):
    node = tree
    for part in qual.split("."):
        nxt = None
        for ch in ast.iter_child_nodes(node) if not isinstance(node, ast.Module) else node.body:
            if isinstance(ch, (ast.FunctionDef, ast.ClassDef, ast.AsyncFunctionDef)) and ch.name == part:
                nxt = ch
        if nxt is None:
            # definitions nested below statements (e.g. a class defined inside a function body)
            for ch in ast.walk(node):
                if ch is not node and isinstance(ch, (ast.FunctionDef, ast.ClassDef)) and ch.name == part:
                    nxt = ch; break
        if nxt is None:
            return None
        node = nxt
    return node if isinstance(node, ast.FunctionDef) else None


def extract(repo):
    """-> list of (file, qualname, [(text, lineno)], (def line, last line, first body line) or None)"""
    trees, res = {}, []
    for rel, qual in FUNCTIONS:
        if rel not in trees:
            try:
                trees[rel] = ast.parse(open(os.path.join(repo, rel)).read())
            except (OSError, SyntaxError):
                trees[rel] = None
        tree = trees[rel]
        fn = _find(tree, qual) if tree is not None else None
        if fn is None:
            res.append((rel, qual, [("<function not found>", 0)], None)); continue
        out = []
        _walk(fn.body, out)
        body = [st for st in fn.body if not _is_docstring(st)]
        res.append((rel, qual, out, (fn.lineno, fn.end_lineno, body[0].lineno if body else fn.end_lineno)))
    return res


# ---------------------------------------------------------------------------------------------------------------------
# structural summary: per listed function, the BAG of operations on (potentially) shared state, helpers inlined
#
# The statement texts above change with every refactoring (a helper extracted, a local alias, an early return).  What the
# model depends on is WHICH operations a function performs on shared objects; their order and the conditions under which
# they happen are tied dynamically (harness/c07.py: every operation executed on a shared object must be the model's next
# action of that thread).  So the obligation compared with the model by `decide` is this summary, which is invariant under
# local renames, log calls, reordering of branches and extraction of helpers (inlined up to depth 3):
#   method calls named like an operation of a deque / set / lock / event / queue / pinger / thread ("append", "ping", ...),
#   `with` (acquire+release), `in` (contains), len(), attribute stores ("write:attr"), creation of objects ("new:Class"),
#   yield / raise / assert, and calls of other listed functions ("call:name").
SHARED_OPS = {"append", "appendleft", "popleft", "pop", "remove", "clear", "extend", "extendleft", "insert", "rotate", "add", "discard",
              "update", "put", "get", "get_nowait", "put_nowait", "empty", "qsize", "set", "wait", "is_set", "acquire", "release", "locked",
              "ping", "pongAll", "pong_all", "pong", "select", "start", "join", "read", "write", "setdefault", "popitem", "notify",
              "notify_all", "notifyAll"}
LISTED_NAMES = {q.split(".")[-1] for _, q in FUNCTIONS}
INLINE_DEPTH = 3


def _defs(tree):
    """name -> [FunctionDef] for every function / method defined anywhere in the file"""
    d = {}
    for n in ast.walk(tree):
        if isinstance(n, (ast.FunctionDef, ast.AsyncFunctionDef)):
            d.setdefault(n.name, []).append(n)
    return d


def _ops_of(fn, defs, depth, seen, out):
    alias = {}
    for n in ast.walk(fn):                        # local aliases of bound methods / functions:  name = <expr>.attr  |  name = other
        if isinstance(n, ast.Assign) and len(n.targets) == 1 and isinstance(n.targets[0], ast.Name):
            if isinstance(n.value, ast.Attribute): alias[n.targets[0].id] = n.value.attr
    def visit(n):
        if isinstance(n, (ast.FunctionDef, ast.AsyncFunctionDef, ast.ClassDef, ast.Lambda)) and n is not fn:
            return                                   # nested definitions are summarised where they are called
        if isinstance(n, (ast.With, ast.AsyncWith)):
            out.extend(["with"] * len(n.items))
        elif isinstance(n, ast.Compare):
            out.extend("contains" for o in n.ops if isinstance(o, (ast.In, ast.NotIn)))
        elif isinstance(n, (ast.Yield, ast.YieldFrom)): out.append("yield")
        elif isinstance(n, ast.Raise): out.append("raise")
        elif isinstance(n, ast.Assert): out.append("assert")
        elif isinstance(n, (ast.Assign, ast.AugAssign, ast.AnnAssign)):
            tg = n.targets if isinstance(n, ast.Assign) else [n.target]
            for t in tg:
                for e in ast.walk(t):
                    if isinstance(e, ast.Attribute) and isinstance(e.ctx, ast.Store): out.append("write:" + e.attr)
        elif isinstance(n, ast.Call):
            f = n.func
            name = f.attr if isinstance(f, ast.Attribute) else alias.get(f.id, f.id) if isinstance(f, ast.Name) else None
            method = isinstance(f, ast.Attribute) or (isinstance(f, ast.Name) and f.id in alias)
            if name is not None and not (_root(f) in NOISE):
                if name == "len" and isinstance(f, ast.Name): out.append("len")
                elif name in SHARED_OPS and method: out.append(name)
                elif name in SHARED_OPS: pass                                           # a builtin such as set()
                elif name in LISTED_NAMES: out.append("call:" + name)
                elif name[:1].isupper() and not name.endswith(("Error", "Exception", "Exit")): out.append("new:" + name)
                elif len(defs.get(name, [])) == 1 and depth < INLINE_DEPTH and name not in seen:
                    _ops_of(defs[name][0], defs, depth + 1, seen | {name}, out)        # a helper: its operations are the caller's
        for ch in ast.iter_child_nodes(n):
            visit(ch)
    for st in fn.body:
        visit(st)


def ops(repo):
    """-> [(key, sorted [(op, count)])] for the listed functions"""
    trees, res = {}, []
    for rel, qual in FUNCTIONS:
        if rel not in trees:
            try:
                trees[rel] = ast.parse(open(os.path.join(repo, rel)).read())
            except (OSError, SyntaxError):
                trees[rel] = None
        tree = trees[rel]
        fn = _find(tree, qual) if tree is not None else None
        if fn is None:
            res.append((key(rel, qual), [("<function not found>", 1)])); continue
        out = []
        _ops_of(fn, _defs(tree), 0, {fn.name}, out)
        bag = {}
        for o in out: bag[o] = bag.get(o, 0) + 1
        res.append((key(rel, qual), sorted(bag.items())))
    return res


def key(rel, qual):
    return os.path.basename(rel)[:-3] + "." + qual


def lean_str(s):
    return '"' + s.replace("\\", "\\\\").replace('"', '\\"') + '"'


def render(repo):
    ex = extract(repo)
    lines = ["/-! GENERATED by harness/translate/sites.py from pox/lib/recoco/recoco.py, pox/core.py, pox/lib/util.py — do not edit.",
             "    Per function: the ordered statements that can touch state visible to another thread. -/",
             "namespace Pox.Generated.Sites", "",
             "def fns : List (String × List String) := ["]
    rows = []
    for rel, qual, sts, _ in ex:
        rows.append("  (%s, [\n%s])" % (lean_str(key(rel, qual)),
                                        ",\n".join("      " + lean_str(t) for t, _ in sts)))
    lines.append(",\n".join(rows))
    lines += ["]", "", "/-- per function: the bag of operations on shared state, helpers inlined (see harness/translate/sites.py) -/",
              "def ops : List (String × List (String × Nat)) := ["]
    lines.append(",\n".join("  (%s, [%s])" % (lean_str(k), ", ".join("(%s, %d)" % (lean_str(o), c) for o, c in bag))
                            for k, bag in ops(repo)))
    lines += ["]", "", "end Pox.Generated.Sites", ""]
    return "\n".join(lines), ex


if __name__ == "__main__":
    import sys
    text, ex = render(sys.argv[1] if len(sys.argv) > 1 else "/repo")
    for rel, qual, sts, span in ex:
        print(key(rel, qual), span)
        for t, l in sts:
            print("   %4d  %s" % (l, t))
    for k, bag in ops(sys.argv[1] if len(sys.argv) > 1 else "/repo"):
        print(k, bag)
