"""Translator for C07: reads pox/lib/recoco/recoco.py, pox/core.py and pox/lib/util.py with `ast` (never imports
them) and emits lean/PoxModel/Generated/Sites.lean: for every function that takes part in the thread/scheduler
hand-off, the ordered list of its *statements that can touch state visible to another thread*.

A statement is listed iff its own expressions (for a compound statement: the header, not the body) contain an
attribute access or a call whose root is not one of the NOISE modules (traceback, logging, time, sys, inspect) or a
plain builtin (print, isinstance, len, ...), or a `yield`; `raise` and `return <value>` statements are always listed.
Text = `ast.unparse` of the statement / the reconstructed header line; a `with X:` statement additionally yields the
pseudo statement `end with X` after its body (the `__exit__`).  Order = source order (pre-order).

lean/PoxModel/Model/HandoffSites.lean holds the model's table: the same lists, each statement tagged with the model
action (site) it is, or marked as a call / thread-local / not modelled.  The texts are EVIDENCE (they change with every
refactoring); the obligation proved by `decide` is `Pox.C07.ops_agree : Generated.ops = Model.ops` on the structural
summary defined further down (`ops`).  Line numbers are used by the harness for anchors/coverage and diagnostics only.
"""
import ast, os

NOISE = {"traceback", "logging", "time", "sys", "inspect"}
BUILTINS = {"print", "isinstance", "len", "type", "list", "callable", "set", "min", "max", "range", "str", "int"}

# (file, qualified name inside the file)
FUNCTIONS = [
    ("pox/lib/recoco/recoco.py", "BaseTask.start"),
    ("pox/lib/recoco/recoco.py", "Scheduler.callLater"),
    ("pox/lib/recoco/recoco.py", "Scheduler.synchronized"),
    ("pox/lib/recoco/recoco.py", "Scheduler.schedule"),
    ("pox/lib/recoco/recoco.py", "Scheduler.fast_schedule"),
    ("pox/lib/recoco/recoco.py", "Scheduler.run"),
    ("pox/lib/recoco/recoco.py", "Scheduler.cycle"),
    ("pox/lib/recoco/recoco.py", "Select.execute"),
    ("pox/lib/recoco/recoco.py", "SelectHub.idle"),
    ("pox/lib/recoco/recoco.py", "SelectHub.break_idle"),
    ("pox/lib/recoco/recoco.py", "SelectHub._threadProc"),
    ("pox/lib/recoco/recoco.py", "SelectHub._select"),
    ("pox/lib/recoco/recoco.py", "SelectHub.registerSelect"),
    ("pox/lib/recoco/recoco.py", "SelectHub._cycle"),
    ("pox/lib/recoco/recoco.py", "SelectHub._return"),
    ("pox/lib/recoco/recoco.py", "ScheduleTask.run"),
    ("pox/lib/recoco/recoco.py", "SyncTask.__init__"),
    ("pox/lib/recoco/recoco.py", "SyncTask.run"),
    ("pox/lib/recoco/recoco.py", "Synchronizer.__enter__"),
    ("pox/lib/recoco/recoco.py", "Synchronizer.__exit__"),
    ("pox/lib/recoco/recoco.py", "CallLaterTask.__init__"),
    ("pox/lib/recoco/recoco.py", "CallLaterTask.callLater"),
    ("pox/lib/recoco/recoco.py", "CallLaterTask.run"),
    ("pox/lib/recoco/recoco.py", "_LockAcquire.execute"),
    ("pox/lib/recoco/recoco.py", "_LockRelease.execute"),
    ("pox/lib/recoco/recoco.py", "Lock.__init__"),
    ("pox/lib/recoco/recoco.py", "Lock._do_release"),
    ("pox/lib/recoco/recoco.py", "Lock._do_acquire"),
    ("pox/core.py", "POXCore.callLater"),
    ("pox/core.py", "POXCore.call_later"),
    ("pox/core.py", "POXCore.raiseLater"),
    ("pox/lib/util.py", "make_pinger.PipePinger.ping"),
    ("pox/lib/util.py", "make_pinger.PipePinger.pongAll"),
    ("pox/lib/util.py", "make_pinger.PipePinger.pong_all"),
]


def _root(e):
    while isinstance(e, (ast.Attribute, ast.Subscript, ast.Call)):
        e = e.value if not isinstance(e, ast.Call) else e.func
    return e.id if isinstance(e, ast.Name) else None


def _touches(exprs):
    for e in exprs:
        if e is None:
            continue
        for n in ast.walk(e):
            if isinstance(n, (ast.Yield, ast.YieldFrom, ast.Await)):
                return True
            if isinstance(n, ast.Attribute) and _root(n) not in NOISE:
                return True
            if isinstance(n, ast.Call) and not (isinstance(n.func, ast.Name) and n.func.id in BUILTINS) \
                    and _root(n.func) not in NOISE:
                return True
    return False


def _is_docstring(st):
    return isinstance(st, ast.Expr) and isinstance(st.value, ast.Constant) and isinstance(st.value.value, str)


def _walk(body, out):
    for st in body:
        if _is_docstring(st) or isinstance(st, (ast.Import, ast.ImportFrom, ast.Pass, ast.Break, ast.Continue,
                                                 ast.Global, ast.Nonlocal)):
            continue
        if isinstance(st, ast.If):
            if _touches([st.test]): out.append(("if %s:" % ast.unparse(st.test), st.lineno))
            _walk(st.body, out); _walk(st.orelse, out)
        elif isinstance(st, ast.While):
            if _touches([st.test]): out.append(("while %s:" % ast.unparse(st.test), st.lineno))
            _walk(st.body, out); _walk(st.orelse, out)
        elif isinstance(st, ast.For):
            if _touches([st.target, st.iter]):
                out.append(("for %s in %s:" % (ast.unparse(st.target), ast.unparse(st.iter)), st.lineno))
            _walk(st.body, out); _walk(st.orelse, out)
        elif isinstance(st, ast.With):
            items = ", ".join(ast.unparse(i) for i in st.items)
            t = _touches([i.context_expr for i in st.items])
            if t: out.append(("with %s:" % items, st.lineno))
            _walk(st.body, out)
            if t: out.append(("end with %s" % items, st.lineno))
        elif isinstance(st, ast.Try):
            _walk(st.body, out)
            for h in st.handlers:
                if h.type is not None and _touches([h.type]):
                    out.append(("except %s:" % ast.unparse(h.type), h.lineno))
                _walk(h.body, out)
            _walk(st.orelse, out); _walk(st.finalbody, out)
        elif isinstance(st, (ast.FunctionDef, ast.AsyncFunctionDef, ast.ClassDef)):
            out.append(("<nested definition %s>" % st.name, st.lineno))
        elif isinstance(st, ast.Raise) or (isinstance(st, ast.Return) and st.value is not None):
            out.append((ast.unparse(st), st.lineno))
        else:
            if _touches([st]):
                out.append((ast.unparse(st), st.lineno))


def _find(tree, qual):
    node = tree
    for part in qual.split("."):
        nxt = None
        for ch in ast.iter_child_nodes(node) if not isinstance(node, ast.Module) else node.body:
            if isinstance(ch, (ast.FunctionDef, ast.ClassDef, ast.AsyncFunctionDef)) and ch.name == part:
                nxt = ch
        if nxt is None:
            # definitions nested below statements (e.g. a class defined inside a function body)
            for ch in ast.walk(node):
                if ch is not node and isinstance(ch, (ast.FunctionDef, ast.ClassDef)) and ch.name == part:
                    nxt = ch; break
        if nxt is None:
            return None
        node = nxt
    return node if isinstance(node, ast.FunctionDef) else None


def extract(repo):
    """-> list of (file, qualname, [(text, lineno)], (def line, last line, first body line) or None)"""
    trees, res = {}, []
    for rel, qual in FUNCTIONS:
        if rel not in trees:
            try:
                trees[rel] = ast.parse(open(os.path.join(repo, rel)).read())
            except (OSError, SyntaxError):
                trees[rel] = None
        tree = trees[rel]
        fn = _find(tree, qual) if tree is not None else None
        if fn is None:
            res.append((rel, qual, [("<function not found>", 0)], None)); continue
        out = []
        _walk(fn.body, out)
        body = [st for st in fn.body if not _is_docstring(st)]
        res.append((rel, qual, out, (fn.lineno, fn.end_lineno, body[0].lineno if body else fn.end_lineno)))
    return res


# ---------------------------------------------------------------------------------------------------------------------
# structural summary: per ENTRY POINT of the hand-off protocol (the listed functions), the SET of operations on shared
# state it can perform — over the transitive closure of the calls it makes inside these files
#
# The statement texts above change with every refactoring.  What the model depends on is WHICH operations an entry point
# performs on WHICH shared object; order and conditions are tied dynamically (harness/c07.py: every operation executed on a
# shared object must be the model's next action of that thread).  The obligation compared with the model by `decide`
# (`Pox.C07.ops_agree`) is this summary.  An element is "op@role":
#   * op    a method named like an operation of a deque / set / dict / lock / event / queue / pinger / thread (called, or
#           picked as a bound method: `enq = q.appendleft if first else q.append`), `with`, `contains` (in / not in),
#           `write` (attribute store), `new` (creation of an object of a class of these files), `call` (a method name that
#           several classes of these files define: dynamic dispatch, not followed), and the bare "yield", "raise", "assert";
#   * role  the shared object: the last attribute name of the receiver (`self._scheduler._ready` -> `_ready`,
#           `self.syncer.inlock` -> `inlock`), seen through local aliases (`ready = self._ready`), through parameters bound at
#           the followed call (`self._select(self._tasks, {})`), a global name (`os`) as itself; operations on purely local
#           objects (lists / dicts built in the function, parameters of unknown origin) are NOT shared state and are left out;
#           for `write` the role is the attribute written, and attributes that nothing in the package ever reads (debug
#           counters) are not shared state either.
# Calls of functions / methods defined exactly once in these files are FOLLOWED (any depth, cycle-safe, across classes), so a
# helper split off an entry point, merged loops, renamed locals, reordered branches, a log helper leave the set unchanged.
SHARED_OPS = {"append", "appendleft", "popleft", "pop", "remove", "clear", "extend", "extendleft", "insert", "rotate", "add", "discard",
              "update", "put", "get_nowait", "put_nowait", "empty", "qsize", "set", "wait", "is_set", "acquire", "release", "locked",
              "ping", "pongAll", "pong_all", "pong", "select", "join", "read", "write", "setdefault", "popitem", "notify",
              "notify_all", "notifyAll", "get"}
FILES = sorted({rel for rel, _ in FUNCTIONS})
MAX_DEPTH = 40


class _World:
    def __init__(self, repo):
        self.trees, self.defs, self.classes = {}, {}, set()
        for rel in FILES:
            try:
                t = ast.parse(open(os.path.join(repo, rel)).read())
            except (OSError, SyntaxError):
                t = None
            self.trees[rel] = t
            if t is None: continue
            for n in ast.walk(t):
                if isinstance(n, (ast.FunctionDef, ast.AsyncFunctionDef)): self.defs.setdefault(n.name, []).append(n)
                elif isinstance(n, ast.ClassDef): self.classes.add(n.name)
        # attribute names that are READ somewhere in the package (an attribute nobody reads is private bookkeeping)
        self.read = set()
        root = os.path.join(repo, "pox")
        for dp, dn, fn in os.walk(root):
            for f in fn:
                if not f.endswith(".py"): continue
                path = os.path.join(dp, f)
                rel = os.path.relpath(path, repo)
                try:
                    t = self.trees[rel] if rel in self.trees and self.trees[rel] is not None else ast.parse(open(path, encoding="utf-8", errors="replace").read())
                except (OSError, SyntaxError, ValueError):
                    continue
                for n in ast.walk(t):
                    if isinstance(n, ast.Attribute) and isinstance(n.ctx, ast.Load): self.read.add(n.attr)
                    elif isinstance(n, ast.Call) and isinstance(n.func, ast.Name) and n.func.id in ("getattr", "hasattr") \
                            and len(n.args) >= 2 and isinstance(n.args[1], ast.Constant) and isinstance(n.args[1].value, str):
                        self.read.add(n.args[1].value)


def _params(fn):
    a = fn.args
    return [x.arg for x in a.posonlyargs + a.args]


def _summarise(w, fn, env, out, seen, depth, locked=False, reached=None):
    """add the elements of `fn` (with parameter roles `env`; `locked` = called from inside a `with <lock>:` body) to the set `out`"""
    if reached is not None: reached.add(id(fn))
    k = (id(fn), tuple(sorted(env.items())), locked)
    if k in seen or depth > MAX_DEPTH: return
    seen.add(k)
    local = set(_params(fn))
    if fn.args.vararg: local.add(fn.args.vararg.arg)
    if fn.args.kwarg: local.add(fn.args.kwarg.arg)
    for n in ast.walk(fn):
        if isinstance(n, ast.Name) and isinstance(n.ctx, ast.Store): local.add(n.id)
    env = dict(env)

    def role(e):
        if isinstance(e, ast.Attribute): return e.attr
        if isinstance(e, ast.Name):
            if e.id in env: return env[e.id]
            return None if e.id in local else e.id                  # a global (module, module-level object) is its own role
        if isinstance(e, ast.Subscript): return role(e.value)
        if isinstance(e, ast.IfExp):
            a, b = role(e.body), role(e.orelse)
            return a if a == b else None
        if isinstance(e, ast.NamedExpr): return role(e.value)
        return None

    for _ in range(3):                                               # local aliases (chains up to length 3), flow-insensitive
        for n in ast.walk(fn):
            if isinstance(n, ast.Assign) and len(n.targets) == 1 and isinstance(n.targets[0], ast.Name):
                r = role(n.value)
                if r is not None and n.targets[0].id not in env: env[n.targets[0].id] = r

    def follow(name, call):
        d = w.defs[name][0]
        ps = _params(d)
        cenv = {}
        if call is not None:
            args = list(call.args)
            if isinstance(call.func, ast.Attribute) and ps: ps = ps[1:]          # bound call: the receiver is the first parameter
            for p_, a_ in zip(ps, args):
                if isinstance(a_, ast.Starred): break
                r = role(a_)
                if r is not None: cenv[p_] = r
            for kw in call.keywords:
                if kw.arg is not None:
                    r = role(kw.value)
                    if r is not None: cenv[kw.arg] = r
        _summarise(w, d, cenv, out, seen, depth + 1, lk[0], reached)

    lk = [locked]
    def emit(e):
        out.add(e + "[locked]" if lk[0] else e)

    def named(name, node, call):
        """a reference to the function / method / class `name` (called through `call`, or just picked)"""
        r = role(node.value) if isinstance(node, ast.Attribute) and name in SHARED_OPS else None
        if r is not None:
            emit("%s@%s" % (name, r))
        elif name in SHARED_OPS and not (isinstance(node, ast.Attribute) and isinstance(node.value, ast.Name)
                                         and _params(fn)[:1] == [node.value.id]):
            pass                  # an operation on a local object (only `self.op()` may be a method of these files)
        elif name in w.classes:
            if call is not None: emit("new@" + name)
        elif len(w.defs.get(name, ())) == 1:
            follow(name, call)
        elif name in w.defs:
            emit("call@" + name)

    def visit(n, call_of=None):
        if isinstance(n, (ast.FunctionDef, ast.AsyncFunctionDef, ast.ClassDef, ast.Lambda)) and n is not fn:
            return
        if isinstance(n, (ast.With, ast.AsyncWith)):
            held = False
            for it in n.items:
                r = role(it.context_expr)
                if r is not None: emit("with@" + r); held = True
                visit(it.context_expr)
            was = lk[0]; lk[0] = was or held                         # the body runs while the lock / context is held
            for st_ in n.body: visit(st_)
            lk[0] = was
            return
        elif isinstance(n, ast.Compare):
            for o, c in zip(n.ops, n.comparators):
                if isinstance(o, (ast.In, ast.NotIn)):
                    r = role(c)
                    if r is not None: emit("contains@" + r)
        elif isinstance(n, (ast.Yield, ast.YieldFrom)): emit("yield")
        elif isinstance(n, ast.Raise): emit("raise")
        elif isinstance(n, ast.Assert): emit("assert")
        elif isinstance(n, ast.Subscript) and isinstance(n.ctx, (ast.Store, ast.Del)):
            r = role(n.value)
            if r is not None: emit(("setitem@" if isinstance(n.ctx, ast.Store) else "delitem@") + r)
        elif isinstance(n, ast.Call):
            f = n.func
            if isinstance(f, ast.Attribute) and _root(f) not in NOISE: named(f.attr, f, n)
            elif isinstance(f, ast.Name) and f.id not in local: named(f.id, f, n)
            for ch in ast.iter_child_nodes(n):
                visit(ch, call_of=n if ch is f else None)
            return
        elif isinstance(n, ast.Attribute):
            if isinstance(n.ctx, ast.Store):
                if n.attr in w.read: emit("write@" + n.attr)
            elif call_of is None and _root(n) not in NOISE:
                named(n.attr, n, None)                               # a bound method picked without calling it (yet)
        for ch in ast.iter_child_nodes(n):
            visit(ch)

    for st in fn.body:
        visit(st)


# the shared objects of the hand-off protocol (the roles the model's actions operate on)
PROTOCOL_ROLES = {"_ready", "_calls", "_event", "_incoming", "_pinger", "_lock", "inlock", "outlock", "_callLaterTask", "syncer",
                  "_locked", "_waiting"}


def _qualnames(tree):
    out = {}
    def walk(node, pre):
        for ch in ast.iter_child_nodes(node):
            if isinstance(ch, (ast.FunctionDef, ast.AsyncFunctionDef, ast.ClassDef)):
                q = pre + ch.name
                if not isinstance(ch, ast.ClassDef): out[id(ch)] = q
                walk(ch, q + ".")
            else:
                walk(ch, pre)
    walk(tree, "")
    return out


def ops(repo):
    """-> [(key, sorted set of elements)] for the entry points, plus the row "<unlisted>": every function of the three files
    that is NOT reached from an entry point and whose own body operates on one of the protocol's shared objects — a new way
    into the protocol (a new method touching the ready queue, ...) shows up there"""
    w = _World(repo)
    res, reached = [], set()
    for rel, qual in FUNCTIONS:
        tree = w.trees.get(rel)
        fn = _find(tree, qual) if tree is not None else None
        if fn is None:
            res.append((key(rel, qual), ["<function not found>"])); continue
        out = set()
        _summarise(w, fn, {}, out, set(), 0, False, reached)
        res.append((key(rel, qual), sorted(out)))
    unlisted = []
    for rel in FILES:
        tree = w.trees.get(rel)
        if tree is None: continue
        qn = _qualnames(tree)
        for n in ast.walk(tree):
            if isinstance(n, (ast.FunctionDef, ast.AsyncFunctionDef)) and id(n) not in reached:
                own = set()
                w2 = _World.__new__(_World); w2.trees, w2.classes, w2.read = w.trees, w.classes, w.read
                w2.defs = {}                                         # own body only: follow nothing
                _summarise(w2, n, {}, own, set(), 0)
                hit = sorted(e for e in own if "@" in e and e.split("@", 1)[1].replace("[locked]", "") in PROTOCOL_ROLES)
                if hit: unlisted.append("%s.%s: %s" % (os.path.basename(rel)[:-3], qn.get(id(n), n.name), " ".join(hit)))
    res.append(("<unlisted>", sorted(unlisted)))
    return res


def key(rel, qual):
    return os.path.basename(rel)[:-3] + "." + qual


def lean_str(s):
    return '"' + s.replace("\\", "\\\\").replace('"', '\\"') + '"'


def render(repo):
    ex = extract(repo)
    lines = ["/-! GENERATED by harness/translate/sites.py from pox/lib/recoco/recoco.py, pox/core.py, pox/lib/util.py — do not edit.",
             "    Per function: the ordered statements that can touch state visible to another thread. -/",
             "namespace Pox.Generated.Sites", "",
             "def fns : List (String × List String) := ["]
    rows = []
    for rel, qual, sts, _ in ex:
        rows.append("  (%s, [\n%s])" % (lean_str(key(rel, qual)),
                                        ",\n".join("      " + lean_str(t) for t, _ in sts)))
    lines.append(",\n".join(rows))
    lines += ["]", "", "/-- per entry point: the set of operations on shared state (op@role) over the closure of its calls (harness/translate/sites.py) -/",
              "def ops : List (String × List String) := ["]
    lines.append(",\n".join("  (%s, [%s])" % (lean_str(k), ", ".join(lean_str(o) for o in els))
                            for k, els in ops(repo)))
    lines += ["]", "", "end Pox.Generated.Sites", ""]
    return "\n".join(lines), ex


if __name__ == "__main__":
    import sys
    text, ex = render(sys.argv[1] if len(sys.argv) > 1 else "/repo")
    for rel, qual, sts, span in ex:
        print(key(rel, qual), span)
        for t, l in sts:
            print("   %4d  %s" % (l, t))
    for k, bag in ops(sys.argv[1] if len(sys.argv) > 1 else "/repo"):
        print(k, bag)
