"""C19 — discovered topology is the physical one; flooding is pruned to a tree (DESIGN §5 C19).

Case kinds
  calc  : an adjacency (list of directed links in dict insertion order) -> real `_calc_spanning_tree()`: raises iff the model `calcTreeL` (culling loop
          as written) raises; the tree it returns is judged by the executable specification `Spec.validForest` in the driver (WHICH forest is left open)
  hist  : a physical topology + a history of up / down / probe / tick / sweep ops under the virtual clock, through the real
          `Discovery`, `LLDPSender` and `spanning_tree` handlers with stub connections that record what they are sent; model `stepOf`: after
          every op the tree the NO_FLOOD bits on the switches amount to is judged by `Spec.validForest` and handed to the model of the handlers,
          LinkEvents / port_mods per step / adjacency compared exactly
  codec : (dpid, port, hw) -> real `_create_discovery_packet(...).pack()` vs model `probeFrame`, and the real PacketIn handler's
          recovered originator vs (dpid, port)
  frame : a (foreign / damaged) LLDP frame -> what the real PacketIn handler does with it vs model `recover`
  upd   : one real `_update_tree()` from an arbitrary `_prev`, optionally with the k-th `con.send` raising -> port_mods IN ORDER and
          `_prev` afterwards vs model `updateTreeFOf` at the tree the implementation's port_mods amount to (judged by `Spec.validForest`)
  live  : a physical topology + a history of up / down / run(dt) / cut / mend / mute / pstate ops in which NOTHING is called by hand:
          the timers the components create (the recurring expiry Timer of Discovery.__init__, LLDPSender's send cycle, spanning_tree's
          delayed port checks) are the real recoco Timers, run by the real Scheduler.cycle() on a virtual hub (clock + wake list); the
          probes LLDPSender sends travel over the cables of the topology and come back as PacketIns.  Model: `runT` (the expiry timer
          under the contract of recoco.Timer.run); oracle: links of a silent switch are withdrawn, live links are discovered and stay
  opts  : (hist and live cases) configuration is an input: `opts` names the documented options of discovery (link_timeout, no_flow, explicit_drop,
          eat_early_packets) and of spanning_tree (no_flood, hold_down), as the texts a command line hands to launch() (or as Python values for the
          documented constructor: how = "ctor"), and the order of the two launch() calls (st_first).  Every set of options is its own pair of
          components ("world"), started through the public launch() on a nexus nobody else of C19 listens on.  The oracle reads the MEANING of the
          options off the documentation alone (config_of): the configured link timeout; the expiry check period is the documented 5 s; the send cycle is
          whatever the component derives -- the oracle only demands the outcome (a cable that carries probes is in the adjacency and is never withdrawn,
          a silent one is gone after timeout + check period).  Model: Cfg / stepOfC / tstepOfC (configured timeout, no_flood); hold_down is oracle only.
"""
import os, io, json, math, heapq, itertools, copy, contextlib, inspect, select as _select
import common, poxenv
from common import Check

OFPP_MAX = 0xff00
TIMEOUT_MS = 10000
PERIOD_MS = 5000                 # Discovery._timeout_check_period: the expiry timer's interval

# -- opt-in for validation runs: entries proposed for known_findings.json (the file itself is not edited by this module)
_extra = os.environ.get("C19_PROPOSED_FINDINGS")
if _extra:
    _orig_init = common.Findings.__init__
    def _init(self):
        _orig_init(self)
        try:
            self.open += [f for f in json.load(open(_extra)).get("findings", []) if f.get("status", "open") == "open"]
        except FileNotFoundError:
            pass
    common.Findings.__init__ = _init


def make_rec_timer(base, made):
    """the repository's own recoco.Timer, recording how it is constructed (nothing else changes: it is started, scheduled, run and
    cancelled by the real code)"""
    class Timer(base):
        def __init__(self, *a, **kw):
            made.append((self, a, dict(kw)))
            base.__init__(self, *a, **kw)
    Timer.__qualname__ = "Timer"
    return Timer


def timer_args(base, a, kw):
    """(interval, callback, recurring, selfStoppable, started, absoluteTime) of a recorded construction, whatever mix of positional
    and keyword arguments was used"""
    try:
        b = inspect.signature(base.__init__).bind(None, *a, **kw); b.apply_defaults()
        g = b.arguments
        return {"t": g.get("timeToWake"), "cb": g.get("callback"), "recurring": bool(g.get("recurring")),
                "selfStoppable": bool(g.get("selfStoppable", True)), "started": bool(g.get("started", True)),
                "absolute": bool(g.get("absoluteTime"))}
    except Exception:
        return {"t": a[0] if a else kw.get("timeToWake"), "cb": a[1] if len(a) > 1 else kw.get("callback"), "recurring": bool(kw.get("recurring")),
                "selfStoppable": True, "started": True, "absolute": False}


class VHub:
    """stands in for recoco.SelectHub under the real Scheduler: the same entry points (registerTimer / registerSelect / _return / idle /
    break_idle / _cycle), time is the virtual clock.  Wake-ups are kept in a heap together with the harness's own timed happenings
    (frames in flight); at equal times tasks wake first, in the order they went to sleep.  Descriptors a task selects on are polled
    for real with a zero timeout (level-triggered), so core.callLater keeps working."""
    def __init__(self, sched):
        self.sched, self.heap, self.seq, self.io = sched, [], 0, []
    def clear(self):
        del self.heap[:]; del self.io[:]
    def idle(self): pass
    def break_idle(self): pass
    def _cycle(self): pass
    def registerTimer(self, task, timeToWake, timeIsAbsolute=False):
        return self.registerSelect(task, None, None, None, timeToWake, timeIsAbsolute)
    def registerSelect(self, task, rlist=None, wlist=None, xlist=None, timeout=None, timeIsAbsolute=False):
        if timeout is not None and not timeIsAbsolute: timeout += poxenv.clock()
        entry = [task, list(rlist or []), list(wlist or []), list(xlist or []), timeout]
        if entry[1] or entry[2] or entry[3]: self.io.append(entry)
        if timeout is not None:
            self.seq += 1
            heapq.heappush(self.heap, (timeout, 0, self.seq, entry))
    def _return(self, task, rv):
        task.rv = rv
        self.sched.fast_schedule(task)
    def at(self, when, fn):
        """a happening of the harness's own (not a task): fn() at virtual time `when`"""
        self.seq += 1
        heapq.heappush(self.heap, (when, 1, self.seq, fn))
    def poll_io(self):
        woke = False
        for entry in list(self.io):
            if entry[0] is None: continue
            try:
                r, w, x = _select.select(entry[1], entry[2], entry[3], 0)
            except Exception:
                continue
            if r or w or x:
                task, entry[0] = entry[0], None
                self.io.remove(entry)
                self._return(task, (r, w, x)); woke = True
        return woke
    def next_due(self):
        while self.heap and self.heap[0][1] == 0 and self.heap[0][3][0] is None: heapq.heappop(self.heap)
        return self.heap[0][0] if self.heap else None
    def pop(self):
        when, kind, _, what = heapq.heappop(self.heap)
        if kind == 1: return when, what, None
        task, what[0] = what[0], None
        if what in self.io: self.io.remove(what)
        return when, None, task


class StubCon:
    """a connection as far as discovery / spanning_tree use it: dpid, ports, connect_time, send()"""
    def __init__(self, of, dpid, ports, now):
        self.dpid = dpid
        self.ports = {p: of.ofp_phy_port(port_no=p, hw_addr=hw_of(dpid, p)) for p in ports}
        self.features = of.ofp_features_reply(datapath_id=dpid, ports=list(self.ports.values()))
        self.connect_time = now
        self.sent = []
    def send(self, m):
        # what goes on the wire is fixed at send time: keep bytes, never the message object (it may be reused / mutated by the sender)
        self.sent.append(bytes(m) if isinstance(m, (bytes, bytearray, memoryview)) else m.pack())
    def __str__(self): return "[stub %s]" % self.dpid


def wire_msgs(of, raw):
    """split the bytes one send() carried into OpenFlow messages: (type, bytes)"""
    out, i = [], 0
    while i + 8 <= len(raw):
        ln = (raw[i + 2] << 8) | raw[i + 3]
        if ln < 8: break
        out.append((raw[i + 1], raw[i:i + ln])); i += ln
    return out


def port_mod_of(of, raw):
    pm = of.ofp_port_mod(); pm.unpack(raw)
    return pm


def hw_of(dpid, port):
    return bytes([2, (dpid >> 24) & 255, (dpid >> 16) & 255, (dpid >> 8) & 255, dpid & 255, port & 255])


_ONE = [(1, 1), (1, 0), (0, 1)]
# per unordered pair: no cable, one cable, or two parallel cables; each cable bidirectional or one-way in either direction (13 options)
CABLE_OPTS = [[]] + [[c] for c in _ONE] + [[c1, c2] for c1 in _ONE for c2 in _ONE]


class UF:
    def __init__(self): self.p = {}
    def find(self, x):
        self.p.setdefault(x, x)
        while self.p[x] != x:
            self.p[x] = self.p[self.p[x]]; x = self.p[x]
        return x
    def union(self, a, b):
        ra, rb = self.find(a), self.find(b)
        if ra == rb: return False
        self.p[ra] = rb; return True
    def classes(self, nodes):
        m = {}
        for n in nodes: m.setdefault(self.find(n), set()).add(n)
        return sorted(sorted(c) for c in m.values())


def bidir_cables(adj):
    """undirected physical links known in both directions: frozenset of the two (dpid, port) ends"""
    s = set(adj)
    return sorted({tuple(sorted(((a, b), (c, d)))) for (a, b, c, d) in s if (c, d, a, b) in s})


def forest_check(adj, enabled_cables, switches):
    """enabled_cables ⊆ bidirectional cables; they must be acyclic and connect exactly what the bidirectional cables connect"""
    uf_all, uf_t = UF(), UF()
    for (e1, e2) in bidir_cables(adj): uf_all.union(e1[0], e2[0])
    for (e1, e2) in enabled_cables:
        if e1[0] == e2[0] or not uf_t.union(e1[0], e2[0]):
            return "cycle"
    if uf_all.classes(switches) != uf_t.classes(switches):
        return "not-spanning"
    return None


class C19(Check):
    id = "C19"
    prop_module = "PoxModel.Properties.C19"
    lean_targets = ["drv_c19"]
    driver = "drv_c19"
    theorems = ["Pox.C19.cull_loop_is_closed_form", "Pox.C19.calc_raises_iff_selfloop", "Pox.C19.tree_is_forest", "Pox.C19.tree_edge_is_bridge",
                "Pox.C19.model_tree_valid", "Pox.C19.valid_forest_sound",
                "Pox.C19.calc_terminates", "Pox.C19.link_events", "Pox.C19.event_iff_change", "Pox.C19.in_adjacency_iff_last_added",
                "Pox.C19.adjacency_exact", "Pox.C19.adjacency_ends_connected", "Pox.C19.down_withdraws", "Pox.C19.sweep_bounds_age",
                "Pox.C19.timer_never_stops", "Pox.C19.timer_withdraws", "Pox.C19.timed_is_history", "Pox.C19.timed_link_events",
                "Pox.C19.configured_default_is_model", "Pox.C19.configured_sweep_bounds_age", "Pox.C19.configured_sweep_withdraws_only_silent",
                "Pox.C19.flood_ports", "Pox.C19.flood_keeps", "Pox.C19.flood_ports_partial", "Pox.C19.flood_ports_forest",
                "Pox.C19.cable_floods_iff_tree_edge", "Pox.C19.reach_unique",
                "Pox.C19.port_mods_are_changes", "Pox.C19.send_failure_recovery", "Pox.C19.bits_are_prev", "Pox.C19.flood_bits",
                "Pox.C19.probe_roundtrip", "Pox.C19.flood_ports_defect_D20", "Pox.C19.flood_ports_defect_skip",
                "Pox.C19.flood_ports_defect_outside_tree", "Pox.C19.flood_ports_defect_oneway_loop"]
    anchors = [("pox/openflow/discovery.py", "LLDPSender.create_packet_out"), ("pox/openflow/discovery.py", "LLDPSender._create_discovery_packet"),
               ("pox/openflow/discovery.py", "Discovery._handle_openflow_ConnectionDown"), ("pox/openflow/discovery.py", "Discovery._expire_links"),
               ("pox/openflow/discovery.py", "Discovery._handle_openflow_PacketIn"), ("pox/openflow/discovery.py", "Discovery._delete_links"),
               ("pox/openflow/discovery.py", "Discovery.is_edge_port"),
               ("pox/openflow/spanning_tree.py", "_calc_spanning_tree"), ("pox/openflow/spanning_tree.py", "_handle_ConnectionUp"),
               ("pox/openflow/spanning_tree.py", "_handle_LinkEvent"), ("pox/openflow/spanning_tree.py", "_update_tree"),
               ("pox/lib/packet/lldp.py", "lldp.next_tlv"), ("pox/lib/packet/lldp.py", "lldp.parse")]
    trusted_base = ["models Model/STree.lean and Model/Discovery.lean hand-written from spanning_tree.py / discovery.py / lldp.py; tied by this correspondence run",
                    "WHICH spanning forest is used (and which of several parallel cables) is left open by the property: the tree the implementation chose -- the dict "
                    "_calc_spanning_tree returned; in histories and single updates the tree its NO_FLOOD bits amount to (Spec.floodTree) -- is judged in Lean by the executable "
                    "specification Spec.validForest (edges are links known in both directions with the two ports of ONE cable, acyclic, joins what the bidirectional links join; "
                    "theorems model_tree_valid: the modelled code's own tree always passes, valid_forest_sound: what passing means) and then handed to the model of the handlers "
                    "(updateTreeOf / stepOf / tstepOf; step_isOf: the modelled code is the instance at its own tree), so that the port_mods in order, _prev, the LinkEvents and the "
                    "adjacency are still compared exactly; the Python glue only flattens the dict / lists the port_mods",
                    "the culling loop of _calc_spanning_tree is modelled as written (dict-of-dicts as one insertion-ordered association list) and proved equal to the closed form "
                    "the other proofs use (cull_loop_is_closed_form); the iteration order of the `switches` set is an oracle argument fed from the harness",
                    "the expiry timer is modelled as the contract of recoco.Timer.run (sleep until due, next = wake time + interval, a self-stoppable timer whose callback "
                    "returns False ends) applied to what _expire_links returns; recoco's Scheduler / Sleep themselves are C06's subject",
                    "harness: stub connections, virtual clock; in `live` cases the real Scheduler.cycle() and the real recoco Timers on a virtual hub (wake list on the "
                    "virtual clock, tasks before frames at equal times), cables that deliver a probe at the next multiple of 1/8 s; the union-find forest oracle"]
    assumptions = ["port state (carrier up / down, PortStatus) is no input of Discovery's adjacency or of _update_tree: `pstate` ops of a history flip OFPPS_LINK_DOWN in the "
                   "controller's port table and raise the real PortStatus event, and are no-ops in the model; the flood bit is configuration and must be right whatever the carrier",
                   "LLDPSender's schedule (add_port / del_port / _set_timer / _timer_handler: which ports are probed, and when) is not modelled: in `hist` cases probes are "
                   "ops of the history; in `live` cases the real sender runs on its real Timer and the ORACLE alone demands the outcome (every working cable direction "
                   "is in the adjacency once the network has been left alone for link timeout + check period, and stays there); the model takes the probe arrivals of "
                   "the run as given.  Only create_packet_out / _create_discovery_packet (the probe's content) are modelled",
                   "`hist` cases call the expiry sweep by hand (`sweep` ops; sweep_bounds_age says what one sweep guarantees); `live` cases never do: the recurring "
                   "Timer(_timeout_check_period, _expire_links) made by Discovery.__init__ runs under the real Timer.run, and the model (`runT`, theorems timer_never_stops / "
                   "timer_withdraws) fires its own sweeps from the Timer contract -- under an ideal clock: a timer wakes exactly when due; at most 75 ports (no random chunking "
                   "of the send cycle)",
                   "configuration: link_timeout and no_flood are parameters of the model (Cfg; theorem configured_default_is_model: the defaults are the handlers the other "
                   "theorems speak about); no_flow / explicit_drop / eat_early_packets / the order of the launch() calls are varied and are no inputs of the model (other "
                   "traffic -- ARP, UDP, foreign LLDP, runts: `data` ops -- is a no-op of the model); hold_down is NOT modelled (ages of connections, a one-shot timer per "
                   "connect): those histories are judged by the oracle alone, and of the flood clause exactly what the option leaves intact -- it is judged when every "
                   "connected switch is older than send cycle + 1 s (= link timeout / 2 + 1 s); with no_flood alone nothing is promised for a new switch before the next "
                   "change of the adjacency, so between a connect and that change the quiet-time flood check is not applied (after every change it is, as always); the "
                   "adjacency / LinkEvent clauses are judged in full under every option.  In histories con.send never raises (the `except: _prev.clear()` path is modelled and compared for single _update_tree() calls: kind upd, theorem send_failure_recovery)",
                   "a port's NO_FLOOD bit is what the last port_mod on the current connection said; a (re)connecting switch starts with flooding enabled on every port",
                   "cables are point to point (a port is an end of at most one cable) and join two different switches; a switch with two of its own ports cabled together makes "
                   "_calc_spanning_tree raise AssertionError (theorem calc_raises_iff_selfloop; modelled, compared, but outside the property's quantifier)",
                   "a PacketIn is only ever received from a connected switch; ConnectionUp is raised only for a switch that is not connected",
                   "LLDP payloads are ASCII; TLV type 8 (management address) is not modelled; clock values are multiples of 1/8 s (exact in binary64)"]
    design_ref = "DESIGN.md §5 C19, Appendix D.7"
    technique = ("Lean 4 proof (loop invariant of the work-list traversal; induction over histories) + differential correspondence of the compiled model against "
                 "_calc_spanning_tree, Discovery, LLDPSender, spanning_tree handlers and the LLDP packet classes + independent union-find oracle")
    level_text = ("Theorems: for EVERY adjacency without self-links the tree of _calc_spanning_tree (culling + traversal as written) is a forest (leaf sequence; every edge a bridge), "
                  "uses only bidirectional links and connects exactly what those connect, within 2|switches| iterations; for EVERY history the LinkEvent stream alternates per link and the "
                  "adjacency is exactly the links with a recent accepted probe and no disconnect since; for EVERY timer-driven history (sweeps fired by the recurring Timer under the contract of "
                  "recoco.Timer.run, nothing called by hand) the timer never stops, no link of the adjacency is older than link timeout + check period, and the run is a history "
                  "in the above sense (timed_is_history); after every change the repaired handlers leave exactly the tree ports and the "
                  "host-facing ports of every tree switch flooding; the probe round-trips for every dpid < 2^64 and port < 2^16.  Defect witnesses (decide) for the pinned code.")
    level_note = ("The model has three variants of the handlers: `pinned` (before D20 / C19-1), `fixed` (with them: /repo today), `full` (plus the repair "
                  "fixes/C19-2_update_tree_all_switches.diff: _update_tree goes through every connected switch).  The harness probes which one the code under test "
                  "behaves like (evidence: variant_detected) and compares against that variant; the oracle is the FULL property (every connected switch), which `fixed` "
                  "violates (theorems flood_ports_defect_oneway_loop / flood_ports_defect_outside_tree; findings C19-2 and proposed C19-3) and `full` satisfies "
                  "(flood_ports_full_repaired, flood_keeps).  flood_bits / bits_are_prev / port_mods_are_changes tie _prev to the NO_FLOOD bits on the switches, given that "
                  "every port_mod is applied.  Trusted: Lean kernel, axioms propext/Classical.choice/Quot.sound, the hand-written models, this harness; the theorems are "
                  "about the models, the runs below are what connects them to the code.")
    rule = ("opts (configuration as input, hist + live): live corpus = link_timeout 1, 2, 3, 5, 10, 30 (launch text and constructor), 0 (= default) and 2.5, on one cable and on a "
            "triangle, each run 3 timeouts + 2 check periods long and looked at several times, then a cable goes silent for timeout + period + 1 s and comes back; every "
            "other option of discovery alone, all together, both launch orders, every documented spelling class of a boolean text, with ARP / UDP / foreign LLDP / runt "
            "PacketIns between the probes; no_flood / hold_down / both under default and short timeouts with a late-comer, a reboot and host-facing ports; random: "
            "55 % of the live and 30 % of the hist histories draw options (timeout 1..30 s), run lengths follow the timeout.  "
            "live: timer-driven runs (nothing called by hand; real recoco Timers for the expiry sweep, the send cycle, the delayed port checks; probes cross the cables): corpus = quiet "
            "ticks first, then a cable / one direction / a wedged switch goes silent without any disconnect, two silent failures in a row, long quiet runs, reboots and carrier flaps "
            "between ticks, cuts right after and right before a tick; random: 2..5 switches, 3..12 ops of run(0.125..26 s) / cut / mend / mute / down / up / reboot / carrier flap, "
            "always ending with > 15 s of quiet.  calcseq: 2..5 adjacencies through one process in a row (other dict order, a parallel cable gone, a cable re-plugged, the same again); upd: one or two _update_tree() calls from an arbitrary _prev with a send lost at any position; frame corpus: all 256 chassis / port subtypes, all TLV types, declared lengths 0..40 and 255..511; portsweep: sender -> receiver for every port number built from parser-relevant byte classes + 0..512 + 0xfe00..0xffff (thorough: all 65536); hist: port numbers from the whole legal range (0x3030..0x3939, 255/256, 0xfeff ...), carrier flaps shorter than the link timeout interleaved with tree changes; hist corpus: discovery interrupted after every prefix by every switch rebooting, dpid 0, mixed sweeps.  calc (dict order shuffled per case): 2 and 3 switches exhaustive over all 13 cable options per pair (none / 1 / 2 parallel cables, each bidirectional or one-way "
            "either way); 4 switches exhaustive over 5 options per pair (5^6; thorough: 6 options, 6^6, + 80000 sampled over all 13); 5 switches (thorough) exhaustive over {none, bidirectional, "
            "one-way} (3^10) + 50000 sampled over all 13; random multigraphs on 5..12 switches; arbitrary link lists with shared / crossed ports.  hist: random topologies of 2..6 switches with redundant / parallel / one-way "
            "cables and 10..60 ops.  codec: boundary x boundary and random dpids/ports.  frame: damaged and foreign LLDP.  "
            "non-trivial = calc with a non-empty tree, hist / live with >=1 removal event, codec/frame always")
    coverage_cases = 10 ** 9          # trace every case (the tracer only follows the anchored files)

    def extra_evidence(self):
        return {"variant_detected": self.variant, "variant_note": getattr(self, "variant_note", ""),
                "kinds_skipped_because_an_entry_point_was_not_found": dict(self.skipped),
                "prev_shape": self._prev_shape(),
                "timers_made_at_construction [interval, callback, recurring, selfStoppable, started]": self.ctor_timer_info,
                "upd_cases_without_prev_comparison": getattr(self, "_skipped_upd", 0),
                "note_prev": "spanning_tree._prev is read / preset only by the `upd` kind, through an adapter for the nested and the flat {(dpid, port): b} shape; "
                             "histories observe flood state only through the port_mods sent and a harness-owned per-switch port config that a reconnect resets",
                "anchored_lines_not_reachable_in_this_configuration":
                "def lines (executed at import), discovery.py:371-381 (re-checks of what lldp.parse already enforced), "
                ":399-400 / :445-446 (except around struct.unpack of a slice whose length was just tested), spanning_tree.py:191 (connect_time None); the option "
                "branches (_eat_early_packets, _hold_down, _noflood_by_default) are driven by the `opts` of hist / live cases",
                "configurations_built": len(getattr(self, "worlds", {}))}

    # ------------------------------------------------------------------ setup
    def setup(self):
        core = poxenv.boot()
        # Timers: the repository's own class, recording its constructions, in every namespace a component could take it from
        import pox.lib.recoco as rpk
        import pox.lib.recoco.recoco as rmod
        self.rmod, self.base_timer, self.timers_made = rmod, rmod.Timer, []
        self.RT = make_rec_timer(self.base_timer, self.timers_made)
        # (not in recoco.py itself: Timer.start says super(Timer, self) with its own module's global)
        if getattr(rpk, "Timer", None) is self.base_timer: rpk.Timer = self.RT
        import pox.openflow as ofmod
        import pox.openflow.libopenflow_01 as of
        import pox.openflow.discovery as disc
        import pox.openflow.spanning_tree as st
        for mod in (disc, st):
            if getattr(mod, "Timer", None) is self.base_timer: mod.Timer = self.RT
        # the core's scheduler (never started, no thread) is the default scheduler; its hub is replaced by the virtual one, so whatever
        # the components schedule -- Timer, core.callDelayed, core.callLater -- runs in Scheduler.cycle() when a `live` case turns the crank
        self.sched = core.scheduler
        if getattr(rmod, "defaultScheduler", None) is not self.sched: rmod.defaultScheduler = self.sched
        self.hub = VHub(self.sched)
        self.sched._selectHub = self.hub
        import pox.lib.packet as pkt
        self.core, self.ofmod, self.of, self.disc, self.st, self.pkt = core, ofmod, of, disc, st, pkt
        poxenv.clock.now = 1000.0
        import pox.lib.packet.lldp as lldpmod
        # -- configuration is an input: every set of options is its own pair of components, started through the public launch() functions
        #    (or the documented constructor) on a nexus nobody else of C19 listens on; a case names its options and runs in that "world"
        def ours(h):
            f = h[1] if isinstance(h, (tuple, list)) and len(h) > 1 else h
            own = getattr(f, "__self__", None)
            return (own is not None and type(own).__module__ == disc.__name__) or getattr(f, "__module__", None) == st.__name__
        self._base_handlers = {k: [h for h in v if not ours(h)] for k, v in getattr(core.openflow, "_eventMixin_handlers", {}).items()}
        for k in ("_noflood_by_default", "_hold_down"):
            if isinstance(getattr(st, k, None), bool): setattr(st, k, False)
        for k in ("_prev", "_dirty_switches"):
            if isinstance(getattr(st, k, None), dict): getattr(st, k).clear()
        self._st_defaults = self._snap(vars(st))
        self._class_pristine = []
        for mod in (disc, st, lldpmod):                                     # class-level dicts / lists shared by instances
            for cls in [c for c in vars(mod).values() if isinstance(c, type) and getattr(c, "__module__", None) == mod.__name__]:
                self._class_pristine.append((cls, self._snap(dict(vars(cls)))))
        self.skipped = {}
        self._events = []
        self._orders = []
        self.real_conns = core.openflow._connections
        self.f_calc = getattr(st, "_calc_spanning_tree", None)
        self.f_update = getattr(st, "_update_tree", None)
        self.worlds = {}
        self._activate(self._world({}))
        self.ctor_timer_info = []
        for a, kw in self.ctor_timers:
            g = timer_args(self.base_timer, a, kw)
            self.ctor_timer_info.append([g["t"], getattr(g["cb"], "__name__", str(g["cb"])), g["recurring"], g["selfStoppable"], g["started"]])
        self.variant = self._probe_variant()
        # the handlers as they are (or without C19-2): the tree is a parameter of the model, the implementation's choice is judged by
        # Spec.validForest; the variants of the code before D20 / C19-1 recompute on a stale adjacency and are compared as before
        self.spec = bool(self.variant["popFirst"] and not self.variant["skip"])

    # ------------------------------------------------------------------ configurations ("worlds")
    TRUE_TEXTS = ("true", "t", "yes", "y", "on", "enable", "enabled", "ok", "okay", "1", "allow", "allowed")      # util.str_to_bool, as documented

    @classmethod
    def _truth(cls, v, default=False):
        if v is None: return default
        if isinstance(v, bool): return v
        return str(v).lower() in cls.TRUE_TEXTS

    @classmethod
    def config_of(cls, opts):
        """what a set of options MEANS, from the documentation of the two launch() functions alone: the link timeout in ms (0 / absent:
        the default 10 s), the flags"""
        opts = opts or {}
        lt = opts.get("link_timeout")
        lt = float(lt) if lt not in (None, "") else 0
        return {"timeout": int(round(lt * 1000)) if lt else TIMEOUT_MS,
                "no_flow": cls._truth(opts.get("no_flow")), "explicit_drop": cls._truth(opts.get("explicit_drop"), True),
                "eat": cls._truth(opts.get("eat_early_packets")), "no_flood": bool(opts.get("no_flood")), "hold_down": bool(opts.get("hold_down"))}

    def _rec(self, e):
        s = set()
        for l in self.D.adjacency:               # the same construction as spanning_tree.py:59-64 -> the same iteration order
            s.add(l.dpid1); s.add(l.dpid2)
        self._orders.append(list(s))
        self._events.append([bool(e.added), list(e.link)])

    def _world(self, opts):
        key = json.dumps(opts or {}, sort_keys=True)
        w = self.worlds.get(key)
        if w is None: w = self.worlds[key] = self._make_world(dict(opts or {}))
        return w

    def _make_world(self, opts):
        core, disc, st = self.core, self.disc, self.st
        cfg = self.config_of(opts)
        # a nexus nobody of C19 listens on, no discovery component, spanning_tree's module state as imported
        core.openflow._eventMixin_handlers = {k: list(v) for k, v in self._base_handlers.items()}
        core.components.pop("openflow_discovery", None)
        self._restore(st, self._st_defaults)
        self.core.openflow._connections = self.real_conns
        self.real_conns.clear()
        poxenv.clock.now = 1000.0
        del self.timers_made[:]
        def start_discovery():
            if opts.get("how") == "ctor":
                # the documented constructor, with Python values
                lt = opts.get("link_timeout")
                kw = {}
                if lt is not None: kw["link_timeout"] = lt
                if "no_flow" in opts: kw["install_flow"] = not cfg["no_flow"]
                if "explicit_drop" in opts: kw["explicit_drop"] = cfg["explicit_drop"]
                if "eat_early_packets" in opts: kw["eat_early_packets"] = cfg["eat"]
                core.registerNew(disc.Discovery, **kw)
            else:
                # launch(), with the texts the command line would hand over (a bare --flag arrives as True)
                kw = {}
                if opts.get("link_timeout") is not None: kw["link_timeout"] = str(opts["link_timeout"])
                for k in ("no_flow", "explicit_drop", "eat_early_packets"):
                    if k in opts: kw[k] = opts[k]
                disc.launch(**kw)
        def start_tree():
            st.launch(**{k: True for k in ("no_flood", "hold_down") if opts.get(k)})
        for f in ((start_tree, start_discovery) if opts.get("st_first") else (start_discovery, start_tree)): f()
        D = core.components["openflow_discovery"]
        w = {"opts": opts, "cfg": cfg, "D": D, "ctor_timers": [(a, kw) for (_, a, kw) in self.timers_made]}
        # the expiry sweep = the recurring timer Discovery set up for one of its own methods (looked up by behaviour, the name is a fallback);
        # only the `hist` kind calls it by hand (`sweep` ops); the `live` kind lets the timer do it
        cbs = [g for g in (timer_args(self.base_timer, a, kw) for a, kw in w["ctor_timers"])
               if g["recurring"] and getattr(g["cb"], "__self__", None) is D]
        w["expire_cb"] = cbs[0]["cb"] if cbs else getattr(D, "_expire_links", None)
        # ... and even by hand it is called the way its Timer would: a self-stoppable recurring timer whose callback returns False is over
        w["expire_selfstop"] = bool(cbs and cbs[0]["selfStoppable"])
        pr = [(D, self._snap(vars(D))), (st, self._snap(vars(st)))]
        snd = getattr(D, "_sender", None)
        if snd is not None: pr.append((snd, self._snap(vars(snd))))
        w["pristine"] = pr + self._class_pristine
        D.addListenerByName("LinkEvent", self._rec, priority=1 << 40)
        w["handlers"] = {k: list(v) for k, v in core.openflow._eventMixin_handlers.items()}
        return w

    def _activate(self, w):
        """the components of this configuration are the ones on the nexus and in the core"""
        self.world = w
        self.core.openflow._eventMixin_handlers = {k: list(v) for k, v in w["handlers"].items()}
        self.core.components["openflow_discovery"] = w["D"]
        self.D, self.cfg = w["D"], w["cfg"]
        self.ctor_timers, self.expire_cb, self.expire_selfstop = w["ctor_timers"], w["expire_cb"], w["expire_selfstop"]
        self._pristine = w["pristine"]

    def _probe_variant(self):
        """which of the modelled variants of the handlers the code under test behaves like (three behaviour probes through the real
        code; the oracle does not depend on the answer, the model comparison does)"""
        P = lambda a, b: {"k": "probe", "from": list(a), "to": list(b)}
        def run(topo, ops): return self._impl_hist({"kind": "hist", "topo": topo, "ops": ops})["steps"]
        v = {"popFirst": True, "skip": False, "visitAll": False}
        try:
            self._reset()
            two = {"switches": {"1": [1, 2, 3], "2": [1, 2, 3]}, "cables": [[[1, 1], [2, 1]], [[2, 2], [1, 2]]]}
            st = run(two, [{"k": "up", "dpid": 1}, {"k": "up", "dpid": 2}, P((1, 1), (2, 1))])
            v["visitAll"] = bool(st[-1]["mods"])                  # a port_mod for a switch outside the (empty) tree
            self._reset()
            line = {"switches": {"1": [1, 2], "2": [1, 2], "3": [1], "4": [1]}, "cables": [[[1, 1], [3, 1]], [[2, 1], [4, 1]], [[1, 2], [2, 2]]]}
            ops = [{"k": "up", "dpid": d} for d in (1, 2, 3, 4)] + [P((1, 1), (3, 1)), P((2, 1), (4, 1)), P((3, 1), (1, 1)), P((4, 1), (2, 1)),
                                                                     P((1, 2), (2, 2)), P((2, 2), (1, 2))]
            v["skip"] = not run(line, ops)[-1]["mods"]            # second direction of the joining link ignored
            self._reset()
            tri = {"switches": {"1": [1, 2], "2": [1, 2], "3": [1, 2]}, "cables": [[[1, 1], [2, 1]], [[2, 2], [3, 1]], [[1, 2], [3, 2]]]}
            c = [((1, 1), (2, 1)), ((2, 2), (3, 1)), ((1, 2), (3, 2))]
            ops = [{"k": "up", "dpid": d} for d in (1, 2, 3)] + [P(a, b) for a, b in c] + [P(b, a) for a, b in c] + [{"k": "down", "dpid": 1}]
            v["popFirst"] = [2, 2, True] in run(tri, ops)[-1]["mods"]   # 2-3 opens when switch 1 goes: the tree was computed without its links
        except Exception as e:
            self.variant_note = "probing failed (%s: %s); assuming the repaired variant" % (type(e).__name__, e)
        self._reset()
        return v

    # -- every case starts from the state the components had right after construction, WHATEVER that state consists of (caches,
    #    memo tables, sets of link ports ...): hidden state can show inside a case (a history), never leak from one case into the next
    _PLAIN = (dict, list, set, int, float, bool, str, bytes, tuple, type(None))
    def _snap(self, d):
        import collections
        out = {}
        for k, v in d.items():
            if k.startswith("__") or k.startswith("_eventMixin") or k in ("log", "core", "of", "Timer"): continue
            if isinstance(v, self._PLAIN) or isinstance(v, collections.defaultdict):
                try: out[k] = copy.deepcopy(v)
                except Exception: pass
        return out

    def _restore(self, obj, snap):
        import collections
        d = vars(obj)
        for k, v in snap.items():
            cur = d.get(k)
            if isinstance(cur, dict) and isinstance(v, dict):
                cur.clear(); cur.update(copy.deepcopy(v))
            elif isinstance(cur, list) and isinstance(v, list):
                cur[:] = copy.deepcopy(v)
            elif isinstance(cur, set) and isinstance(v, set):
                cur.clear(); cur.update(v)
            else:
                try: setattr(obj, k, copy.deepcopy(v))
                except Exception: pass
        if not isinstance(obj, type(os)):                                  # lazily created instance attributes: back to "not there"
            for k in [k for k, v in d.items() if k not in snap and not k.startswith("_eventMixin") and
                      (isinstance(v, self._PLAIN) or isinstance(v, collections.defaultdict))]:
                try: delattr(obj, k)
                except Exception: pass

    def _reset(self):
        for obj, snap in self._pristine: self._restore(obj, snap)
        self.D.adjacency.clear()
        self.core.openflow._connections = self.real_conns
        self.real_conns.clear()
        poxenv.clock.now = 1000.0
        del self._events[:]; del self._orders[:]
        # the scheduler: nothing left over from the last case
        try: self.sched._ready.clear()
        except AttributeError: pass
        if getattr(self.sched, "_callLaterTask", None) is not None: self.sched._callLaterTask = None
        self.hub.clear()
        del self.timers_made[:]

    # ------------------------------------------------------------------ generators
    @staticmethod
    def _graph_case(n, pattern, rng, dpids=None):
        """pattern: per unordered pair a list of cables, each (fwd, rev) booleans"""
        dpids = dpids or list(range(1, n + 1))
        nextport = {d: 1 for d in dpids}
        links = []
        for (i, j), cables in zip(itertools.combinations(range(n), 2), pattern):
            a, b = dpids[i], dpids[j]
            for fwd, rev in cables:
                pa = nextport[a]; nextport[a] += 1
                pb = nextport[b]; nextport[b] += 1
                if fwd: links.append([a, pa, b, pb])
                if rev: links.append([b, pb, a, pa])
        rng.shuffle(links)
        return {"kind": "calc", "links": links}

    CABLE_OPTS = CABLE_OPTS

    def corpus(self):
        import random
        rng = random.Random(19)
        cases = []
        # exhaustive: <=3 switches, every pair pattern out of CABLE_OPTS (13 + 13^3 = 2210), one shuffled dict order each
        for n in (2, 3):
            pairs = n * (n - 1) // 2
            for pat in itertools.product(self.CABLE_OPTS, repeat=pairs):
                cases.append(self._graph_case(n, pat, rng))
        # 4 switches: every pattern over 5 options per pair (none, bidirectional, one-way either direction, two parallel bidirectional): 5^6 = 15625
        five = [[], [(1, 1)], [(1, 0)], [(0, 1)], [(1, 1), (1, 1)]]
        for pat in itertools.product(five, repeat=6):
            cases.append(self._graph_case(4, pat, rng))
        # self-link: AssertionError on both sides (outside the property; correspondence only)
        cases.append({"kind": "calc", "links": [[1, 1, 1, 2], [1, 2, 1, 1], [1, 3, 2, 1], [2, 1, 1, 3]]})
        # dpids whose set iteration order is not ascending, with two bidirectional parallel cables (port choice depends on the order)
        cases.append({"kind": "calc", "links": [[9, 1, 1, 1], [1, 1, 9, 1], [1, 2, 9, 2], [9, 2, 1, 2], [17, 1, 9, 3], [9, 3, 17, 1]]})
        cases.append({"kind": "calc", "links": [[1, 2, 9, 2], [9, 2, 1, 2], [9, 1, 1, 1], [1, 1, 9, 1]]})
        # codec boundaries
        for dpid in (0, 1, 9, 10, 15, 16, 255, 256, 257, 0xabcdef, 2 ** 31 - 1, 2 ** 31, 2 ** 32 - 1, 2 ** 32, 2 ** 48 - 1, 2 ** 63, 2 ** 64 - 1):
            for port in (0, 1, 9, 10, 99, 100, 255, 256, 32767, 32768, 0xfeff, 0xff00, 0xfffe, 0xffff):
                cases.append({"kind": "codec", "dpid": dpid, "port": port})
        # the same sender asked again: same (dpid, port) with another hw address, same port on the next dpid, same dpid next port, 0 after non-0
        for dpid, port in ((0x2a, 7), (0, 0), (2 ** 64 - 1, 0xffff), (256, 10)):
            cases.append({"kind": "codec", "dpid": dpid, "port": port,
                          "more": [[dpid, port], [(dpid + 1) % 2 ** 64, port], [dpid, (port + 1) % 2 ** 16], [0, 0], [dpid, port]]})
        cases += self._calcseq_corpus(rng)
        # sender -> receiver for every port number whose two big-endian bytes come from the classes a text parser could mistake for
        # something (NUL, blanks, sign, digits, hex letters, '_', 'x', 0xff) + every port 0..512 and the last 512 (thorough: all 65536)
        cls = [0x00, 0x09, 0x0a, 0x0d, 0x20, 0x2b, 0x2d, 0x2f, 0x3a, 0x40, 0x41, 0x46, 0x47, 0x5f, 0x60, 0x61, 0x66, 0x67, 0x78, 0x7f, 0x80, 0xff] + list(range(0x30, 0x3a))
        ports = sorted({(hi << 8) | lo for hi in cls for lo in cls} | set(range(0, 513)) | set(range(0xfe00, 0x10000)))
        for i in range(0, len(ports), 256):
            cases.append({"kind": "portsweep", "dpid": [1, 0x2a, 2 ** 63 + 1][(i // 256) % 3], "ports": ports[i:i + 256]})
        cases += self._hist_corpus()
        cases += self._live_corpus()
        cases += self._frame_corpus()
        return cases

    def _live_corpus(self):
        """timer-driven runs: quiet expiry ticks first (nothing to expire), then links go silent without any switch disconnecting"""
        T = lambda *cables: [list(map(list, c)) for c in cables]
        R = lambda dt: {"k": "run", "dt": dt}
        U = lambda *ds: [{"k": "up", "dpid": d} for d in ds]
        CUT = lambda i, dr=2: {"k": "cut", "i": i, "dir": dr}
        MEND = lambda i, dr=2: {"k": "mend", "i": i, "dir": dr}
        two = {"switches": {"1": [1, 2], "2": [1, 2]}, "cables": T(((1, 1), (2, 1)))}
        tri = {"switches": {"1": [1, 2, 3], "2": [1, 2, 3], "3": [1, 2, 3, 65534]},
               "cables": T(((1, 1), (2, 1)), ((2, 2), (3, 1)), ((1, 2), (3, 2)))}
        par = {"switches": {"1": [1, 2, 3], "2": [1, 2, 3]}, "cables": T(((1, 1), (2, 1)), ((1, 2), (2, 2)))}
        big = {"switches": {"0": [1, 255, 256], "257": [0xfeff, 12849, 7], "300": [1, 2]},
               "cables": T(((0, 255), (257, 0xfeff)), ((257, 12849), (300, 1)), ((0, 256), (300, 2)))}
        out = []
        def add(topo, ops): out.append({"kind": "live", "topo": topo, "ops": ops})
        # a quiet quarter of a minute (three expiry ticks find nothing), then the cable dies silently: both links must go, the ports flood again
        add(two, U(1, 2) + [R(17000), CUT(0), R(26000)])
        # ... after one quiet tick only; after none (cut before the first tick); one direction only
        add(two, U(1, 2) + [R(6000), CUT(0), R(16000), R(5000)])
        add(two, U(1, 2) + [R(3000), CUT(0), R(21000)])
        add(two, U(1, 2) + [R(12000), CUT(0, 0), R(18000), R(8000)])
        # two silent failures one after the other: the tick that withdrew the first is followed by quiet ticks, then the second must go too
        add(par, U(1, 2) + [R(8000), CUT(0), R(21000), R(9000), CUT(1), R(16000), MEND(0), R(16000), R(7000)])
        # a silent (wedged) switch that stays connected: the triangle loses switch 2's links, 1-3 carries the flood; it comes back
        add(tri, U(1, 2, 3) + [R(11000), {"k": "mute", "dpid": 2}, R(16000), R(6000), {"k": "unmute", "dpid": 2}, R(16000)])
        # D20 through the timers: the tree link 1-2 goes silent, 2-3 (blocked so far) must open when the sweep withdraws it
        add(tri, U(1, 2, 3) + [R(12000), CUT(0), R(16000), MEND(0), R(17000)])
        # nothing happens for a long time: every link is found within the first cycle and stays (the send cycle and the expiry ticks go on)
        add(tri, U(1, 2, 3) + [R(7000), R(9000), R(15000), R(15000), R(30000), R(15125)])
        add(big, U(0, 257, 300) + [R(16000), R(16000), CUT(1), R(20000), R(16000)])
        # switches arrive one by one between ticks; one reboots, one leaves; what is left is still looked after
        add(tri, U(1) + [R(2500)] + U(2) + [R(4000)] + U(3) + [R(16000), {"k": "down", "dpid": 3}, R(1000)] + U(3) +
            [R(16000), {"k": "down", "dpid": 1}, R(16000), CUT(1), R(16000)])
        # carrier flap (port status) while quiet: the extra probe it triggers restarts the send cycle; later a silent failure
        add(tri, U(1, 2, 3) + [R(9000), {"k": "pstate", "dpid": 2, "port": 2, "down": True}, R(2000), {"k": "pstate", "dpid": 2, "port": 2, "down": False},
                               R(16000), CUT(2, 1), R(16000), R(5000)])
        # expiry boundary through the timer: the last probe over 1.1->2.1 arrives at 5 s sharp?  cut right after a tick, and right before one
        add(two, U(1, 2) + [R(5000), CUT(0), R(10000), R(5000), R(125)])
        add(two, U(1, 2) + [R(4875), CUT(0), R(10125), R(4875), R(125)])
        out += self._live_opts_corpus(two, tri, par)
        return out

    BOOL_TEXTS = (True, "True", "true", "yes", "1", "on")
    FALSE_TEXTS = ("False", "false", "no", "0", "off")

    def _live_opts_corpus(self, two, tri, par):
        """configuration is an input: every documented option of discovery (link_timeout, no_flow, explicit_drop, eat_early_packets) and of
        spanning_tree (no_flood, hold_down), the components started through launch() with the texts a command line would carry (or the
        documented constructor).  The link timeout is swept over small and large values; every run is several timeouts long, then a cable
        goes silent and comes back"""
        R = lambda dt: {"k": "run", "dt": dt}
        U = lambda *ds: [{"k": "up", "dpid": d} for d in ds]
        CUT = lambda i, dr=2: {"k": "cut", "i": i, "dir": dr}
        MEND = lambda i, dr=2: {"k": "mend", "i": i, "dir": dr}
        DATA = lambda d, p, w=0: {"k": "data", "dpid": d, "port": p, "what": w}
        out = []
        def add(topo, ops, **opts): out.append({"kind": "live", "topo": topo, "ops": ops, "opts": opts})
        def long_run(T, pieces=4):
            """several timeouts of nothing, looked at `pieces` times: 3 timeouts + 2 check periods, on the 1/8 s grid"""
            total = 3 * T + 2 * PERIOD_MS
            step = max(125, (total // pieces) // 125 * 125)
            return [R(step)] * pieces + [R(125)]
        for n in (1, 2, 3, 5, 10, 30):
            T = n * 1000
            silent = [CUT(0), R(T + PERIOD_MS + 1000), MEND(0), R(T + PERIOD_MS + 125)]
            add(two, U(1, 2) + long_run(T) + silent, link_timeout=n)
            add(tri, U(1, 2, 3) + long_run(T, 3) + silent + long_run(T, 2), link_timeout=n, how="ctor")
        # 0 / "" mean "the default"; a fractional timeout through the constructor
        add(two, U(1, 2) + long_run(10000) + [CUT(0), R(16000)], link_timeout=0)
        add(two, U(1, 2) + long_run(2500) + [CUT(0), R(8000)], link_timeout=2.5, how="ctor")
        # the other options of discovery, one at a time, all together, in both launch orders, with ordinary traffic between the probes
        traffic = [DATA(1, 2), R(1000), DATA(2, 2, 1), DATA(1, 1, 2), R(2000), DATA(2, 1, 3), DATA(1, 2, 1)]
        for o in ({"no_flow": True}, {"no_flow": "yes"}, {"explicit_drop": "False"}, {"explicit_drop": "0"}, {"explicit_drop": "true"},
                  {"eat_early_packets": True}, {"eat_early_packets": "on"}, {"no_flow": "False", "eat_early_packets": "no"},
                  {"no_flow": True, "explicit_drop": "no", "eat_early_packets": "1", "link_timeout": 3},
                  {"no_flow": True, "explicit_drop": False, "eat_early_packets": True, "link_timeout": 2, "how": "ctor"},
                  {"st_first": True}, {"st_first": True, "link_timeout": 2}):
            T = self.config_of(o)["timeout"]
            add(tri, U(1, 2, 3) + traffic + long_run(T, 3) + traffic + [CUT(0), R(T + PERIOD_MS + 1000), MEND(0), R(T + PERIOD_MS + 125)], **o)
        # spanning_tree's options: no_flood (every port of a new switch starts blocked), hold_down (young switches are left alone for
        # send cycle + 1 s, then updated by a timer of their own), both; with the default and with a short link timeout; a reboot and a
        # late-comer while the others are old; host-facing ports on every switch
        for o in ({"no_flood": True}, {"hold_down": True}, {"no_flood": True, "hold_down": True},
                  {"no_flood": True, "link_timeout": 2}, {"hold_down": True, "link_timeout": 2}, {"no_flood": True, "hold_down": True, "link_timeout": 3},
                  {"no_flood": True, "hold_down": True, "st_first": True, "link_timeout": 30}):
            T = self.config_of(o)["timeout"]
            q = T + PERIOD_MS + 1000
            add(tri, U(1, 2) + [R(T // 2 + 1125)] + U(3) + [R(q), CUT(0), R(q), {"k": "down", "dpid": 3}, R(1000)] + U(3) + [R(T // 2 + 1000), R(125), R(q)], **o)
            add(par, U(1) + [R(q)] + U(2) + [R(250), R(T // 2 + 875), R(q), CUT(0, 1), R(q), MEND(0), R(q)], **o)
        return out

    def _live_history(self, rng, nops=None):
        topo = self._topology(rng, rng.choice([2, 2, 3, 3, 4, 5]))
        dpids = [int(d) for d in topo["switches"]]
        ncab = len(topo["cables"])
        R = lambda: {"k": "run", "dt": 125 * rng.choice([1, 8, 20, 39, 40, 41, 56, 80, 96, 120, 128, 136, 168, 208])}
        ops, up = [], set()
        for d in rng.sample(dpids, len(dpids)):
            ops.append({"k": "up", "dpid": d}); up.add(d)
            if rng.random() < 0.3: ops.append(R())
        if rng.random() < 0.8: ops.append({"k": "run", "dt": 125 * rng.choice([41, 48, 88, 136])})       # quiet ticks first
        for _ in range(nops or rng.choice([3, 5, 8, 12])):
            r = rng.random()
            if r < 0.40: ops.append(R())
            elif r < 0.58 and ncab: ops.append({"k": "cut", "i": rng.randrange(ncab), "dir": rng.choice([0, 1, 2, 2])})
            elif r < 0.66 and ncab: ops.append({"k": "mend", "i": rng.randrange(ncab), "dir": 2})
            elif r < 0.74 and up: ops.append({"k": rng.choice(["mute", "mute", "unmute"]), "dpid": rng.choice(sorted(up))})
            elif r < 0.80 and up:
                d = rng.choice(sorted(up)); up.discard(d); ops.append({"k": "down", "dpid": d})
            elif r < 0.86 and up:
                d = rng.choice(sorted(up))
                ops += [{"k": "down", "dpid": d}, {"k": "run", "dt": 125 * rng.choice([1, 8, 16])}, {"k": "up", "dpid": d}]
            elif r < 0.92:
                cand = [d for d in dpids if d not in up]
                if cand:
                    d = rng.choice(cand); up.add(d); ops.append({"k": "up", "dpid": d})
            elif ncab:
                end = rng.choice(topo["cables"][rng.randrange(ncab)])
                ops += [{"k": "pstate", "dpid": end[0], "port": end[1], "down": True}, R(), {"k": "pstate", "dpid": end[0], "port": end[1], "down": False}]
        opts = self._rand_opts(rng) if rng.random() < 0.55 else {}
        T = self.config_of(opts)["timeout"]
        if opts:
            # other traffic between the probes; the quiet stretches follow the configured timeout
            for _ in range(rng.choice([0, 1, 3])):
                d = rng.choice(dpids)
                ops.insert(rng.randrange(len(ops) + 1), {"k": "data", "dpid": d, "port": rng.choice(topo["switches"][str(d)] or [1]), "what": rng.randrange(4)})
            if T != TIMEOUT_MS:
                for op in ops:
                    if op["k"] == "run" and rng.random() < 0.7: op["dt"] = max(125, int(op["dt"] * T / TIMEOUT_MS) // 125 * 125)
        ops += [{"k": "run", "dt": T + PERIOD_MS + 125 * rng.choice([8, 16, 48])}, {"k": "run", "dt": 125 * rng.choice([24, 56, 120])},
                {"k": "run", "dt": T + 125 * rng.choice([1, 8, 40])}]
        c = {"kind": "live", "topo": topo, "ops": ops}
        if opts: c["opts"] = opts
        return c

    def _rand_opts(self, rng):
        o = {}
        if rng.random() < 0.7: o["link_timeout"] = rng.choice([1, 2, 2, 3, 3, 4, 5, 7, 10, 15, 30])
        if rng.random() < 0.25: o["no_flow"] = rng.choice(self.BOOL_TEXTS + self.FALSE_TEXTS)
        if rng.random() < 0.25: o["explicit_drop"] = rng.choice(self.BOOL_TEXTS[1:] + self.FALSE_TEXTS)
        if rng.random() < 0.25: o["eat_early_packets"] = rng.choice(self.BOOL_TEXTS + self.FALSE_TEXTS)
        if rng.random() < 0.2: o["no_flood"] = True
        if rng.random() < 0.2: o["hold_down"] = True
        if rng.random() < 0.2: o["st_first"] = True
        if rng.random() < 0.2:
            o["how"] = "ctor"
            for k in ("no_flow", "explicit_drop", "eat_early_packets"):
                if k in o: o[k] = self._truth(o[k])
        return o

    def _calcseq_corpus(self, rng, n=40):
        """one process, several adjacencies in a row: the same links in another dict order, one of two parallel cables gone, the ports
        of a cable changed while the switch-level graph stays, the same adjacency again"""
        out = []
        for _ in range(n):
            k = rng.choice([2, 3, 3, 4])
            dpids = rng.sample([1, 2, 3, 4, 5, 9, 17, 300, 70000], k)
            base = self._graph_case(k, [rng.choice(CABLE_OPTS[1:]) for _ in range(k * (k - 1) // 2)], rng, dpids)["links"]
            seq = [base]
            for _ in range(rng.choice([2, 3, 4])):
                cur = [list(l) for l in seq[-1]]
                r = rng.random()
                if r < 0.25: rng.shuffle(cur)
                elif r < 0.5 and len(cur) > 1: del cur[rng.randrange(len(cur))]
                elif r < 0.75 and cur:                                     # re-plug one cable into other ports: same switches, new ports
                    a, pa, b, pb = cur[rng.randrange(len(cur))]
                    na, nb = pa + 10, pb + 10
                    cur = [[a, na, b, nb] if l == [a, pa, b, pb] else [b, nb, a, na] if l == [b, pb, a, pa] else l for l in cur]
                else: cur = [list(l) for l in seq[0]]
                seq.append(cur)
            out.append({"kind": "calcseq", "seq": seq})
        return out

    def _hist_corpus(self):
        T = lambda *cables: [list(map(list, c)) for c in cables]
        tri = {"switches": {"1": [1, 2, 3], "2": [1, 2, 3], "3": [1, 2, 3, 65534]},
               "cables": T(((1, 1), (2, 1)), ((2, 2), (3, 1)), ((1, 2), (3, 2)), ((1, 3), (2, 3)))}
        def P(a, b): return {"k": "probe", "from": list(a), "to": list(b)}
        def rnd(cables): return [P(a, b) for a, b in cables] + [P(b, a) for a, b in cables]
        ups = [{"k": "up", "dpid": d} for d in (1, 2, 3)]
        c = [((1, 1), (2, 1)), ((2, 2), (3, 1)), ((1, 2), (3, 2))]
        out = []
        # D20 replay: triangle, the tree link 1-2 stops carrying probes and times out: 2-3 / 1-3 must carry the flood afterwards
        out.append({"kind": "hist", "topo": tri, "ops": ups + rnd(c) + [{"k": "tick", "dt": 6000}] + rnd(c[1:]) +
                    [{"k": "tick", "dt": 6000}, {"k": "sweep"}]})
        # switch 1 goes down: 2-3 (blocked so far) must open
        out.append({"kind": "hist", "topo": tri, "ops": ups + rnd(c) + [{"k": "down", "dpid": 1}]})
        # C19-1: line 3-1-2-4, the middle link is discovered last; its second direction arrives when both ends are already blocked
        line = {"switches": {"1": [1, 2], "2": [1, 2], "3": [1], "4": [1]},
                "cables": T(((1, 1), (3, 1)), ((2, 1), (4, 1)), ((1, 2), (2, 2)))}
        out.append({"kind": "hist", "topo": line, "ops": [{"k": "up", "dpid": d} for d in (1, 2, 3, 4)] +
                    rnd([((1, 1), (3, 1)), ((2, 1), (4, 1))]) + [P((1, 2), (2, 2)), P((2, 2), (1, 2))]})
        # seeded change C19-D: line 1-2-3 plus a cable that only works 3.2 -> 1.2, discovered last: 3.2 and 1.2 must stop flooding
        lone = {"switches": {"1": [1, 2, 3], "2": [1, 2], "3": [1, 2, 3]},
                "cables": T(((1, 1), (2, 1)), ((2, 2), (3, 1)), ((3, 2), (1, 2)))}
        out.append({"kind": "hist", "topo": lone, "ops": ups + rnd([((1, 1), (2, 1)), ((2, 2), (3, 1))]) + [P((3, 2), (1, 2))]})
        # ... and discovered first
        out.append({"kind": "hist", "topo": lone, "ops": ups + [P((3, 2), (1, 2))] + rnd([((1, 1), (2, 1)), ((2, 2), (3, 1))])})
        # seeded change C19-F: a switch with a tree-blocked port goes down, comes back with a fresh port config (everything floods) and
        # its links are rediscovered: the port must be blocked again.  dpids <= 256 and > 256 (MAC-style, 64-bit)
        for a, b, c2 in ([1, 2, 3], [254, 255, 256], [257, 1001, 1002], [0x00163e000001, 0x00163e000002, 0x00163e000003],
                         [2 ** 63 + 1, 2 ** 63 + 2, 2 ** 64 - 1]):
            t3 = {"switches": {str(a): [1, 2, 3], str(b): [1, 2, 3], str(c2): [1, 2, 3]},
                  "cables": T(((a, 1), (b, 1)), ((b, 2), (c2, 1)), ((a, 2), (c2, 2)))}
            cab = [((a, 1), (b, 1)), ((b, 2), (c2, 1)), ((a, 2), (c2, 2))]
            up3 = [{"k": "up", "dpid": d} for d in (a, b, c2)]
            # rediscovery orders: plain rounds, and "the redundant link's first direction, then the tree link, then its second direction"
            # (the order in which the rebooted switch's blocked port is wanted NO_FLOOD at every update it takes part in)
            for victim, again in ((c2, rnd(cab[1:])), (b, rnd(cab[:2])),
                                  (c2, [P((b, 2), (c2, 1)), P((a, 2), (c2, 2)), P((c2, 2), (a, 2)), P((c2, 1), (b, 2))]),
                                  (b, [P((c2, 1), (b, 2)), P((a, 1), (b, 1)), P((b, 1), (a, 1)), P((b, 2), (c2, 1))])):
                out.append({"kind": "hist", "topo": t3, "ops": up3 + rnd(cab) + [{"k": "down", "dpid": victim}, {"k": "tick", "dt": 1000},
                            {"k": "up", "dpid": victim}] + again})
        # port numbers from the whole legal range: a third switch with uplinks on 12849 (0x3231, "21") and 12597 (0x3135, "15"), ports 255 / 256,
        # the last real port 0xfeff; everything discovered, a reboot, rediscovery
        big = {"switches": {"1": [1, 2, 255], "2": [256, 2, 0xfeff], "3": [12849, 12597, 0x3030]},
               "cables": T(((1, 1), (2, 256)), ((3, 12849), (1, 2)), ((3, 12597), (2, 2)))}
        cb = [((1, 1), (2, 256)), ((3, 12849), (1, 2)), ((3, 12597), (2, 2))]
        out.append({"kind": "hist", "topo": big, "ops": ups + rnd(cb) + [{"k": "down", "dpid": 3}, {"k": "up", "dpid": 3}] + rnd(cb) +
                    [{"k": "tick", "dt": 10125}, {"k": "sweep"}]})
        # carrier flaps (port status) shorter than the link timeout while the tree changes: cable 1-3 is cut for good; cable 2-3 loses
        # carrier; the sweep that withdraws 1-3 makes 2-3 a tree link while its ports report LINK_DOWN; carrier back, probes resume
        def CAR(end, down): return {"k": "pstate", "dpid": end[0], "port": end[1], "down": down}
        for flap in (c[1], c[0]):
            keep = [x for x in c if x != c[2]]
            out.append({"kind": "hist", "topo": tri, "ops": ups + rnd(c) + [{"k": "tick", "dt": 5000}] + rnd(keep) + [{"k": "tick", "dt": 4000}] + rnd(keep) +
                        [CAR(flap[0], True), CAR(flap[1], True), {"k": "tick", "dt": 2000}, {"k": "sweep"}, CAR(flap[0], False), CAR(flap[1], False)] +
                        rnd(keep) + [{"k": "tick", "dt": 3000}, {"k": "sweep"}]})
        # the mirror: all three cables known (2-3 blocked); 2-3 loses carrier; switch 1 leaves (2-3 must open while it reports LINK_DOWN); back
        out.append({"kind": "hist", "topo": tri, "ops": ups + rnd(c) + [CAR((2, 2), True), CAR((3, 1), True), {"k": "down", "dpid": 1},
                    CAR((2, 2), False), CAR((3, 1), False)] + rnd([c[1]]) + [{"k": "up", "dpid": 1}] + rnd(c)})
        # loss at every prefix: the triangle's discovery (6 probes) interrupted after every step by the disconnect (and return) of every switch
        for k in range(7):
            for d in (1, 2, 3):
                out.append({"kind": "hist", "topo": tri, "ops": ups + rnd(c)[:k] + [{"k": "down", "dpid": d}, {"k": "up", "dpid": d}] + rnd(c) +
                            [{"k": "tick", "dt": 5000}, {"k": "sweep"}]})
        # rare values: dpid 0 (falsy) in a triangle with its reboot; the highest real port number 0xfeff next to OFPP_MAX and LOCAL
        t0 = {"switches": {"0": [1, 2, 3], "1": [1, 2, 0xfeff, 0xff00, 65534], "2": [1, 2, 3]},
              "cables": T(((0, 1), (1, 1)), ((1, 2), (2, 1)), ((0, 2), (2, 2)))}
        c0 = [((0, 1), (1, 1)), ((1, 2), (2, 1)), ((0, 2), (2, 2))]
        out.append({"kind": "hist", "topo": t0, "ops": [{"k": "up", "dpid": d} for d in (0, 1, 2)] + rnd(c0) +
                    [{"k": "down", "dpid": 0}, {"k": "up", "dpid": 0}] + rnd(c0) + [{"k": "down", "dpid": 2}]})
        # several things in ONE sweep: a tree link and a blocked link expire, a one-way link expires, another link is exactly 10 s old (stays)
        out.append({"kind": "hist", "topo": tri, "ops": ups + rnd(c) + [P((1, 3), (2, 3))] + [{"k": "tick", "dt": 125}] + rnd([c[2]]) +
                    [{"k": "tick", "dt": 10000}, {"k": "sweep"}, {"k": "tick", "dt": 125}, {"k": "sweep"}]})
        # C19-2: triangle, then both links of switch 2 die in one sweep: 2 leaves the tree with its port towards 3 still blocked
        out.append({"kind": "hist", "topo": tri, "ops": ups + rnd(c) + [{"k": "tick", "dt": 6000}] + rnd([c[2]]) +
                    [{"k": "tick", "dt": 6000}, {"k": "sweep"}]})
        # expiry boundary: exactly 10 s old is kept, 10.125 s is dropped
        two = {"switches": {"1": [1, 5], "2": [1]}, "cables": T(((1, 1), (2, 1)))}
        out.append({"kind": "hist", "topo": two, "ops": [{"k": "up", "dpid": 1}, {"k": "up", "dpid": 2}] + rnd([((1, 1), (2, 1))]) +
                    [{"k": "tick", "dt": 10000}, {"k": "sweep"}, {"k": "tick", "dt": 125}, {"k": "sweep"}]})
        # probe from a switch that is gone; reconnect; self-port probe
        out.append({"kind": "hist", "topo": two, "ops": [{"k": "up", "dpid": 1}, {"k": "up", "dpid": 2}, {"k": "down", "dpid": 1},
                    P((1, 1), (2, 1)), {"k": "up", "dpid": 1}, P((1, 1), (2, 1)), P((2, 1), (1, 1)), P((1, 1), (1, 1)), {"k": "down", "dpid": 2}]})
        return out

    def _frame_corpus(self):
        ch, po, tt, sd, end = (1, b"\x07dpid:2a"), (2, b"\x0217"), (3, b"\x00\x78"), (6, b"dpid:2a"), (0, b"")
        fixed = [
            self._mk_frame([ch, po, tt, sd, end]),                         # the well-formed one
            self._mk_frame([(1, b"\x07dp")], tail=b"\x04"),                 # LLDP payload shorter than MIN_LEN
            self._mk_frame([], tail=b"\x02\xc8" + b"a" * 14),               # chassis TLV declares 200 bytes, 14 follow
            self._mk_frame([(1, b"\x07dpid:2a2a2a2a")], tail=b"\x04"),       # port TLV: one stray byte
            self._mk_frame([ch, po], tail=b"\x06"),                         # ttl TLV: one stray byte
            self._mk_frame([ch, po, sd, end]),                              # third TLV is not a TTL
            self._mk_frame([ch, sd, tt, end]),                              # second TLV is not a PORT_ID
            self._mk_frame([ch, po, tt, sd], tail=b"\x00"),                 # the loop runs out of bytes
            self._mk_frame([ch, po, tt], tail=b"\x0c\x64abc"),              # declared length beyond the data
            self._mk_frame([ch, po, tt], tail=b"\x0c\x03ab"),               # declared length 3, two data bytes (bound check incl. header)
            self._mk_frame([ch, po, tt, (6, b"12345678"), end]),            # 8-byte system description: FlowVisor style
            self._mk_frame([(1, b"\x07dpid:2a"), (2, b"\x02\x00\x11"), tt, end]),   # 16-bit binary port id
            self._mk_frame([(1, b"\x04\x00\x00\x00\x00\x00\x2a"), po, tt, end]),  # MAC chassis id
        ]
        # structure-aware sweeps of every selector byte (lengths kept consistent by _mk_frame): chassis subtype, port subtype, type of the
        # 4th TLV (8 = management address is outside the model), declared length of the system description against 9 bytes of data
        sweep = []
        for v in range(256):
            sweep.append(self._mk_frame([(1, bytes([v]) + b"dpid:2a"), po, tt, end]))
            sweep.append(self._mk_frame([ch, (2, bytes([v]) + b"17"), tt, sd, end]))
        for t in range(128):
            if t == 8: continue
            sweep.append(self._mk_frame([ch, po, tt, (t, b"dpid:2b"), end]))
            sweep.append(self._mk_frame([ch, po, tt, (t, b"\x00\x04\x00\x04"), sd, end]))
        for n in range(0, 41):
            hdr = bytes([(6 << 1) | (n >> 8 & 1), n & 255])
            sweep.append(self._mk_frame([ch, po, tt], tail=hdr + b"dpid:2c\n!" + b"\x00\x00"))
        for n in (255, 256, 510, 511):                                     # data lengths around the 9-bit length field
            sweep.append(self._mk_frame([ch, po, tt, (6, b"x" * (n - 8) + b"\ndpid:2d"), end]))
        return [{"kind": "frame", "frame": f} for f in fixed + sweep + self._frame_variants(None, 60)]

    def _mk_frame(self, tlvs, dst=None, typ=b"\x88\xcc", tail=b""):
        body = b""
        for t, data in tlvs:
            body += bytes([(t << 1) | (len(data) >> 8 & 1), len(data) & 255]) + data
        return ((dst or b"\x01\x23\x20\x00\x00\x01") + b"\x02\x00\x00\x00\x00\x01" + typ + body + tail).hex()

    def _frame_variants(self, rng, n):
        """foreign / damaged probes: other number formats, missing or reordered TLVs, fallbacks"""
        import random
        rng = rng or random.Random(1919)
        out = []
        lits = [b"1f", b"0x1f", b"0X1F", b" 1f ", b"+1f", b"-1f", b"1_f", b"_1f", b"1f_", b"1__f", b"0x_1f", b"", b"0x", b"g1", b"1f\t", b"\t1f", b"1 f", b"FFFFFFFFFFFFFFFF",
                b"10000000000000000", b"0", b"00a", b"zz", b"1f\r", b"x1f", b"0x0x1"]
        ports = [b"7", b"007", b"65535", b"70000", b"", b"\x00\x07", b"7a", b"\x12\x34", b" 7", b"1_0", b"123"]
        for _ in range(n):
            lit, pid = rng.choice(lits), rng.choice(ports)
            ch_sub, p_sub = rng.choice([7, 7, 7, 4, 1]), rng.choice([2, 2, 2, 7, 3])
            chassis = bytes([ch_sub]) + rng.choice([b"dpid:" + lit, b"dpid:" + lit, b"DPID:" + lit, b"\x00\x11\x22\x33\x44\x55", lit])
            tl = [(1, chassis), (2, bytes([p_sub]) + pid), (3, b"\x00\x78")]
            r = rng.random()
            if r < 0.35:
                tl.append((6, rng.choice([b"dpid:" + rng.choice(lits), b"foo\ndpid:" + rng.choice(lits) + b"\nbar", b"dpid:zz\ndpid:" + rng.choice(lits),
                                          b"12345678", b"hello", b"dpid:", b"\ndpid:2a\n"])))
            elif r < 0.45:
                tl.append((5, b"name")); tl.append((6, b"dpid:" + rng.choice(lits)))
            elif r < 0.5:
                tl.append((4, b"port")); tl.append((6, b"x")); tl.append((6, b"dpid:77"))
            elif r < 0.55:
                tl.append((42, b"\x01\x02"))
            elif r < 0.62:
                tl.append((7, rng.choice([b"\x00\x04\x00\x04", b"\x00\x04", b""])))
                tl.append((127, rng.choice([b"\x00\x12\x0f\x01\x03", b"\x00\x12", b"\x00\x12\x0f\x01"])))
                tl.append((6, b"dpid:" + rng.choice(lits)))
            tl.append((0, b""))
            r = rng.random()
            if r < 0.06: tl = tl[:-1]                                   # no END
            elif r < 0.10: tl[0], tl[1] = tl[1], tl[0]                    # wrong order
            elif r < 0.13: tl[2] = (3, b"\x00")                           # bad ttl length
            elif r < 0.16: tl = tl[:2] + [(0, b"")]
            elif r < 0.19: tl[-1] = (0, b"\x00")
            f = self._mk_frame(tl)
            r = rng.random()
            if r < 0.05: f = f[:rng.randrange(28, len(f)) & ~1]          # truncated
            elif r < 0.08: f = self._mk_frame(tl, dst=b"\x01\x80\xc2\x00\x00\x0e")
            elif r < 0.10: f = self._mk_frame(tl, typ=b"\x88\xb5")            # an ethertype without a parser
            out.append(f)
        return out

    def _topology(self, rng, n=None):
        n = n or rng.choice([2, 3, 3, 4, 4, 5, 6])
        pool = [1, 2, 3, 4, 5, 6, 7, 9, 10, 16, 17, 255, 256, 257, 1001, 4096, 2 ** 32 + 5, 0x00163e00000a, 0x00163e00000b, 2 ** 63 + 7, 2 ** 64 - 1]
        dpids = sorted(rng.sample(pool[:8] if rng.random() < 0.5 else pool, n))
        nextport = {d: 1 for d in dpids}
        # port numbers: 1, 2, 3 ... or, per switch, drawn from the whole legal range -- numbers whose two big-endian bytes are ASCII
        # digits / letters / blanks, the 8- and 15/16-bit boundaries, the last real port before OFPP_MAX
        special = [255, 256, 257, 1000, 4095, 32767, 32768, 0xfeff, 0x3030, 0x3039, 0x3130, 0x3135, 0x3231, 0x3930, 0x3939, 0x3a30, 0x2f39,
                   0x6161, 0x4141, 0x6630, 0x2020, 0x0a31, 0x310a, 0x2b31, 0x2d31, 0x5f31, 0x7831, 0x0031, 0x3100]
        names = {d: (None if rng.random() < 0.5 else rng.sample(special, len(special))) for d in dpids}
        def num(d, i): return i if names[d] is None or i > len(names[d]) else names[d][i - 1]
        cables = []
        def cable(a, b):
            pa = nextport[a]; nextport[a] += 1
            pb = nextport[b]; nextport[b] += 1
            cables.append([[a, num(a, pa)], [b, num(b, pb)]])
        order = dpids[:]; rng.shuffle(order)
        for i in range(1, n):                                            # a random spanning tree, then extras (cycles, parallels)
            if rng.random() < 0.9: cable(order[i], rng.choice(order[:i]))
        for _ in range(rng.choice([0, 1, 1, 2, 3])):
            a, b = rng.sample(dpids, 2); cable(a, b)
        sw = {}
        for d in dpids:
            ports = [num(d, i) for i in range(1, nextport[d] + rng.choice([0, 1, 2]))]    # plus host-facing ports
            if rng.random() < 0.4: ports.append(65534)
            if rng.random() < 0.1: ports.append(0xff00)
            rng.shuffle(ports)
            sw[str(d)] = ports
        return {"switches": sw, "cables": cables}

    def _history(self, rng, nops=None):
        topo = self._topology(rng)
        dpids = [int(d) for d in topo["switches"]]
        up = set()
        ops = []
        dirs = [(tuple(a), tuple(b)) for a, b in topo["cables"]] + [(tuple(b), tuple(a)) for a, b in topo["cables"]]
        dead = set(d for d in dirs if rng.random() < 0.12)                  # one-way faults
        nocarrier = set()                                                   # cables (index) whose two end ports report LINK_DOWN right now
        cab_of = {}
        for i, (a, b) in enumerate(topo["cables"]):
            cab_of[(tuple(a), tuple(b))] = i; cab_of[(tuple(b), tuple(a))] = i
        for d in rng.sample(dpids, len(dpids)):
            if rng.random() < 0.95: ops.append({"k": "up", "dpid": d}); up.add(d)
        def carrier(i, down):
            for end in topo["cables"][i]:
                if end[0] in up: ops.append({"k": "pstate", "dpid": end[0], "port": end[1], "down": down})
            (nocarrier.add if down else nocarrier.discard)(i)
        def round_():
            for a, b in rng.sample(dirs, len(dirs)):
                if (a, b) in dead or b[0] not in up or cab_of[(a, b)] in nocarrier: continue
                if a[0] not in up and rng.random() < 0.8: continue
                ops.append({"k": "probe", "from": list(a), "to": list(b)})
        nops = nops or rng.choice([10, 20, 30, 60])
        while len(ops) < nops:
            r = rng.random()
            if r < 0.30: round_()
            elif r < 0.46 and dirs:
                a, b = rng.choice(dirs)
                if b[0] in up and cab_of[(a, b)] not in nocarrier: ops.append({"k": "probe", "from": list(a), "to": list(b)})
            elif r < 0.50 and topo["cables"]:
                # a port-status flap: a cable loses carrier for less than the link timeout (no probe crosses it meanwhile) while the
                # rest of the network goes on -- sweeps, other links coming and going -- then the carrier is back
                i = rng.randrange(len(topo["cables"]))
                if i in nocarrier: carrier(i, False)
                else:
                    carrier(i, True)
                    if rng.random() < 0.6:
                        ops.append({"k": "tick", "dt": 125 * rng.choice([8, 16, 40, 72])}); ops.append({"k": "sweep"})
            elif r < 0.68: ops.append({"k": "tick", "dt": 125 * rng.choice([1, 8, 24, 40, 40, 48, 80, 81, 88, 160])})
            elif r < 0.80: ops.append({"k": "sweep"})
            elif r < 0.84 and up:
                d = rng.choice(sorted(up)); up.discard(d); ops.append({"k": "down", "dpid": d})
                nocarrier -= {i for i, cb in enumerate(topo["cables"]) if d in (cb[0][0], cb[1][0])}
            elif r < 0.87 and up:                                             # reboot: down, up with a fresh port config, rediscovery
                d = rng.choice(sorted(up))
                ops += [{"k": "down", "dpid": d}, {"k": "tick", "dt": 125 * rng.choice([1, 8, 16])}, {"k": "up", "dpid": d}]
                nocarrier -= {i for i, cb in enumerate(topo["cables"]) if d in (cb[0][0], cb[1][0])}     # a rebooted switch reports its ports up
                round_()
            elif r < 0.94:
                cand = [d for d in dpids if d not in up]
                if cand:
                    d = rng.choice(cand); up.add(d); ops.append({"k": "up", "dpid": d})
            else:
                if dirs:
                    x = rng.choice(dirs)
                    (dead.discard if x in dead else dead.add)(x)
        c = {"kind": "hist", "topo": topo, "ops": ops}
        if rng.random() < 0.3:
            c["opts"] = self._rand_opts(rng)
            for _ in range(rng.choice([0, 1, 3])):
                d = rng.choice(dpids)
                ops.insert(rng.randrange(len(ops) + 1), {"k": "data", "dpid": d, "port": rng.choice(topo["switches"][str(d)] or [1]), "what": rng.randrange(4)})
        return c

    def generate(self, rng, tier):
        quick = tier == "quick"
        # calc: random multigraphs, 5..12 switches
        for _ in range(600 if quick else 6000):
            n = rng.choice([5, 5, 6, 7, 8, 10, 12])
            pool = list(range(1, 13)) if rng.random() < 0.6 else [1, 2, 3, 8, 9, 16, 17, 24, 25, 32, 33, 40, 255, 256, 4096, 2 ** 40]
            dpids = rng.sample(pool, n)
            dens = rng.choice([0.15, 0.3, 0.5])
            pat = [rng.choice(CABLE_OPTS[1:]) if rng.random() < dens else [] for _ in range(n * (n - 1) // 2)]
            yield self._graph_case(n, pat, rng, dpids)
        # arbitrary link lists (ports shared between links, crossed port pairs): the culling's choice of port pair under any adjacency
        for _ in range(400 if quick else 8000):
            n = rng.choice([2, 2, 3, 3, 4, 5])
            dpids = rng.sample([1, 2, 3, 4, 5, 9, 17, 33, 300], n)
            links = set()
            for _ in range(rng.randrange(1, 14)):
                a, b = rng.sample(dpids, 2)
                l = (a, rng.randrange(1, 4), b, rng.randrange(1, 4))
                links.add(l)
                if rng.random() < 0.6: links.add((l[2], l[3], l[0], l[1]))
            links = [list(l) for l in sorted(links)]; rng.shuffle(links)
            yield {"kind": "calc", "links": links}
        if not quick:
            for hi in range(256):                                           # every 16-bit port number, sender -> receiver
                yield {"kind": "portsweep", "dpid": 0x10 + hi, "ports": list(range(hi << 8, (hi + 1) << 8))}
        if not quick:
            # 5 switches: all 3^10 = 59049 patterns over {none, bidirectional, one-way}, then 50000 sampled over all 13 options per pair;
            # 4 switches: 80000 sampled over all 13 options per pair (13^6 = 4.8M is not enumerated)
            six = [[], [(1, 1)], [(1, 0)], [(0, 1)], [(1, 1), (1, 1)], [(1, 1), (1, 0)]]
            for pat in itertools.product(six, repeat=6):                  # 4 switches, 6 options per pair: 46656
                yield self._graph_case(4, pat, rng)
            basic3 = [[], [(1, 1)], [(1, 0)]]
            for pat in itertools.product(basic3, repeat=10):
                yield self._graph_case(5, pat, rng)
            for _ in range(50000):
                yield self._graph_case(5, [rng.choice(CABLE_OPTS) for _ in range(10)], rng)
            for _ in range(80000):
                yield self._graph_case(4, [rng.choice(CABLE_OPTS) for _ in range(6)], rng)
        for _ in range(1200 if quick else 15000):
            yield self._history(rng)
        for _ in range(120 if quick else 800):
            yield self._live_history(rng)
        # single _update_tree() calls from an arbitrary _prev, with and without a con.send that raises; port_mods compared IN ORDER
        for _ in range(400 if quick else 6000):
            n = rng.choice([2, 3, 4, 5])
            g = self._graph_case(n, [rng.choice(CABLE_OPTS) for _ in range(n * (n - 1) // 2)], rng, rng.sample([1, 2, 3, 4, 5, 9, 17], n))
            used = {}
            for a, pa, b, pb in g["links"]:
                used.setdefault(a, set()).add(pa); used.setdefault(b, set()).add(pb)
            conns = {}
            for d, ps in sorted(used.items()):
                if True:                                                      # every end of every link is a connected switch (as in any history)
                    ports = sorted(ps) + [max(ps) + 1 + i for i in range(rng.choice([0, 1, 2]))] + ([65534] if rng.random() < 0.3 else [])
                    rng.shuffle(ports); conns[str(d)] = ports
            prev = [[int(d), p, rng.random() < 0.5] for d, ps in conns.items() for p in ps if rng.random() < 0.4]
            nports = sum(1 for ps in conns.values() for p in ps if p < OFPP_MAX)
            fail = None if rng.random() < 0.35 else rng.randrange(0, nports + 1)       # a send lost at any position of the update
            yield {"kind": "upd", "links": g["links"], "conns": conns, "prev": prev, "fail": fail, "again": rng.random() < 0.7}
        for c in self._calcseq_corpus(rng, 150 if quick else 3000): yield c
        for _ in range(400 if quick else 5000):
            yield {"kind": "codec", "more": [] if rng.random() < 0.7 else [[rng.getrandbits(rng.choice([3, 16, 64])), rng.getrandbits(rng.choice([3, 16]))] for _ in range(2)],
                    "dpid": rng.choice([rng.getrandbits(64), rng.getrandbits(rng.randrange(1, 65)), rng.randrange(0, 300)]),
                   "port": rng.choice([rng.getrandbits(16), rng.randrange(0, 120)])}
        for f in self._frame_variants(rng, 400 if quick else 5000):
            yield {"kind": "frame", "frame": f}

    def search_cases(self, rng, tier):
        while True:
            yield self._history(rng, nops=rng.choice([8, 12, 20, 40]))
            yield self._live_history(rng, nops=rng.choice([2, 4, 6]))

    # ------------------------------------------------------------------ implementation side
    def _set_order(self):
        s = set()
        for l in self.D.adjacency:
            s.add(l.dpid1); s.add(l.dpid2)
        return list(s)

    def impl(self, case):
        self._activate(self._world(case.get("opts") or {}))
        self._reset()
        return getattr(self, "_impl_" + case["kind"])(case)

    def _skip(self, what):
        self.skipped[what] = self.skipped.get(what, 0) + 1
        return {"skipped": what}

    def _calc_once(self, links):
        L = self.disc.Link
        self.D.adjacency.clear()
        for l in links:
            self.D.adjacency[L(*[int(str(x)) for x in l])] = 0          # equal dpids in different links are different int objects
        order = self._set_order()
        try:
            tree = self.f_calc()
        except Exception as e:
            return {"exc": type(e).__name__, "order": order}
        return {"tree": sorted([sw, w, p] for sw, ports in tree.items() for (w, p) in ports), "order": order,
                "keys": list(tree.keys())}

    def _impl_calc(self, case):
        if self.f_calc is None: return self._skip("spanning_tree._calc_spanning_tree not found")
        return self._calc_once(case["links"])

    def _impl_calcseq(self, case):
        """several adjacencies through the same process one after the other: each answer must be the one a fresh process gives"""
        if self.f_calc is None: return self._skip("spanning_tree._calc_spanning_tree not found")
        return {"items": [self._calc_once(links) for links in case["seq"]]}

    # -- `spanning_tree._prev` is internal state: touched only through this adapter (nested dict-of-dicts or flat {(dpid, port): b});
    #    an unknown shape means the `upd` kind cannot preset / read it and is skipped (noted in evidence)
    def _prev_shape(self):
        pv = self.st._prev
        if not isinstance(pv, dict): return None
        from collections import defaultdict
        if isinstance(pv, defaultdict): return "nested"
        return "flat"

    def _prev_set(self, d, p, b):
        if self._prev_shape() == "nested": self.st._prev[d][p] = b
        else: self.st._prev[(d, p)] = b

    def _prev_items(self):
        out = []
        for k, v in self.st._prev.items():
            if isinstance(k, tuple) and len(k) == 2:
                if v is not None: out.append([k[0], k[1], v])
            elif isinstance(v, dict):
                out += [[k, p, b] for p, b in v.items() if b is not None]
            else:
                raise TypeError("unknown _prev shape")
        return sorted(out)

    def _impl_upd(self, case):
        if self._prev_shape() is None:
            self._skipped_upd = getattr(self, "_skipped_upd", 0) + 1
            return {"skipped": "unknown shape of spanning_tree._prev"}
        if self.f_update is None: return self._skip("spanning_tree._update_tree not found")
        L, of = self.disc.Link, self.of
        for l in case["links"]:
            self.D.adjacency[L(*l)] = 0
        sent, fail = [], [case["fail"]]
        class FailCon(StubCon):
            def send(s, m):
                raw = bytes(m) if isinstance(m, (bytes, bytearray, memoryview)) else m.pack()
                for typ, mb in wire_msgs(of, raw):
                    if typ == of.OFPT_PORT_MOD:
                        if fail[0] is not None and len(sent) == fail[0]: raise IOError("send failed")
                        pm = port_mod_of(of, mb)
                        sent.append([s.dpid, pm.port_no, (pm.config & of.OFPPC_NO_FLOOD) == 0])
        for d, ports in case["conns"].items():
            self.core.openflow._connect(FailCon(of, int(d), ports, poxenv.clock()))
        for d, p, b in case["prev"]:
            self._prev_set(d, p, b)
        order = self._set_order()
        def readprev():
            try:
                return self._prev_items()
            except TypeError:
                self._skipped_upd = getattr(self, "_skipped_upd", 0) + 1
                self.__dict__.setdefault("_noprev", set()).add(common.canon(case))
                return None
        try:
            self.f_update()
        except Exception as e:
            return {"exc": type(e).__name__, "order": order}
        out = {"mods": list(sent), "prev": readprev(), "order": order}
        if case.get("again"):                                              # the next _update_tree(), with every send going through
            n1 = len(sent); fail[0] = None
            try:
                self.f_update()
            except Exception as e:
                return {"exc": type(e).__name__, "order": order}
            out["mods2"] = sent[n1:]; out["prev2"] = readprev()
        return out

    def _norm_ops(self, case):
        """drop ops that cannot happen (PacketIn from a switch that is not connected, ConnectionUp of a connected switch, ...)"""
        sw = {int(d): ps for d, ps in case["topo"]["switches"].items()}
        up, out = set(), []
        for op in case["ops"]:
            k = op["k"]
            if k == "up":
                if op["dpid"] in up or op["dpid"] not in sw: continue
                up.add(op["dpid"])
            elif k == "down":
                if op["dpid"] not in up: continue
                up.discard(op["dpid"])
            elif k == "probe":
                (d1, p1), (d2, p2) = op["from"], op["to"]
                if d2 not in up or d1 not in sw or p1 not in sw[d1] or p2 not in sw.get(d2, []): continue
            elif k in ("pstate", "data"):
                if op["dpid"] not in up or op["port"] not in sw[op["dpid"]]: continue
            elif k in ("mute", "unmute"):
                if op["dpid"] not in up: continue
            elif k in ("cut", "mend"):
                if not (0 <= op["i"] < len(case["topo"]["cables"])): continue
            out.append(op)
        return out

    def _impl_hist(self, case):
        of, core, D = self.of, self.core, self.D
        sw = {int(d): ps for d, ps in case["topo"]["switches"].items()}
        cons, frames, bits = {}, {}, {}
        steps, timer_alive = [], [True]
        def drain(con):
            mods = []
            for raw in con.sent:
                for typ, mb in wire_msgs(of, raw):
                    if typ == of.OFPT_PACKET_OUT:                          # LLDPSender's probe
                        po = of.ofp_packet_out(); po.unpack(mb)
                        if po.actions and po.data:                       # (the explicit drop of a buffered LLDP has neither)
                            frames[(con.dpid, po.actions[0].port)] = po.data
                    elif typ == of.OFPT_PORT_MOD:
                        m = port_mod_of(of, mb)
                        if m.mask & of.OFPPC_NO_FLOOD and m.hw_addr == con.ports[m.port_no].hw_addr:   # a switch ignores a port_mod for another hw address
                            flood = (m.config & of.OFPPC_NO_FLOOD) == 0
                            bits[(con.dpid, m.port_no)] = flood
                        mods.append([con.dpid, m.port_no, (m.config & of.OFPPC_NO_FLOOD) == 0])
            del con.sent[:]
            return mods
        for op in self._norm_ops(case):
            del self._events[:]; del self._orders[:]
            k = op["k"]
            if k == "tick":
                poxenv.clock.advance(op["dt"] / 1000.0)
            elif k == "up":
                d = int(str(op["dpid"]))            # a fresh int object, as a newly parsed features reply would carry (equal, not identical)
                con = StubCon(of, d, sw[d], poxenv.clock())
                cons[d] = con
                for key in [key for key in bits if key[0] == d]: del bits[key]
                core.openflow._connect(con)
                core.openflow.raiseEventNoErrors(self.ofmod.ConnectionUp, con, con.features)
            elif k == "down":
                con = cons.pop(op["dpid"])
                core.openflow._disconnect(con.dpid)
                core.openflow.raiseEventNoErrors(self.ofmod.ConnectionDown, con)
            elif k == "probe":
                (d1, p1), (d2, p2) = op["from"], op["to"]
                data = frames.get((d1, p1))
                if data is None:
                    data = self.disc.LLDPSender._create_discovery_packet(d1, p1, hw_of(d1, p1), 120).pack()
                pi = of.ofp_packet_in(in_port=p2, data=data)
                pi.buffer_id = 77 if (p1 + p2) % 3 == 0 else None
                core.openflow.raiseEventNoErrors(self.ofmod.PacketIn, cons[d2], pi)
            elif k == "sweep":
                if timer_alive[0] and self.expire_cb() is False and self.expire_selfstop: timer_alive[0] = False
            elif k == "pstate":
                # the switch reports a change of carrier on a port: the controller's port table is updated, then PortStatus is raised
                con = cons[op["dpid"]]; pp = con.ports[op["port"]]
                pp.state = (pp.state | of.OFPPS_LINK_DOWN) if op["down"] else (pp.state & ~of.OFPPS_LINK_DOWN)
                ps = of.ofp_port_status(reason=of.OFPPR_MODIFY, desc=pp)
                core.openflow.raiseEventNoErrors(self.ofmod.PortStatus, con, ps)
            elif k == "data":
                self._data_in(cons[op["dpid"]], op["port"], op.get("what", 0))
            mods = []
            for con in list(cons.values()): mods += drain(con)
            st = {"k": k, "events": copy.deepcopy(self._events), "mods": sorted(mods), "raw": list(mods),
                  "order": (self._orders[0] if self._orders else [])}
            if self._events:
                st["snap"] = {"adj": sorted(list(l) for l in D.adjacency), "bits": sorted([d, p, b] for (d, p), b in bits.items()),
                              "up": sorted(cons)}
            steps.append(st)
        adjacency = [[list(l), int(round((t - 1000.0) * 1000))] for l, t in D.adjacency.items()]
        return {"steps": steps, "adjacency": adjacency}

    # -- live: nothing is called by hand.  Scheduler.cycle() (real) runs whatever is ready; the virtual hub wakes sleeping tasks (the
    #    components' Timers) when the virtual clock reaches their time; probes sent by LLDPSender cross the cables of the topology.
    GRID = 8                                   # frames arrive at the next multiple of 1/8 s (latency < 125 ms): every time Discovery sees is exact in ms
    MAX_DISPATCH = 40000

    def _settle(self):
        n = 0
        while True:
            while self.sched.cycle():
                n += 1
                if n > 5000: raise RuntimeError("tasks keep each other ready for ever")
            if not self.hub.poll_io(): return

    def _impl_live(self, case):
        buf = io.StringIO()
        with contextlib.redirect_stdout(buf):                          # Scheduler.cycle() prints when a task dies of an exception
            out = self._impl_live2(case)
        out["tasks_died"] = buf.getvalue().count("caused an exception")
        return out

    def _impl_live2(self, case):
        of, core, D, hub, clock = self.of, self.core, self.D, self.hub, poxenv.clock
        sw = {int(d): ps for d, ps in case["topo"]["switches"].items()}
        peer = {}
        for i, (a, b) in enumerate(case["topo"]["cables"]):
            peer[tuple(a)] = (i, 0, tuple(b)); peer[tuple(b)] = (i, 1, tuple(a))
        cut, muted, cons, bits, trace = set(), set(), {}, {}, []
        T0 = 1000.0
        import random as _random
        _random.seed(1919)                                               # LLDPSender draws from the global generator when it sends in chunks
        ms = lambda: int(round((clock.now - T0) * 1000))
        count = [0]

        def deliver(l, data):
            con = cons.get(l[2])
            if con is None or l[2] in muted: return
            pi = of.ofp_packet_in(in_port=l[3], data=data)
            pi.buffer_id = 77 if (l[1] + l[3]) % 3 == 0 else None
            core.openflow.raiseEventNoErrors(self.ofmod.PacketIn, con, pi)
            self._settle(); flush("probe", {"l": list(l)}, True)

        def drain(con):
            mods = []
            for raw in con.sent:
                for typ, mb in wire_msgs(of, raw):
                    if typ == of.OFPT_PACKET_OUT:
                        po = of.ofp_packet_out(); po.unpack(mb)
                        if not (po.actions and po.data) or con.dpid in muted: continue
                        end = (con.dpid, po.actions[0].port)
                        if end not in peer or (peer[end][0], peer[end][1]) in cut: continue
                        l = end + peer[end][2]
                        when = T0 + math.ceil((clock.now - T0) * self.GRID) / float(self.GRID)
                        hub.at(when, lambda l=l, data=po.data: deliver(l, data))
                    elif typ == of.OFPT_PORT_MOD:
                        m = port_mod_of(of, mb)
                        if m.mask & of.OFPPC_NO_FLOOD and m.port_no in con.ports and m.hw_addr == con.ports[m.port_no].hw_addr:
                            bits[(con.dpid, m.port_no)] = (m.config & of.OFPPC_NO_FLOOD) == 0
                        mods.append([con.dpid, m.port_no, (m.config & of.OFPPC_NO_FLOOD) == 0])
            del con.sent[:]
            return mods

        def flush(kind, extra=None, force=False):
            mods = []
            for con in list(cons.values()): mods += drain(con)
            if self._events or mods or force:
                e = {"k": kind, "t": ms(), "events": copy.deepcopy(self._events), "mods": sorted(mods), "raw": list(mods),
                     "order": (self._orders[0] if self._orders else [])}
                if extra: e.update(extra)
                if self._events:
                    e["snap"] = {"adj": sorted(list(l) for l in D.adjacency), "bits": sorted([d, p, b] for (d, p), b in bits.items()),
                                 "up": sorted(cons)}
                trace.append(e)
            del self._events[:]; del self._orders[:]

        def run_until(t_end):
            while True:
                due = hub.next_due()
                if due is None or due > t_end: break
                count[0] += 1
                if count[0] > self.MAX_DISPATCH: raise RuntimeError("more than %d wake-ups in one case" % self.MAX_DISPATCH)
                when, fn, task = hub.pop()
                if when > clock.now: clock.now = when
                if fn is not None: fn()
                else:
                    hub._return(task, ([], [], []))
                    self._settle(); flush("wake")
            if t_end > clock.now: clock.now = t_end

        for a, kw in self.ctor_timers: self.RT(*a, **kw)                 # the timers the components made when they were constructed: made anew, now
        self._settle(); flush("wake")                                   # ... and they go to sleep
        for op in self._norm_ops(case):
            k = op["k"]
            if k == "run":
                run_until(clock.now + op["dt"] / 1000.0)
                trace.append({"k": "obs", "t": ms(), "adj": sorted(list(l) for l in D.adjacency), "events": [], "mods": [],
                              "bits": sorted([d, p, b] for (d, p), b in bits.items()), "up": sorted(cons)})
                continue
            if k == "up":
                d = int(str(op["dpid"]))
                con = StubCon(of, d, sw[d], clock())
                cons[d] = con
                for key in [key for key in bits if key[0] == d]: del bits[key]
                core.openflow._connect(con)
                core.openflow.raiseEventNoErrors(self.ofmod.ConnectionUp, con, con.features)
            elif k == "down":
                con = cons.pop(op["dpid"])
                muted.discard(op["dpid"])
                core.openflow._disconnect(con.dpid)
                core.openflow.raiseEventNoErrors(self.ofmod.ConnectionDown, con)
            elif k in ("cut", "mend"):
                for dr in ((0, 1) if op["dir"] == 2 else (op["dir"],)):
                    (cut.add if k == "cut" else cut.discard)((op["i"], dr))
            elif k == "mute": muted.add(op["dpid"])
            elif k == "unmute": muted.discard(op["dpid"])
            elif k == "pstate":
                con = cons[op["dpid"]]; pp = con.ports[op["port"]]
                pp.state = (pp.state | of.OFPPS_LINK_DOWN) if op["down"] else (pp.state & ~of.OFPPS_LINK_DOWN)
                core.openflow.raiseEventNoErrors(self.ofmod.PortStatus, con, of.ofp_port_status(reason=of.OFPPR_MODIFY, desc=pp))
            elif k == "data":
                self._data_in(cons[op["dpid"]], op["port"], op.get("what", 0))
            self._settle()
            flush(k, {x: op[x] for x in op if x != "k"}, True)
            run_until(clock.now)                                        # frames that arrive without delay (the clock is on the grid)
        adjacency = [[list(l), int(round((t - T0) * 1000))] for l, t in D.adjacency.items()]
        return {"trace": trace, "adjacency": adjacency, "wakeups": count[0]}

    def _data_in(self, con, port, what):
        """traffic that is no probe reaches the controller from a port (table miss): ARP, IPv4/UDP, an LLDP frame of another agent sent
        to the standard LLDP group address, a runt.  No input of the adjacency"""
        pkt = self.pkt
        from pox.lib.addresses import IPAddr, EthAddr
        src = hw_of(0x77, port)
        if what == 0:
            fr = pkt.ethernet(src=EthAddr(src), dst=EthAddr(b"\xff" * 6), type=pkt.ethernet.ARP_TYPE)
            fr.payload = pkt.arp(opcode=pkt.arp.REQUEST, hwsrc=EthAddr(src), protosrc=IPAddr("10.0.0.%d" % (1 + port % 200)), protodst=IPAddr("10.0.0.254"))
            data = fr.pack()
        elif what == 1:
            u = pkt.udp(srcport=68, dstport=67); u.payload = b"x" * 20
            ip = pkt.ipv4(srcip=IPAddr("10.0.0.7"), dstip=IPAddr("10.0.0.9"), protocol=pkt.ipv4.UDP_PROTOCOL); ip.payload = u
            fr = pkt.ethernet(src=EthAddr(src), dst=EthAddr(hw_of(0x78, port)), type=pkt.ethernet.IP_TYPE); fr.payload = ip
            data = fr.pack()
        elif what == 2:
            data = bytes.fromhex(self._mk_frame([(1, b"\x04\x00\x11\x22\x33\x44\x55"), (2, b"\x05eth0"), (3, b"\x00\x78"), (0, b"")],
                                                dst=b"\x01\x80\xc2\x00\x00\x0e"))
        else:
            data = src + src
        pi = self.of.ofp_packet_in(in_port=port, data=data)
        pi.buffer_id = 55 if what == 1 else None
        self.core.openflow.raiseEventNoErrors(self.ofmod.PacketIn, con, pi)

    def _packet_in(self, frame):
        class AllKnown(type(self.real_conns)):
            def __contains__(s, item): return True
        self.core.openflow._connections = AllKnown()
        try:
            con = StubCon(self.of, 0xfffffffffffe, [0xfffd], poxenv.clock())
            pi = self.of.ofp_packet_in(in_port=0xfffd, data=frame); pi.buffer_id = None
            ev = self.ofmod.PacketIn(con, pi)
            try:
                r = self.D._handle_openflow_PacketIn(ev)
            except Exception as e:
                return {"exc": type(e).__name__}
            links = list(self.D.adjacency)
            if links:
                return {"r": ["link", links[0].dpid1, links[0].port1]}
            return {"r": ["halt"] if r is self.ofmod.EventHalt else ["ignored"]}
        finally:
            self.core.openflow._connections = self.real_conns

    def _codec_once(self, dpid, port, idx):
        hw = bytes([2 + 2 * idx]) + hw_of(dpid & 0xffffffff, port)[1:]
        frame = self.disc.LLDPSender._create_discovery_packet(dpid, port, hw, 120).pack()
        # the same through create_packet_out (what the sender really transmits)
        snd = self.D._sender
        po = self.of.ofp_packet_out(); po.unpack(snd.create_packet_out(dpid, port, hw))
        out = {"dpid": dpid, "port": port, "frame": frame.hex(), "po_same": po.data == frame, "po_port": po.actions[0].port, "hw": hw.hex()}
        self.D.adjacency.clear()
        out.update(self._packet_in(frame))
        # and the parsed packet re-packs to the same bytes
        out["repack_same"] = self.pkt.ethernet(frame).pack() == frame
        return out

    def _impl_codec(self, case):
        """the probe for (dpid, port), then -- on the same sender and the same Discovery, nothing reset in between -- the probes for the
        (dpid, port) pairs in `more` (same port with another hardware address, neighbouring dpid, ...): each must be its own"""
        return {"items": [self._codec_once(d, p, i) for i, (d, p) in enumerate([[case["dpid"], case["port"]]] + case.get("more", []))]}

    def _impl_portsweep(self, case):
        """sender -> receiver for many port numbers: the probe LLDPSender.create_packet_out builds for (dpid, port), handed to the real
        PacketIn handler; reports the ports that do not come back as themselves"""
        d = case["dpid"]
        class AllKnown(type(self.real_conns)):
            def __contains__(s, item): return True
        self.core.openflow._connections = AllKnown()
        bad, snd, of = [], self.D._sender, self.of
        try:
            con = StubCon(of, 0xfffffffffffe, [0xfffd], poxenv.clock())
            for port in case["ports"]:
                po = of.ofp_packet_out(); po.unpack(snd.create_packet_out(d, port, hw_of(d & 0xffffffff, port)))
                pi = of.ofp_packet_in(in_port=0xfffd, data=po.data); pi.buffer_id = None
                self.D.adjacency.clear()
                try:
                    self.D._handle_openflow_PacketIn(self.ofmod.PacketIn(con, pi))
                    got = [[l.dpid1, l.port1] for l in self.D.adjacency]
                except Exception as e:
                    got = type(e).__name__
                if got != [[d, port]] or po.actions[0].port != port: bad.append([port, got])
        finally:
            self.core.openflow._connections = self.real_conns
        return {"n": len(case["ports"]), "bad": bad[:20], "nbad": len(bad)}

    def _impl_frame(self, case):
        return self._packet_in(bytes.fromhex(case["frame"]))

    # ------------------------------------------------------------------ model side
    def model_request(self, case):
        if case["kind"] == "frame":
            return {"op": "recover", "frame": case["frame"]}
        return None

    def model_request2(self, case, obs):
        k = case["kind"]
        if k == "portsweep":
            return None                                                    # oracle only (probe_roundtrip is the theorem; `codec` compares the bytes)
        if k == "calc":
            if "skipped" in obs: return None
            return self._calc_req(case["links"], obs)
        if k == "upd":
            if "skipped" in obs: return None
            req = {"op": "update", "adj": case["links"], "order": obs["order"], "conns": [[int(d), ps] for d, ps in case["conns"].items()],
                   "prev": case["prev"], "fail": case["fail"], "all": self.variant["visitAll"], "again": bool(case.get("again"))}
            if self.spec and "exc" not in obs:
                # the port_mods the implementation sent: the driver reads the tree they amount to off them, judges it, and answers what
                # _update_tree does with THAT tree
                req["impl"] = {"mods": obs["mods"], "mods2": obs.get("mods2", [])}
            return req
        if k == "calcseq":
            if "skipped" in obs: return None
            return {"op": "batch", "reqs": [self._calc_req(links, it) for links, it in zip(case["seq"], obs["items"])]}
        if k == "codec":
            return {"op": "batch", "reqs": [{"op": "pack", "dpid": it["dpid"], "port": it["port"], "hw": it["hw"], "ttl": 120} for it in obs["items"]]}
        if k in ("hist", "live") and not self._modelled(case): return None          # oracle only (see `_modelled`)
        if k == "hist":
            sw = {int(d): ps for d, ps in case["topo"]["switches"].items()}
            ops = []
            for op, st in zip(self._norm_ops(case), obs["steps"]):
                kk = op["k"]
                if kk == "tick": ops.append({"k": "tick", "dt": op["dt"]})
                elif kk == "up": ops.append({"k": "up", "dpid": op["dpid"], "ports": sw[op["dpid"]]})
                elif kk == "down": ops.append({"k": "down", "dpid": op["dpid"], "order": st["order"]})
                elif kk == "sweep": ops.append({"k": "sweep", "order": st["order"]})
                elif kk == "probe": ops.append({"k": "probe", "l": op["from"] + op["to"], "order": st["order"]})
                elif kk in ("pstate", "data"): ops.append({"k": "tick", "dt": 0})     # carrier / other traffic is no input of discovery's adjacency or of _update_tree
            if self.spec:
                j = 0
                for op, st in zip(self._norm_ops(case), obs["steps"]):
                    ops[j]["mods"] = st.get("raw", st["mods"]); j += 1
            return self._cfg_req(case, {"op": "history", "variant": self.variant, "ops": ops, "impl": self.spec})
        if k == "live":
            ops, views = self._live_model_ops(case, obs)
            if self.spec:
                ops = [dict(op, mods=v.get("raw", v["mods"])) for op, v in zip(ops, views)]
            return self._cfg_req(case, {"op": "timed", "variant": self.variant, "ops": ops, "impl": self.spec})
        return None

    def _modelled(self, case):
        """the configured link timeout and no_flood are parameters of the model (Cfg, stepOfC / tstepOfC; configured_default_is_model);
        hold_down (ages of connections, one-shot timers per switch) is not modelled: those histories are judged by the oracle alone.
        no_flow, explicit_drop, eat_early_packets, the order of the two launch() calls and launch() vs constructor are no inputs of the
        model: such histories are model-compared like any other"""
        c = self.config_of(case.get("opts"))
        if c["hold_down"]: return False
        return self.spec or (c["timeout"] == TIMEOUT_MS and not c["no_flood"])

    def _cfg_req(self, case, req):
        c = self.config_of(case.get("opts"))
        if c["timeout"] != TIMEOUT_MS or c["no_flood"]: req["cfg"] = {"timeout": c["timeout"], "no_flood": c["no_flood"]}
        return req

    def _calc_req(self, links, obs):
        """the adjacency, and -- when the implementation returned a tree -- that tree (the dict flattened to [switch, neighbour, port]
        entries): the driver answers whether `_calc_spanning_tree` as written returns or raises, and which clause of the
        specification the implementation's tree fails, if any"""
        req = {"op": "calc", "adj": links, "order": obs["order"]}
        if "tree" in obs: req["tree"] = obs["tree"]
        return req

    def _live_model_ops(self, case, obs):
        """the timed history the run amounts to, for the model: things that happened (up / down / a probe that arrived) and time
        passing in between.  The expiry sweeps are NOT taken from the run: the model fires them itself while it waits (its timer is
        the contract of recoco.Timer.run applied to what _expire_links returns).  What the implementation's timer wake-ups made visible
        at a time t is compared with what the model's wait ending at t produced.  Waits are cut at every multiple of the check period, so
        each holds at most one sweep (its `order` comes from the wake-up seen at that time, if any)."""
        sw = {int(d): ps for d, ps in case["topo"]["switches"].items()}
        ops, views, cur = [], [], [0]
        none = {"events": [], "mods": []}
        def advance(t, view=None, order=()):
            if cur[0] == t and view is not None:
                ops.append({"k": "wait", "dt": 0, "order": list(order)}); views.append(view)
            while cur[0] < t:
                end = min((cur[0] // PERIOD_MS + 1) * PERIOD_MS, t)
                mine = view is not None and end == t
                ops.append({"k": "wait", "dt": end - cur[0], "order": list(order) if mine else []})
                views.append(view if mine else none)
                cur[0] = end
        for e in obs["trace"]:
            k = e["k"]
            v = {"events": e["events"], "mods": e["mods"], "raw": e.get("raw", e["mods"])}
            if k == "wake": advance(e["t"], v, e["order"]); continue
            advance(e["t"])
            if k == "up": ops.append({"k": "up", "dpid": e["dpid"], "ports": sw[e["dpid"]]}); views.append(v)
            elif k == "down": ops.append({"k": "down", "dpid": e["dpid"], "order": e["order"]}); views.append(v)
            elif k == "probe": ops.append({"k": "probe", "l": e["l"], "order": e["order"]}); views.append(v)
            elif e["events"] or e["mods"]:                       # cut / mend / mute / carrier: nothing may follow from them at once
                ops.append({"k": "wait", "dt": 0, "order": e["order"]}); views.append(v)
        return ops, views

    def impl_view(self, case, obs):
        k = case["kind"]
        if isinstance(obs, dict) and "skipped" in obs: return obs
        if k == "calc":
            # which forest (and which of parallel cables) is left open: the tree must be one the specification allows
            return {"exc": obs["exc"]} if "exc" in obs else {"valid": "ok", "model": "ok"}
        if k == "codec":
            return [it["frame"] for it in obs["items"]]
        if k == "upd":
            if "exc" in obs: return {"exc": obs["exc"]}
            v = {"mods": obs["mods"]}
            if self.spec: v["tree"] = "ok"
            if "mods2" in obs: v["mods2"] = obs["mods2"]
            if obs["prev"] is not None:
                v["prev"] = obs["prev"]
                if "prev2" in obs and obs["prev2"] is not None: v["prev2"] = obs["prev2"]
            return v
        if k == "calcseq":
            return [self.impl_view({"kind": "calc"}, it) for it in obs["items"]]
        if k == "hist":
            return {"steps": [self._step_view(s) for s in obs["steps"]], "adjacency": obs["adjacency"]}
        if k == "live":
            return {"steps": [self._step_view(s) for s in self._live_model_ops(case, obs)[1]], "adjacency": obs["adjacency"]}
        return obs

    def _step_view(self, s):
        v = {"events": s["events"], "mods": s["mods"]}
        if self.spec: v["tree"] = "ok"           # the tree the bits amount to after the step: accepted by the specification
        return v

    def model_obs(self, case, resp):
        if "error" in resp: return resp
        k = case["kind"]
        if k == "calc":
            if "exc" in resp: return {"exc": resp["exc"]}
            if "valid" not in resp: return {"model-returns": "a tree"}          # (the implementation raised, the modelled code does not)
            return {"valid": resp["valid"], "model": resp["model"]}
        if k == "codec":
            return [r.get("frame", r) for r in resp["resps"]]
        if k == "upd":
            if "exc" in resp: return {"exc": resp["exc"]}
            v = {"mods": resp["mods"]}
            if self.spec: v["tree"] = resp.get("tree")
            if "mods2" in resp: v["mods2"] = resp["mods2"]
            if common.canon(case) not in getattr(self, "_noprev", ()):
                v["prev"] = sorted(resp["prev"])
                if "prev2" in resp: v["prev2"] = sorted(resp["prev2"])
            return v
        if k == "calcseq":
            return [self.model_obs({"kind": "calc"}, r) for r in resp["resps"]]
        if k in ("hist", "live"):
            return {"steps": [dict({"events": o["events"], "mods": sorted(o["mods"])}, **({"tree": o.get("tree")} if self.spec else {})) for o in resp["outs"]],
                    "adjacency": resp["adjacency"]}
        return resp

    # ------------------------------------------------------------------ the property, on the implementation's observables
    def oracle(self, case, obs):
        return getattr(self, "_oracle_" + case["kind"])(case, obs)

    def _oracle_upd(self, case, obs):
        """the switches start in the state `_prev` remembers (a port without an entry floods).  After an _update_tree() whose sends
        all went through -- the first one, or the one that follows a failed send -- the flood property must hold on the switches."""
        if "skipped" in obs or "exc" in obs: return None
        failed = case["fail"] is not None and "mods2" in obs and not self._all_sent(case, obs)
        if case["fail"] is not None and "mods2" not in obs: return None     # a possibly failed update with nothing after it: nothing to demand
        bits = {(d, p): b for d, p, b in case["prev"]}
        for d, p, b in obs["mods"] + obs.get("mods2", []): bits[(d, p)] = b
        sw = {int(d): ps for d, ps in case["conns"].items()}
        hard, low = self._flood_check([tuple(l) for l in case["links"]], bits, sorted(sw), sw, "update" if not failed else "send-failure+update")
        return hard or (low[0] if low else None)

    def _all_sent(self, case, obs):
        return case["fail"] is None or len(obs["mods"]) < case["fail"]      # fewer port_mods than the failing index: nothing failed

    def _oracle_calcseq(self, case, obs):
        if "skipped" in obs: return None
        for links, it in zip(case["seq"], obs["items"]):
            f = self._oracle_calc({"links": links}, it)
            if f: return f.replace("calc:", "calc: in a sequence of calls:", 1)
        return None

    def _oracle_portsweep(self, case, obs):
        if obs["nbad"]:
            port, got = obs["bad"][0]
            return "codec: probe for (%d,%d) recovered as %s (%d of %d ports of the sweep wrong)" % (case["dpid"], port, got, obs["nbad"], obs["n"])
        return None

    def _oracle_frame(self, case, obs):
        return None                                  # the property says nothing about foreign LLDP; correspondence only

    def _oracle_codec(self, case, obs):
        for i, it in enumerate(obs["items"]):
            where = "" if i == 0 else " (call %d on the same sender)" % (i + 1)
            if "exc" in it: return "codec: probe handler raised %s%s" % (it["exc"], where)
            if it["r"] != ["link", it["dpid"], it["port"]]:
                return "codec: probe for (%d,%d) recovered as %s%s" % (it["dpid"], it["port"], it["r"], where)
            if not it["po_same"] or it["po_port"] != it["port"]:
                return "codec: packet_out does not carry the probe / wrong output port%s" % where
            if not it["repack_same"]: return "codec: parsed probe does not re-pack to the same bytes%s" % where
        return None

    def _oracle_calc(self, case, obs):
        if "skipped" in obs: return None
        links = [tuple(l) for l in case["links"]]
        if any(a == c for a, b, c, d in links):
            return None                              # self-link: outside the quantifier
        if "exc" in obs: return "calc: raised %s" % obs["exc"]
        adj = set(links)
        tree = {}
        for sw, w, p in obs["tree"]: tree.setdefault(sw, []).append((w, p))
        cables = []
        for sw, lst in tree.items():
            seen = set()
            for w, p in lst:
                if w in seen: return "calc: two tree entries %d->%d" % (sw, w)
                seen.add(w)
                back = [q for (x, q) in tree.get(w, []) if x == sw]
                if len(back) != 1: return "calc: tree entry %d->%d has no unique reverse entry" % (sw, w)
                if (sw, p, w, back[0]) not in adj or (w, back[0], sw, p) not in adj:
                    return "calc: tree edge %d.%d-%d.%d is not a bidirectional link" % (sw, p, w, back[0])
                if sw < w: cables.append(((sw, p), (w, back[0])))
        switches = sorted({a for a, b, c, d in links} | {c for a, b, c, d in links})
        f = forest_check(links, cables, switches)
        return None if f is None else "calc: tree is " + f

    def _oracle_hist(self, case, obs):
        sw = {int(d): ps for d, ps in case["topo"]["switches"].items()}
        ops = self._norm_ops(case)
        cfg = self.config_of(case.get("opts"))
        # (1) LinkEvent stream alternates per link, starting with added
        last = {}
        for st in obs["steps"]:
            for added, l in st["events"]:
                l = tuple(l)
                if last.get(l, False) == added:
                    return "events: link %s announced %s twice in a row" % (l, "added" if added else "removed (or removed first)")
                last[l] = added
        # (2) adjacency = links with a recent accepted probe and both ends connected since
        now, up, seen = 0, set(), {}
        for op, st in zip(ops, obs["steps"]):
            k = op["k"]
            if k == "tick": now += op["dt"]
            elif k == "up": up.add(op["dpid"])
            elif k == "down":
                up.discard(op["dpid"])
                for l in [l for l in seen if l[0] == op["dpid"] or l[2] == op["dpid"]]: del seen[l]
            elif k == "probe":
                l = tuple(op["from"] + op["to"])
                if l[0] in up and (l[0], l[1]) != (l[2], l[3]): seen[l] = now
            elif k == "sweep":
                for l in [l for l, t in seen.items() if t + cfg["timeout"] < now]: del seen[l]
            if "snap" in st and sorted(seen) != [tuple(l) for l in st["snap"]["adj"]]:
                return "adjacency: after %s it is %s, expected %s" % (k, st["snap"]["adj"], sorted(seen))
        if sorted((l, t) for l, t in seen.items()) != sorted((tuple(l), t) for l, t in obs["adjacency"]):
            return "adjacency: final %s, expected %s" % (obs["adjacency"], sorted(seen.items()))
        # (3) after every change: flooding is on for a spanning forest of the bidirectional links and for every host-facing port
        low, now, since = [], 0, {}
        for op, st in zip(ops, obs["steps"]):
            if op["k"] == "tick": now += op["dt"]
            elif op["k"] == "up": since[op["dpid"]] = now
            if "snap" not in st: continue
            # hold_down: the flood bits of a switch that connected less than send cycle + 1 s ago are left alone by design; the clause
            # is judged when every connected switch is older than that (no_flood changes nothing after a change of the adjacency)
            if cfg["hold_down"] and any(now - since.get(d, 0) < cfg["timeout"] // 2 + 1000 for d in st["snap"]["up"]): continue
            hard, lo = self._flood_check([tuple(l) for l in st["snap"]["adj"]], {(d, p): b for d, p, b in st["snap"]["bits"]},
                                         st["snap"]["up"], sw, op["k"])
            if hard: return hard
            low += lo
        return low[0] if low else None

    def _oracle_live(self, case, obs):
        """the property on a timer-driven run.  What the harness knows for certain: which probes crossed which cable when (it carried
        them), which switches were connected, muted, which cable directions were cut.  Demanded at every moment the adjacency is seen
        (after every change of it, and at the end of every `run`):
          * a link a probe crossed less than the link timeout ago (both ends connected since) is in it;
          * a link no probe crossed since its switches connected is not in it (the links of a disconnected switch are withdrawn at once);
          * a link no probe has crossed for more than link timeout + check period is not in it (the links of a silent switch are withdrawn);
          * when nothing was done to the network for timeout + check period, every cable direction that works is in it (discovered,
            and kept: the send cycle goes on);
        the LinkEvent stream alternates per link; after every change of the adjacency the flood bits are right."""
        sw = {int(d): ps for d, ps in case["topo"]["switches"].items()}
        cables = case["topo"]["cables"]
        cfg = self.config_of(case.get("opts"))
        TIMEOUT_MS = cfg["timeout"]                                     # the CONFIGURED link timeout; the expiry check period is the documented 5 s
        hold = TIMEOUT_MS // 2 + 1000                                   # hold_down: send cycle (timeout / 2) + 1 s
        died = obs.get("tasks_died", 0)
        note = " [%d task(s) of the scheduler died of an exception]" % died if died else ""
        last = {}
        for e in obs["trace"]:
            for added, l in e["events"]:
                l = tuple(l)
                if last.get(l, False) == added:
                    return "events: link %s announced %s twice in a row" % (l, "added" if added else "removed (or removed first)")
                last[l] = added
        up, muted, cut, seen, quiet, low, since, changed = set(), set(), set(), {}, 0, [], {}, True
        for e in obs["trace"]:
            k, t = e["k"], e["t"]
            if e["events"]: changed = True
            if k == "up": up.add(e["dpid"]); quiet = t; since[e["dpid"]] = t; changed = bool(e["events"])
            elif k == "down":
                up.discard(e["dpid"]); muted.discard(e["dpid"]); quiet = t
                for l in [l for l in seen if l[0] == e["dpid"] or l[2] == e["dpid"]]: del seen[l]
            elif k in ("cut", "mend"):
                for dr in ((0, 1) if e["dir"] == 2 else (e["dir"],)): (cut.add if k == "cut" else cut.discard)((e["i"], dr))
                quiet = t
            elif k == "mute": muted.add(e["dpid"]); quiet = t
            elif k == "unmute": muted.discard(e["dpid"]); quiet = t
            elif k == "pstate": quiet = t
            elif k == "probe":
                l = tuple(e["l"])
                if l[0] in up and (l[0], l[1]) != (l[2], l[3]): seen[l] = t
            adj = e["snap"]["adj"] if "snap" in e else e.get("adj")
            if adj is None: continue
            have = {tuple(l) for l in adj}
            for l, a in sorted(seen.items()):
                if l not in have and t <= a + TIMEOUT_MS:
                    return ("adjacency: missing link %s at %d ms: a probe crossed it at %d ms, less than the link timeout ago, and both its switches "
                            "have been connected since%s" % (l, t, a, note))
            for l in sorted(have):
                if l not in seen:
                    return "adjacency: phantom link %s at %d ms: no probe has crossed it since its switches connected%s" % (l, t, note)
                if t > seen[l] + TIMEOUT_MS + PERIOD_MS:
                    return ("adjacency: stale link %s is still there at %d ms, %d ms after the last probe crossed it: the links of a silent switch must be "
                            "withdrawn (link timeout %d ms, expiry check every %d ms)%s" % (l, t, t - seen[l], TIMEOUT_MS, PERIOD_MS, note))
            if t - quiet >= TIMEOUT_MS + PERIOD_MS:
                for i, (a, b) in enumerate(cables):
                    for dr, (x, y) in enumerate(((a, b), (b, a))):
                        l = tuple(x) + tuple(y)
                        if (i, dr) not in cut and x[0] in up and y[0] in up and x[0] not in muted and y[0] not in muted and l not in have:
                            gone = [x for x in e["events"] if not x[0] and tuple(x[1]) == l]
                            return ("adjacency: %s link %s at %d ms: the cable carries probes in that direction, both switches are connected and "
                                    "nothing was done to the network for %d ms (link timeout %d ms)%s" %
                                    ("withdrawn" if gone else "undiscovered", l, t, t - quiet, TIMEOUT_MS, note))
            # the flood clause: after every change of the adjacency, and whenever the run is looked at.  What the options of spanning_tree
            # leave of it: hold_down -- the bits of a switch younger than send cycle + 1 s are left alone by design, so the clause is judged
            # when every connected switch is older; no_flood (alone) -- a switch starts with every port blocked and nothing is promised
            # before the next change of the adjacency, so between a connect and that change the clause is not judged
            snap = e.get("snap") or (e if k == "obs" and "bits" in e else None)
            if snap is not None:
                if cfg["hold_down"] and any(t - since.get(d, 0) < hold for d in snap["up"]): continue
                if "snap" not in e and cfg["no_flood"] and not cfg["hold_down"] and not changed: continue
                hard, lo = self._flood_check([tuple(l) for l in snap["adj"]], {(d, p): b for d, p, b in snap["bits"]},
                                             snap["up"], sw, "timer" if k == "wake" else "quiet" if k == "obs" else k)
                if hard: return hard
                low += lo
        return low[0] if low else None

    def _flood_check(self, adj, bits, up, sw, opname):
        """the statement of flood_ports / flood_bits / flood_keeps on the switch-side port config `bits` (a port that was never sent a
        port_mod on its connection floods): (hard failure or None, failures on switches outside the tree)"""
        low = []
        if any(a == c for a, b, c, d in adj): return None, low             # self-link: outside the quantifier
        on = lambda end: bits.get(tuple(end), True)
        linkports = {(a, b) for a, b, c, d in adj} | {(c, d) for a, b, c, d in adj}
        cables = bidir_cables(adj)
        treesw = {e[0] for c in cables for e in c}
        enabled = []
        for e1, e2 in cables:
            if on(e1) != on(e2):
                return ("flood: after %s: link %s-%s enabled on one end only (a flood leaves through that end and comes back over the tree: "
                        "the flood-enabled ports contain a cycle)" % (opname, e1, e2)), low
            if on(e1): enabled.append((e1, e2))
        f = forest_check(adj, enabled, sorted({a for a, b, c, d in adj} | {c for a, b, c, d in adj}))
        if f: return "flood: after %s: enabled links are %s" % (opname, f), low
        # every connected switch: a port that is an endpoint of a known link floods only if it is a tree port -- an endpoint of
        # one-way links only never is; a port without a known link floods.  (failures on a switch outside the tree are keyed apart)
        bidirports = {e for c in cables for e in c}
        for d in up:
            for p in sw[d]:
                if p < OFPP_MAX and (d, p) in linkports and (d, p) not in bidirports and on((d, p)):
                    if d in treesw:
                        return "flood: after %s: port %d.%d of a tree switch is an end of a one-way link only and still floods" % (opname, d, p), low
                    low.insert(0, "flood: outside-tree switch: port %d.%d is an end of a one-way link and still floods (after %s)" % (d, p, opname))
        for d in up:
            for p in sw[d]:
                if p < OFPP_MAX and (d, p) not in linkports and not on((d, p)):
                    if d in treesw: return "flood: after %s: host-facing port %d.%d of a tree switch has NO_FLOOD" % (opname, d, p), low
                    low.append("flood: outside-tree switch: host-facing port %d.%d has NO_FLOOD (after %s)" % (d, p, opname))
        return None, low

    def finding_key(self, case, obs, failure):
        if failure.startswith("flood: outside-tree switch"):
            return "flood:outside-tree-switch:" + ("link-port-floods" if "one-way link" in failure else "host-port-noflood")
        if failure.startswith("flood: after"):
            k = failure.split()[2].rstrip(":").replace("+", "-")
            what = ("half-enabled" if "one end only" in failure else "cycle" if failure.endswith("cycle") else
                    "not-spanning" if failure.endswith("not-spanning") else
                    "oneway-port-floods" if "one-way link only" in failure else "host-port-noflood")
            return "flood:after-%s:%s" % (k, what)
        if failure.startswith("codec:"):
            return "codec:" + ("raised" if "raised" in failure else "mismatch")
        return failure.split(":")[0] + ":" + failure.split(":")[1].strip().split(" ")[0]

    def nontrivial(self, case, obs):
        k = case["kind"]
        if k == "calc": return bool(obs.get("tree"))
        if k == "hist": return any(not a for st in obs["steps"] for a, _ in st["events"])
        if k == "live": return any(not a for e in obs["trace"] for a, _ in e["events"])
        return True

    def shrink_candidates(self, case):
        if case["kind"] in ("hist", "live"):
            ops = case["ops"]
            for n in (8, 4, 2, 1):
                for i in range(0, len(ops), n):
                    if len(ops) > n:
                        c = copy.deepcopy(case); del c["ops"][i:i + n]; yield c
        elif case["kind"] == "portsweep":
            ps = case["ports"]
            if len(ps) > 1:
                for half in (ps[:len(ps) // 2], ps[len(ps) // 2:]):
                    c = copy.deepcopy(case); c["ports"] = half; yield c
        elif case["kind"] == "calc":
            for i in range(len(case["links"])):
                c = copy.deepcopy(case); del c["links"][i]; yield c

CHECK = C19
