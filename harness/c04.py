"""C04 — flow table evolves as the OpenFlow 1.0 FLOW_MOD/timeout state machine (DESIGN §5 C04).

Three computations per history, on the same events:
  * the real code  : SoftwareSwitch behind OFConnection/IOWorker (harness/swnet.py).  Flow-mods and stats requests are built here
                     with `struct` and go in as BYTES (the real decoders are in the loop); frames are built with the real packet
                     library and injected with rx_packet; expiry sweeps are `sw.table.remove_expired_entries()` under the virtual
                     clock; everything the switch writes is parsed from the raw bytes of the send buffer (independent of POX's
                     codec)                                                                                           (`impl`)
  * the Lean model : Model/FlowMod.lean through drv_c04 — must equal the real code step by step (table in order + messages)
  * the standard   : Spec/OF10Table.lean through drv_c04  ==  the short Python transcription below (`spec_*`), which is the
                     property oracle evaluated on the real code's observables.
Virtual time only takes values k/8 s (exact in binary64), so the model's integer milliseconds agree with Python's floats.
"""
import struct, itertools, copy, re, json
import common, poxenv
from common import Check
import c03
from c03 import (pack_rec, unpack_rec, mkwild, spec_headers, spec_match, spec_rank_sig, wild, ign_src, ign_dst,
                 W, IN_PORT, DL_SRC, DL_DST, DL_VLAN, PCP, DL_TYPE, TOS, PROTO, NW_SRC, NW_DST, TP_SRC, TP_DST, FLAG_FIELDS)

T0 = 1000000                                      # poxenv.clock starts every history at 1000.0 s
ADD, MODIFY, MODIFY_STRICT, DELETE, DELETE_STRICT = range(5)
SEND_FLOW_REM, CHECK_OVERLAP, EMERG = 1, 2, 4
NONE = 0xffff
CONTROLLER = 0xfffd
P_IN_PORT, P_FLOOD, P_ALL, P_LOCAL = 0xfff8, 0xfffb, 0xfffc, 0xfffe
ALLF = FLAG_FIELDS

# ------------------------------------------------------------------ bytes in (independent of POX's pack)
def act_bytes(a):
    if a[0] == 0: return struct.pack("!HHHH", 0, 8, a[1], a[2])          # output (port, max_len)
    if a[1] == 1: return struct.pack("!HHHxx", 1, 8, a[2])          # set_vlan_vid
    if a[1] == 3: return struct.pack("!HHxxxx", 3, 8)               # strip_vlan
    raise ValueError(a)

def flow_mod_bytes(op, xid):
    acts = b"".join(act_bytes(a) for a in op["acts"])
    buf = 0xffffffff if op.get("buf") is None else op["buf"]
    body = pack_rec(op["m"]) + struct.pack("!QHHHHLHH", op["cookie"], op["cmd"], op["idle"], op["hard"], op["prio"], buf,
                                           op["out_port"], op["flags"]) + acts
    return struct.pack("!BBHL", 1, 14, 8 + len(body), xid) + body

def stats_req_bytes(op, xid):
    body = struct.pack("!HH", 1 if op["op"] == "fstats" else 2, 0) + pack_rec(op["m"]) + struct.pack("!BxH", 0xff, op["out_port"])
    return struct.pack("!BBHL", 1, 16, 8 + len(body), xid) + body

# ------------------------------------------------------------------ bytes out
def parse_acts(b):
    out, off = [], 0
    while off < len(b):
        t, ln = struct.unpack("!HH", b[off:off + 4])
        if t == 0: out.append([0] + list(struct.unpack("!HH", b[off + 4:off + 8])))
        elif t == 1: out.append([1, 1, struct.unpack("!H", b[off + 4:off + 6])[0]])
        else: out.append([1, t, 0])
        off += ln
    return out

def parse_out(buf):
    """every message in the switch's send buffer, as canonical dicts (xid dropped: it is a process-wide counter)"""
    outs, off = [], 0
    while off < len(buf):
        ver, t, ln, xid = struct.unpack("!BBHL", buf[off:off + 8])
        b = buf[off + 8:off + ln]
        if t == 11:
            cookie, prio, reason, ds, dn, idle, pk, by = struct.unpack("!QHBxLLHxxQQ", b[40:])
            outs.append({"k": "fr", "m": unpack_rec(b[:40]), "cookie": cookie, "prio": prio, "reason": reason, "ds": ds, "dn": dn,
                         "idle": idle, "pk": pk, "by": by})
        elif t == 1:
            et, ec = struct.unpack("!HH", b[:4])
            outs.append({"k": "err", "t": et, "c": ec})
        elif t == 10:
            bid, _, port, reason = struct.unpack("!LHHB", b[:9])
            outs.append({"k": "pin", "port": port, "bid": None if bid == 0xffffffff else bid, "reason": reason})
        elif t == 17:
            st, fl = struct.unpack("!HH", b[:4])
            body = b[4:]
            if st == 1:
                l, o = [], 0
                while o < len(body):
                    n = struct.unpack("!H", body[o:o + 2])[0]
                    e = body[o:o + n]
                    ds, dn, prio, idle, hard, cookie, pk, by = struct.unpack("!LLHHHxxxxxxQQQ", e[44:88])
                    l.append([unpack_rec(e[4:44]), ds, dn, prio, idle, hard, cookie, pk, by, parse_acts(e[88:])])
                    o += n
                outs.append({"k": "fs", "l": l})
            elif st == 2:
                pk, by, n = struct.unpack("!QQLxxxx", body[:24])
                outs.append({"k": "as", "pk": pk, "by": by, "n": n})
            else:
                outs.append({"k": "other", "type": t, "stats": st})
        else:
            outs.append({"k": "other", "type": t})
        off += ln
    return outs

def expected_emits(acts, in_port, ln):
    """what `_process_actions_for_packet` emits for the action lists the harness puts into buffer-carrying flow-mods (outputs to
    physical ports 1..4 and strip_vlan on an untagged frame): one frame per output action whose port is not the ingress port"""
    out = []
    for a in acts:
        if a[0] == 0 and 1 <= a[1] <= 4 and a[1] != in_port: out.append([a[1], ln])
        elif a[0] == 0 and a[1] in (P_FLOOD, P_ALL): out += [[q, ln] for q in (1, 2, 3, 4) if q != in_port]
        elif a[0] == 0 and a[1] == P_IN_PORT: out.append([in_port, ln])
        elif a[0] == 0: pass                                         # CONTROLLER: stored + packet-in; port 0, LOCAL, the ingress port: nothing
        elif a[0] == 1 and a[1] != 3: raise ValueError("action outside the buffer alphabet")
    return out

def blind_rel(outs):
    """releases as seen from the ports only (buffer store not observable): those which send something, without slot and frame"""
    outs = [rel_view(o) if o["k"] == "rel" and "acts" in o else o for o in outs]
    return [{"k": "rel", "id": None, "emits": o["emits"]} if o["k"] == "rel" else o for o in outs if o["k"] != "rel" or o["emits"]]

def rel_view(o):
    """a `release` of the model / the specification, as the harness observes it on the real switch"""
    return {"k": "rel", "id": o["id"], "len": o["len"], "port": o["port"], "emits": expected_emits(o["acts"], o["port"], o["len"])}

# ------------------------------------------------------------------ OpenFlow 1.0 §4.6/§4.7 transcribed (the property oracle)
def dl_is(r, t): return not wild(r, DL_TYPE) and r[DL_TYPE] == t
def nw_specified(r): return dl_is(r, 0x0800) or dl_is(r, 0x0806)
def significant(r, f):
    if wild(r, f): return False
    if f == TOS: return dl_is(r, 0x0800)
    if f == PROTO: return nw_specified(r)
    if f in (TP_SRC, TP_DST): return dl_is(r, 0x0800) and not wild(r, PROTO) and r[PROTO] in (1, 6, 17)
    return True
def fval(r, f): return r[f] >> 2 if f == TOS else r[f]
def src_ign(r): return ign_src(r) if nw_specified(r) else 32
def dst_ign(r): return ign_dst(r) if nw_specified(r) else 32

def spec_subsumes(a, b):
    """every 12-tuple b matches, a matches"""
    for f in ALLF:
        if significant(a, f) and not (significant(b, f) and fval(a, f) == fval(b, f)): return False
    for f, ign in ((NW_SRC, src_ign), (NW_DST, dst_ign)):
        ka, kb = ign(a), ign(b)
        if kb > ka: return False
        if ka < 32 and a[f] >> ka != b[f] >> ka: return False
    return True

def spec_identical(a, b): return spec_subsumes(a, b) and spec_subsumes(b, a)

# The known deviations of the unchanged code, as variants of the transcription.  They are used ONLY to classify an oracle failure
# (finding_key) and to keep generated histories out of a known finding's input class; the oracle itself uses no variant.
def hi_bits(r): return r[W] >> 22
def v_subsumes(a, b, variant):
    if not spec_subsumes(a, b): return False
    if variant == "undefined-wildcard-bits" and hi_bits(b) & ~hi_bits(a): return False
    return True
def v_identical(a, b, variant):
    if not (v_subsumes(a, b, variant) and v_subsumes(b, a, variant)): return False
    if variant == "host-bits-under-prefix":
        if src_ign(a) < 32 and a[NW_SRC] != b[NW_SRC]: return False
        if dst_ign(a) < 32 and a[NW_DST] != b[NW_DST]: return False
    return True
def v_overlaps(a, b, variant):
    if variant == "overlap-not-detected": return spec_subsumes(a, b) or spec_subsumes(b, a)
    return spec_overlaps(a, b)
def plain_subsumes(a, b):
    """`a` decoded without the flow-mod normalisation: every field whose wildcard bit is clear is compared"""
    for f in ALLF:
        if not wild(a, f) and not (significant(b, f) and fval(a, f) == fval(b, f)): return False
    for f, ka, kb in ((NW_SRC, ign_src(a), src_ign(b)), (NW_DST, ign_dst(a), dst_ign(b))):
        if kb > ka: return False
        if ka < 32 and a[f] >> ka != b[f] >> ka: return False
    return True
VARIANTS = ["overlap-not-detected", "host-bits-under-prefix", "undefined-wildcard-bits", "stats-request-not-unwired"]

def spec_overlaps(a, b):
    """some 12-tuple matches both"""
    for f in ALLF:
        if significant(a, f) and significant(b, f) and fval(a, f) != fval(b, f): return False
    for f, ign in ((NW_SRC, src_ign), (NW_DST, dst_ign)):
        k = max(ign(a), ign(b))
        if k < 32 and a[f] >> k != b[f] >> k: return False
    return True

def flow_rank(f): return spec_rank_sig(f["prio"], f["m"])     # exact under the prerequisite rule (Lean: Spec.rankSig)
def has_output(f, port): return any(a[0] == 0 and a[1] == port for a in f["acts"])
def port_ok(f, out_port): return out_port == NONE or has_output(f, out_port)
def selected(f, m, prio, strict, variant=None):
    return (v_identical(f["m"], m, variant) and f["prio"] == prio) if strict else v_subsumes(m, f["m"], variant)
def dur(now, f): return [(now - f["t0"]) // 1000, (now - f["t0"]) % 1000 * 1000000]
def removed_of(now, reason, f):
    ds, dn = dur(now, f)
    return {"k": "fr", "m": f["m"], "cookie": f["cookie"], "prio": f["prio"], "reason": reason, "ds": ds, "dn": dn, "idle": f["idle"],
            "pk": f["pk"], "by": f["by"]}
def notifications(now, reason, fs): return [removed_of(now, reason, f) for f in fs if f["flags"] & SEND_FLOW_REM]

class SpecTable:
    def __init__(self, now, cap, variant=None, bufs=100):
        self.flows, self.now, self.cap, self.variant = [], now, cap, variant
        self.slots, self.bufs = [], bufs            # C18's pool: slot list, buffer id = index + 1
    def alloc(self, fr):
        for i, v in enumerate(self.slots):
            if v is None: self.slots[i] = fr; return i + 1
        if len(self.slots) >= self.bufs: return None
        self.slots.append(fr); return len(self.slots)
    def to_controller(self, fr, acts):
        """each output:CONTROLLER among the actions stores the packet and announces it with reason ACTION"""
        return [{"k": "pin", "port": fr[1], "bid": self.alloc(fr), "reason": 1} for a in acts if a[0] == 0 and a[1] == CONTROLLER]
    def apply_buffer(self, bid, acts):
        if bid != 0 and bid - 1 < len(self.slots) and self.slots[bid - 1] is not None:
            ln, port = self.slots[bid - 1]
            out = self.to_controller((ln, port), acts)              # while the old buffer is still held
            self.slots[bid - 1] = None
            return out + [{"k": "rel", "id": bid, "len": ln, "port": port, "acts": acts}]
        if bid != 0 and bid - 1 < len(self.slots): return [{"k": "err", "t": 1, "c": 7}]
        return [{"k": "err", "t": 1, "c": 8}]
    def command(self, op):
        c = op["cmd"]
        if c == ADD: return self.add(op)
        if c in (MODIFY, MODIFY_STRICT): return self.modify(op, c == MODIFY_STRICT)
        if c in (DELETE, DELETE_STRICT): return self.delete(op, c == DELETE_STRICT)
        return [{"k": "err", "t": 3, "c": 4}]
    def add(self, op):
        fl = op["flags"]
        if fl & EMERG:
            if op["idle"] or op["hard"]: return [{"k": "err", "t": 3, "c": 3}]
            if fl & SEND_FLOW_REM: return [{"k": "err", "t": 3, "c": 2}]
            return [{"k": "err", "t": 3, "c": 0}]
        f = {"m": op["m"], "prio": op["prio"], "acts": op["acts"], "cookie": op["cookie"], "flags": fl, "idle": op["idle"], "hard": op["hard"],
             "t0": self.now, "tu": self.now, "pk": 0, "by": 0}
        if fl & CHECK_OVERLAP and any(flow_rank(g) == flow_rank(f) and v_overlaps(g["m"], f["m"], self.variant) for g in self.flows):
            return [{"k": "err", "t": 3, "c": 1}]
        rest = [g for g in self.flows if not (v_identical(g["m"], op["m"], self.variant) and g["prio"] == op["prio"])]
        if len(rest) >= self.cap: return [{"k": "err", "t": 3, "c": 0}]
        k = 0
        while k < len(rest) and flow_rank(rest[k]) > flow_rank(f): k += 1
        self.flows = rest[:k] + [f] + rest[k:]
        return []
    def modify(self, op, strict):
        hit = [selected(f, op["m"], op["prio"], strict, self.variant) for f in self.flows]
        if not any(hit): return self.add(op)
        self.flows = [dict(f, acts=op["acts"]) if h else f for f, h in zip(self.flows, hit)]
        return []
    def delete(self, op, strict):
        hit = [selected(f, op["m"], op["prio"], strict, self.variant) and port_ok(f, op["out_port"]) for f in self.flows]
        gone = [f for f, h in zip(self.flows, hit) if h]
        self.flows = [f for f, h in zip(self.flows, hit) if not h]
        return notifications(self.now, 2, gone)
    def idle_exp(self, f): return f["idle"] != 0 and f["tu"] + f["idle"] * 1000 < self.now
    def hard_exp(self, f): return f["hard"] != 0 and f["t0"] + f["hard"] * 1000 < self.now
    def step(self, op, ph=None, ln=None):
        k = op["op"]
        if k == "batch":                                     # several flow-mods in one read: one after the other
            out = []
            for sub in op["ops"]: out += self.step(sub)
            return out
        if k == "fm":
            out = self.command(op)
            if op["cmd"] <= DELETE_STRICT and op.get("buf") is not None: out = out + self.apply_buffer(op["buf"], op["acts"])
            return out
        if k == "adv": self.now += op["dt"]; return []
        if k == "sweep":
            idle = [f for f in self.flows if self.idle_exp(f)]
            hard = [f for f in self.flows if not self.idle_exp(f) and self.hard_exp(f)]
            self.flows = [f for f in self.flows if not (self.idle_exp(f) or self.hard_exp(f))]
            return notifications(self.now, 0, idle) + notifications(self.now, 1, hard)
        if k == "pkt":
            h = spec_headers(ph, op["port"])
            for i, f in enumerate(self.flows):
                if spec_match(f["m"], h):
                    self.flows = self.flows[:i] + [dict(f, pk=f["pk"] + 1, by=f["by"] + ln, tu=self.now)] + self.flows[i + 1:]
                    return self.to_controller((ln, op["port"]), f["acts"])
            return [{"k": "pin", "port": op["port"], "bid": self.alloc((ln, op["port"])), "reason": 0}]
        sub = plain_subsumes if self.variant == "stats-request-not-unwired" else (lambda a, b: v_subsumes(a, b, self.variant))
        fs = [f for f in self.flows if sub(op["m"], f["m"]) and port_ok(f, op["out_port"])]
        if k == "fstats":
            return [{"k": "fs", "l": [[f["m"]] + dur(self.now, f) + [f["prio"], f["idle"], f["hard"], f["cookie"], f["pk"], f["by"], f["acts"]] for f in fs]}]
        return [{"k": "as", "pk": sum(f["pk"] for f in fs), "by": sum(f["by"] for f in fs), "n": len(fs)}]
    def view(self):
        return [[f["prio"], flow_rank(f), f["m"], f["acts"], f["cookie"], f["flags"], f["idle"], f["hard"], f["t0"], f["tu"], f["pk"], f["by"]]
                for f in self.flows]

# ------------------------------------------------------------------ alphabet
def rec(flags_wild, sc=32, dc=32, **kw):
    r = [mkwild(flags_wild, sc, dc)] + [0] * 12
    names = {"in_port": IN_PORT, "dl_src": DL_SRC, "dl_dst": DL_DST, "dl_vlan": DL_VLAN, "pcp": PCP, "dl_type": DL_TYPE, "tos": TOS, "proto": PROTO,
             "nw_src": NW_SRC, "nw_dst": NW_DST, "tp_src": TP_SRC, "tp_dst": TP_DST}
    for k, v in kw.items(): r[names[k]] = v
    return r
def but(*fs): return [f for f in ALLF if f not in fs]

MAC1, MAC2 = 0x000000000001, 0x000000000002
M_ALL = rec(ALLF)
M_INPORT1 = rec(but(IN_PORT), in_port=1)
M_IP = rec(but(DL_TYPE), dl_type=0x0800)
M_IP_B = rec(but(DL_TYPE, TP_SRC), dl_type=0x0800)                     # same flow, tp_src bit clear (ignored: nw_proto wildcarded)
M_NET8 = rec(but(DL_TYPE), sc=24, dl_type=0x0800, nw_src=0x0a000000)
M_TCP80 = rec(but(DL_TYPE, PROTO, TP_DST), dl_type=0x0800, proto=6, tp_dst=80)
M_NET16_P1 = rec(but(DL_TYPE, IN_PORT), sc=16, dl_type=0x0800, nw_src=0x0a010000, in_port=1)
M_EXACT = rec([], 0, 0, in_port=1, dl_src=MAC1, dl_dst=MAC2, dl_vlan=0xffff, pcp=0, dl_type=0x0800, tos=0, proto=6, nw_src=0x0a010101,
              nw_dst=0x0a020202, tp_src=1000, tp_dst=80)
M_ARP = rec(but(DL_TYPE), dl_type=0x0806)
M_DST2 = rec(but(DL_DST), dl_dst=MAC2)
M_DST16 = rec(but(DL_TYPE), dc=16, dl_type=0x0800, nw_dst=0x0a020000)          # overlaps M_NET8 without containment
M_NET8_O = rec(but(DL_TYPE), sc=24, dl_type=0x0800, nw_src=0x0b000000)         # disjoint from M_NET8
MATCHES = [M_ALL, M_INPORT1, M_IP, M_NET8, M_TCP80, M_NET16_P1, M_EXACT, M_ARP, M_DST2, M_IP_B, M_DST16, M_NET8_O]
BUF_ACTS = [0, 1, 2, 3, 4, 6, 7, 8, 9, 10, 11, 12, 13]                     # indices of ACTS usable in a flow-mod that names a buffer (see expected_emits)
PRIOS = [10, 100, 0xffff]
RARE_PRIOS = [0, 1, 32767, 32768, 65534]                                     # signed/unsigned boundaries, falsy 0
RARE_COOKIES = [0, 1, 2 ** 63, 2 ** 64 - 1]
RARE_PORTS = [0, P_IN_PORT, P_FLOOD, P_ALL, CONTROLLER, P_LOCAL, 0xff00]                     # out_port filters: falsy 0 and the virtual ports
# max_len is 0 on physical ports: ofp_action_output.pack() itself rewrites it to 0 unless the port is CONTROLLER (so a stats reply
# would change the stored action; noted in the report, outside the property)
ACTS = [[[0, 2, 0]], [[0, 3, 0]], [[0, 2, 0], [0, 3, 0]], [], [[1, 3, 0], [0, 2, 0]], [[1, 1, 5]], [[0, 4, 0], [0, 2, 0]],
        [[0, 2, 0], [0, CONTROLLER, 64]], [[0, CONTROLLER, 128], [0, CONTROLLER, 0]],   # outputs to the controller: stored + packet-in (ACTION)
        [[0, 0, 0]], [[0, P_FLOOD, 0], [0, 2, 0]], [[0, P_IN_PORT, 0]], [[0, P_ALL, 0]], [[0, P_LOCAL, 0], [0, 3, 0]]]   # port 0 and virtual ports

def fm(cmd, m, prio=100, flags=0, out_port=NONE, acts=None, idle=0, hard=0, cookie=0, buf=None):
    return {"op": "fm", "cmd": cmd, "m": list(m), "cookie": cookie, "idle": idle, "hard": hard, "prio": prio, "out_port": out_port, "flags": flags,
            "acts": [list(a) for a in (ACTS[0] if acts is None else acts)], "buf": buf}

# deviations of the unchanged code from the standard: inputs replayed from the `_defect` theorems of Properties/C04.lean
M_NET8A = rec(but(DL_TYPE), sc=24, dl_type=0x0800, nw_src=0x0a090909)
M_NET8B = rec(but(DL_TYPE), sc=24, dl_type=0x0800, nw_src=0x0a010101)
M_ALL_HI = [0xffffffff] + [0] * 12
M_ARP_Q = rec(but(DL_TYPE, TP_SRC), dl_type=0x0806)
M_ARP_EXACT = rec([], 0, 0, in_port=1, dl_src=MAC1, dl_dst=MAC2, dl_vlan=0xffff, pcp=0, dl_type=0x0806, tos=0, proto=1, nw_src=0x0a000001,
                  nw_dst=0x0a000002, tp_src=0, tp_dst=0)
M_ALL_RAWIP = rec(ALLF, sc=24, dl_type=0x0800, nw_src=0x0a000000)
M_TOS0 = rec(but(DL_TYPE, TOS), dl_type=0x0800, tos=0)
M_TOS2 = rec(but(DL_TYPE, TOS), dl_type=0x0800, tos=2)
TOS_VALUES = [0, 1, 2, 3, 4, 5, 0x14, 0x15, 0xfc, 0xff]          # each ECN bit alone and both, under equal and different DSCP, extremes
def m_tos(t): return rec(but(DL_TYPE, TOS), dl_type=0x0800, tos=t)
M_ARP_REQ = rec(but(DL_TYPE, PROTO), dl_type=0x0806, proto=1)
WITNESSES = {
    # partial_overlap_witness (D23, repaired by fixes/D23_check_overlap_true_overlap.diff): in_port=1 and dl_type=0x0800 overlap
    # (an IP packet on port 1) but neither subsumes the other; the unrepaired code installs both
    "partial_overlap_witness": [fm(ADD, M_INPORT1, 100, CHECK_OVERLAP, cookie=1), fm(ADD, M_IP, 100, CHECK_OVERLAP, cookie=2)],
    # strict_hostbits_defect (C04-1): 10.9.9.9/8 and 10.1.1.1/8 are the same flow, not replaced
    "strict_hostbits_defect": [fm(ADD, M_NET8A, 100, cookie=1), fm(ADD, M_NET8B, 100, cookie=2)],
    # undefined_bits_defect (C04-2): match-all installed as 0xffffffff survives DELETE of OFPFW_ALL
    "undefined_bits_defect": [fm(ADD, M_ALL_HI, 100, cookie=1), fm(DELETE, M_ALL, 0, cookie=2)],
    # stats_unwired_defect (C04-3): aggregate stats for an ARP description with the ignored tp_src bit clear
    "stats_unwired_defect": [fm(ADD, M_ARP, 100, cookie=1), {"op": "astats", "m": M_ARP_Q, "out_port": NONE}],
    # exact_rank_defect (C03's D26): an exact ARP flow of priority 1 must stand in front of a wildcarded flow of priority 100
    "exact_rank_defect": [fm(ADD, M_ARP_EXACT, 1, cookie=1), fm(ADD, M_INPORT1, 100, cookie=2)],
    # C03's D38: dl_type wildcarded with 0x0800 left in the field: nw_src is ignored, the flow is match-all and gets replaced
    "wildcarded_prereq": [fm(ADD, M_ALL_RAWIP, 100, cookie=1), fm(ADD, M_ALL, 100, cookie=2)],
}
# ------------------------------------------------------------------ one flow, many spellings on the wire
# A 40-byte ofp_match says more than the flow it denotes: wildcard bits 22..31 are undefined, a prefix count above 32 means 32,
# the wildcard bits and values of fields whose prerequisite is not specified are ignored, a wildcarded field still carries a value,
# address bits below the prefix and the two ECN bits of nw_tos do not take part.  Wherever the code normalises one of these it must
# do so for what it STORES and for what it COMPARES; the specification's table knows the flow only.  `spellings` lists other
# records of the same flow (each checked here against the transcription: same packets, same rank), the histories of
# `spelling_cases` / `respell` use a different spelling in every operation on a flow.
HI_PATTERNS = [1 << k for k in range(10)] + [0x3ff, 0x2aa, 0x155]          # bits 22..31: each alone, all, alternating
def with_hi(r, hi):
    s = list(r); s[W] = (r[W] & 0x3fffff) | (hi & 0x3ff) << 22
    return s
JUNK = {IN_PORT: 7, DL_SRC: 0x0badc0ffee00, DL_DST: 0xffffffffffff, DL_VLAN: 0x0123, PCP: 5, DL_TYPE: 0x0800, TOS: 0xfd, PROTO: 6, TP_SRC: 80, TP_DST: 65535}

def spellings(r, cfg, hi_patterns=HI_PATTERNS):
    """other wire records of the flow `r` (never `r` itself).  cfg: the repairs the tree under test has (probe_variant) — a spelling
    in the input class of a finding that tree still has is left out, as everywhere in the generators."""
    r = list(r)
    out = []
    def put(s):
        if s != r and s not in out and spec_identical(r, s) and spec_rank_sig(100, s) == spec_rank_sig(100, r): out.append(s)
    if cfg[1]:
        for hi in hi_patterns: put(with_hi(r, hi))
    n_hi = len(out)
    # prefix counts: 32..63 all mean "ignore the address"; without IPv4/ARP specified the address is ignored whatever the count says
    for shift, ign, f in ((8, ign_src, NW_SRC), (14, ign_dst, NW_DST)):
        if ign(r) == 32:
            for c in (32, 33, 47, 63):
                s = list(r); s[W] = r[W] & ~(63 << shift) | c << shift; put(s)
                if cfg[0]: s = list(s); s[f] = 0x0a010203; put(s)                 # ... and the address field holds anything
        if not nw_specified(r) and (not wild(r, DL_TYPE) or cfg[4]):
            s = list(r); s[W] = r[W] & ~(63 << shift) | 8 << shift; s[f] = 0x0a000000; put(s)
        if 0 < ign(r) < 32 and nw_specified(r) and cfg[0]:                       # address bits below the prefix
            s = list(r); s[f] = r[f] ^ 1; put(s)
            s = list(r); s[f] = r[f] | ((1 << ign(r)) - 1); put(s)
    # wildcard bit and value of a field the prerequisites make the switch ignore
    for f in (TOS, PROTO, TP_SRC, TP_DST):
        if not significant(r, f) and (not wild(r, DL_TYPE) or cfg[4]) and (f in (TOS, PROTO) or not wild(r, PROTO) or cfg[4]):
            s = list(r); s[W] = r[W] ^ (1 << c03.BIT[f]); s[f] = JUNK[f]; put(s)
    # a wildcarded field still carries a value (the prerequisite fields only where the tree has C03's repair D38)
    s = list(r)
    for f in ALLF:
        if wild(r, f) and (f not in (DL_TYPE, PROTO) or cfg[4]): s[f] = JUNK[f]
    put(s)
    if significant(r, TOS) and cfg[6]:                                           # ECN bits of the ToS byte
        for x in (1, 2, 3): s = list(r); s[TOS] = r[TOS] ^ x; put(s)
    # combinations: the all-ones word, OFPFW_ALL with and without the undefined bits
    if cfg[1]:
        for base in list(out[n_hi:]): put(with_hi(base, 0x3ff))
        if r[W] & 0x3fffff == mkwild(ALLF, 32, 32):
            put([0xffffffff] + r[1:]); put([0x3fffff] + r[1:]); put([0xffc00000 | mkwild(ALLF, 32, 32)] + r[1:])
    return out

# witnesses that belong to a C03 finding: the oracle is applied only when the tree under test has that repair (index into self.cfg:
# 3 arpLow8, 4 prereqExact, 5 exactSig — read off the source by c03 —, 6 tosDscp — probed); the model-vs-code tie always runs
C03_GATED = {"exact_rank_defect": 5, "wildcarded_prereq": 4, "arp_opcode_high": 3, "tos_ecn_defect": 6}


class C04(Check):
    id = "C04"
    prop_module = "PoxModel.Properties.C04"
    lean_targets = ["drv_c04"]
    driver = "drv_c04"
    theorems = []            # filled in below
    anchors = [("pox/datapaths/switch.py", "SoftwareSwitchBase._handle_FlowTableModification"), ("pox/datapaths/switch.py", "SoftwareSwitchBase._rx_flow_mod"),
               ("pox/datapaths/switch.py", "SoftwareSwitchBase._lookup_packet"), ("pox/datapaths/switch.py", "SoftwareSwitchBase._buffer_packet"),
               ("pox/datapaths/switch.py", "SoftwareSwitchBase._process_actions_for_packet_from_buffer"),
               ("pox/datapaths/switch.py", "SoftwareSwitchBase._flow_mod_add"), ("pox/datapaths/switch.py", "SoftwareSwitchBase._flow_mod_modify"),
               ("pox/datapaths/switch.py", "SoftwareSwitchBase._flow_mod_modify_strict"), ("pox/datapaths/switch.py", "SoftwareSwitchBase._flow_mod_delete"),
               ("pox/datapaths/switch.py", "SoftwareSwitchBase._flow_mod_delete_strict"), ("pox/datapaths/switch.py", "SoftwareSwitchBase._unwire_match"),
               ("pox/datapaths/switch.py", "SoftwareSwitchBase._stats_flow"), ("pox/datapaths/switch.py", "SoftwareSwitchBase._stats_aggregate"),
               ("pox/openflow/flow_table.py", "TableEntry.__init__"), ("pox/openflow/flow_table.py", "TableEntry.from_flow_mod"),
               ("pox/openflow/flow_table.py", "TableEntry.effective_priority"), ("pox/openflow/flow_table.py", "TableEntry.is_matched_by"),
               ("pox/openflow/flow_table.py", "TableEntry.touch_packet"), ("pox/openflow/flow_table.py", "TableEntry.is_idle_timed_out"),
               ("pox/openflow/flow_table.py", "TableEntry.is_hard_timed_out"), ("pox/openflow/flow_table.py", "TableEntry.flow_stats"),
               ("pox/openflow/flow_table.py", "TableEntry.to_flow_removed"), ("pox/openflow/flow_table.py", "FlowTable.add_entry"),
               ("pox/openflow/flow_table.py", "FlowTable.matching_entries"), ("pox/openflow/flow_table.py", "FlowTable.flow_stats"),
               ("pox/openflow/flow_table.py", "FlowTable.aggregate_stats"), ("pox/openflow/flow_table.py", "FlowTable._remove_specific_entries"),
               ("pox/openflow/flow_table.py", "FlowTable.remove_expired_entries"), ("pox/openflow/flow_table.py", "FlowTable.remove_matching_entries"),
               ("pox/openflow/flow_table.py", "FlowTable.entry_for_packet"), ("pox/openflow/flow_table.py", "FlowTable.check_for_overlapping_entry"),
               ("pox/openflow/flow_table.py", "_matches_overlap")]
    design_ref = "DESIGN.md §5 C04, §6 D23, C04-1/2/3 (fixed); C03's D36 incl. _matches_overlap (fixes/C04_D36_tos_dscp.diff; the tree's state is probed, see code_variant)"
    technique = ("Lean 4 proof (invariants over all operation histories; per-operation refinement of the hand-written switch model to a transcription of the "
                 "OpenFlow 1.0 §4.6/§4.7 flow table, lifted to histories by induction; bit-level lemmas tying ofp_match.__eq__ / matches_with_wildcards / "
                 "_matches_overlap to 'same packet set' / subsumption / overlap, and the proposed repairs to the standard's view of a match) + differential "
                 "correspondence of the compiled model against the real SoftwareSwitch over OpenFlow bytes + independent spec oracle")
    level_text = ("Theorems (all states / all histories, no bounds, both code variants HEAD / repaired): table_sorted, table_sorted_prefix (descending effective priority after every "
                  "prefix); no_duplicates; removed_once + departures_leave (each entry leaving by idle timeout, hard timeout or DELETE[_STRICT] that carries SEND_FLOW_REM yields exactly one "
                  "flow-removed with that reason, its age and counters; ADD incl. replacement, MODIFY incl. modify-as-add, unknown commands, buffer release, traffic, clock and stats yield "
                  "none); expiry_window (a sweep removes an entry iff a deadline is strictly before now; only traffic refreshes the idle clock, nothing the hard clock); clock_inv; "
                  "flowmod_refines_partial / history_refines_partial (for every history of regular events the model's table, counters, stored buffers and every message incl. the "
                  "flow-removed stream — removed_stream_refines — equal the standard's: ADD replace/overlap incl. CIDR/full/emergency, MODIFY[_STRICT] incl. acts-as-add, DELETE[_STRICT] "
                  "with out_port filter, unknown command, buffer_id release with BUFFER_UNKNOWN/EMPTY, packet accounting and miss buffering, sweeps, flow/aggregate stats); "
                  "history_refines_repaired (with the three proposed repairs only C03's open findings D38/D36/D26 remain as hypotheses); selection_meaning, overlap_meaning, "
                  "overlap_check_exact; undefined_bits_absent (records that differ in wildcard bits 22..31 only give the handlers the same match object: same stored entry, same strict / "
                  "non-strict / out_port selection whichever spelling installed or names the flow). The unrestricted statement history_refines_full is kept and refuted for both variants (history_refines_full_defect_head / _repaired); "
                  "strict_hostbits_defect, undefined_bits_defect, stats_unwired_defect witness C04-1/2/3 at HEAD and their repair; partial_overlap_witness, cidr_overlap_witness "
                  "are D23's inputs. Every witness is replayed on the real switch on every run. "
                  "flowmod/history_refines also prove that the 40 match bytes each flow-removed / flow-stats message carries (match.pack()) denote exactly the flow's packets (FaithfulOut); "
                  "step_keeps: hypothesis-free, no step other than sweep / DELETE / ADD-replacement takes an entry out. OpOk is state-dependent: a frame's ECN bits matter only without repair D36 "
                  "and only while some installed flow compares nw_tos; flow-mods must carry actions the model follows (actsOk: no output:TABLE; outputs only around output:CONTROLLER, which is modelled "
                  "— pool slot + packet-in reason ACTION). TRUSTED READINGS of the standard that Spec/OF10Table shares with the code: CHECK_OVERLAP compares rank (exact above all priorities) where "
                  "§4.6 says 'same priority'; an identical flow with CHECK_OVERLAP is refused before replacement; deadlines are strict (>), seen at sweeps; idle wins over hard; newest flow wins ties.")
    level_note = ("Trusted: Lean kernel, axioms propext/Classical.choice/Quot.sound, the hand-written Model/FlowMod.lean (+ C03's Model/Match, Model/FlowTable, C18's BufPool.Pool/alloc), the "
                  "transcriptions Spec/OF10Table.lean and Spec/OF10Match.lean, this harness (virtual clock, byte encoders/parsers, frame header extraction, the probe that tells which code "
                  "variant is under test). The theorems are about the model; the per-run correspondence (exhaustive histories to length 3 over a 16-event alphabet, random histories to "
                  "length 60, through real OpenFlow bytes into _rx_flow_mod / _rx_stats_request / rx_packet) ties it to the code.")
    trusted_base = ["model Model/FlowMod.lean hand-written from switch.py (_rx_flow_mod, _flow_mod_*, _process_actions_for_packet_from_buffer, _buffer_packet, _handle_FlowTableModification, "
                    "rx_packet, _stats_flow/_stats_aggregate) and flow_table.py; tied by this correspondence run",
                    "Spec/OF10Table.lean: hand transcription of OpenFlow 1.0 §4.6 (flow-mod commands), §4.7 (timeouts, flow-removed), §5.3.3 (buffer_id), §5.3.5 (flow/aggregate stats); its "
                    "Python twin in harness/c04.py is cross-checked against it on every case",
                    "harness/swnet.py + poxenv.clock (virtual time.time in multiples of 1/8 s, exact in binary64); frames' header tuples read off the real parsed packet (C03's phdr_of)",
                    "code-variant probe (harness/c04.py probe_variant): the model's Cfg (all seven flags) is chosen from the real switch's behaviour on witness inputs; C03's source-shape "
                    "detection is recorded as a cross-check only; the oracle does not depend on either",
                    "observation uses public attributes (table.entries, entry fields, match attributes) and the wire; the one private read (the switch's buffer list) degrades to wire-only "
                    "observation when its shape is not the expected one"]
    assumptions = ["sweeps are explicit events (`FlowTable.remove_expired_entries()` called under the virtual clock); the recoco Timer that calls it every 2 s in ExpireMixin is not started",
                   "a released buffer is observed through the frames the switch emits; flow-mods that name a buffer carry only outputs to physical ports / strip_vlan (what actions do to a frame is C12, "
                   "re-buffering through output:CONTROLLER is C18)",
                   "frames arrive on existing, enabled ports and are complete IPv4/ARP/other frames without ECN bits (C03's `regular` / D36)",
                   "refinement hypotheses (WireOk): wildcarded dl_type/nw_proto fields are zero on the wire (D38), ToS without ECN bits (D36), exact matches are IPv4 TCP/UDP/ICMP (D26); at HEAD also "
                   "no address bits below the prefix (C04-1), no undefined wildcard bits (C04-2), stats-request matches canonical (C04-3) — these three fall away in the repaired variant",
                   "the Spec resolves choices the standard leaves open as the code does: among matching flows of equal rank the newest is hit; an entry past both deadlines is reported IDLE_TIMEOUT; "
                   "emergency flow-mods are refused (cache unsupported) with the code's error codes; MODIFY/DELETE ignore OFPFF_EMERG; MODIFY does not touch the cookie; a named buffer is released "
                   "through the flow-mod's actions for every defined command even when the command is refused or is a DELETE, without touching any flow's counters; buffer ids are allocated by C18's pool",
                   "ofp_action_output.pack() rewrites max_len to 0 for non-controller ports, so a flow-stats reply changes that field of the stored action; the harness uses max_len 0 on physical ports"]
    rule = ("case = (max_entries, max_buffers, history over flow-mods {5 commands + unknown x 12 overlapping matches (two encodings of one flow, exact, nested/partially overlapping/disjoint prefixes) x "
            "3 priorities x flags SEND_FLOW_REM/CHECK_OVERLAP/EMERG x out_port filters x 7 action lists x idle/hard timeouts x buffer ids (live, used, unknown, 0)}, frames on ports (hits and buffered "
            "misses), clock advances in 1/8 s, sweeps, flow/aggregate stats requests); corpus = defect witnesses + all histories of length <= 3 over a 16-event alphabet + expiry-boundary / replace / "
            "table-full / emergency / buffer / unknown-command / CIDR-overlap seeds + the HARDENING.md families (same frame / same stats request twice with each kind of change in between; "
            "earliest-deadline grid; flows sharing one action list; priorities 0/1/32767/32768/65534/65535, cookies 0/2^63/2^64-1, timeouts 1/65535 s, out_port 0 and virtual ports in filters and "
            "actions; tables of capacity 0/1/3 exactly full; several flows expiring at one sweep for different reasons, both deadlines of one flow between two sweeps; several messages in ONE read "
            "(`batch`)); the SPELLINGS family: every operation on a flow written as another wire record of the same flow (undefined wildcard bits 22..31 each alone / all / "
            "0xffffffff / OFPFW_ALL|high, prefix counts 33..63, wildcard bits and values of fields the prerequisites make ignored, values left in wildcarded fields, address bits below "
            "the prefix, ECN bits) on the first operation, the second, both, for every command in either place, traffic / statistics / a sweep in between; random histories are "
            "respelt the same way with probability 0.3; case modes: `decoy` (a second switch in the same process gets the same events in reverse order, interleaved) and `no_data` (rx_packet without packet_data); "
            "non-trivial = a flow-removed is written or the table holds >= 2 entries")
    coverage_cases = 400

    def setup(self):
        poxenv.boot()
        import swnet, pox.openflow.libopenflow_01 as of
        import pox.lib.packet as pkt
        from pox.lib.addresses import IPAddr, EthAddr
        self.swnet, self.of, self.pkt, self.IPAddr, self.EthAddr = swnet, of, pkt, IPAddr, EthAddr
        self.c03 = c03.C03()
        try: self.c03.setup()
        except Exception:                       # only phdr_of/parse are needed from it; its variant is a cross-check
            self.c03.pkt, self.c03.IPAddr, self.c03.EthAddr, self.c03.of = pkt, IPAddr, EthAddr, of
        self._frames = None
        self._ecn_case = False
        self._spell = {}
        self.pool_seen = True
        self.cfg = self.probe_variant()
        # is the buffer store observable the way this harness knows?  (one miss must show as one occupied slot)
        self.pool_seen = self.impl({"max": 1, "ops": [{"op": "pkt", "frame": self.frames()[3], "port": 3}]})["steps"][-1]["pool"] == [1]

    def probe_variant(self):
        """which of the proposed repairs C04-1/2/3 the tree under test has: the model mirrors the code *as it stands* (Cfg in
        Model/FlowMod.lean).  Decided by the behaviour of the real switch on the three witness inputs; the oracle never looks at it."""
        def last(name): return self.impl({"max": 100, "ops": copy.deepcopy(WITNESSES[name])})["steps"][-1]
        strict_mutual = len(last("strict_hostbits_defect")["table"]) == 1
        mask_undefined = len(last("undefined_bits_defect")["table"]) == 0
        stats_unwire = last("stats_unwired_defect")["outs"] == [{"k": "as", "pk": 0, "by": 0, "n": 1}]
        fr = self.frames()
        def hit(flow, frame, port):      # does `frame` hit `flow`?
            return self.impl({"max": 100, "ops": [fm(ADD, flow, 100, cookie=1), {"op": "pkt", "frame": frame, "port": port}]})["steps"][-1]["table"][0][10] == 1
        tos_dscp = hit(M_TOS0, fr[5], 1)                                                    # D36: ECN-marked frame against nw_tos=0
        arp_low8 = hit(M_ARP_REQ, fr[6], 3)                                                 # D37: ARP opcode 257 against nw_proto=1
        prereq_exact = len(last("wildcarded_prereq")["table"]) == 1                         # D38: the raw-IP match-all gets replaced
        exact_sig = last("exact_rank_defect")["table"][0][4] == 1                           # D26: the exact ARP flow stands first
        cfg = [strict_mutual, mask_undefined, stats_unwire, arp_low8, prereq_exact, exact_sig, tos_dscp]
        # cross-check only: what C03's harness decided for the same tree (never an abort)
        try: self.c03_says = list(self.c03.variant)
        except Exception as e: self.c03_says = "unavailable: %s" % type(e).__name__
        return cfg

    def extra_evidence(self):
        return {"code_variant": dict(zip(["C04-1 strictMutual", "C04-2 maskUndefined", "C04-3 statsUnwire", "D37 arpLow8", "D38 prereqExact",
                                          "D26 exactSig", "D36 tosDscp"], self.cfg)),
                "code_variant_decided_by": "behaviour of the real switch on witness inputs",
                "buffer_store_observed": "slots of the switch's buffer list" if self.pool_seen else "from the wire only (unknown representation)",
                "c03_variant_cross_check": {"c03": self.c03_says, "agrees": (self.c03_says[:4] == self.cfg[3:3 + len(self.c03_says[:4])]) if isinstance(self.c03_says, list) else None}}

    # ---------------------------------------------------------------- frames (real packet library)
    def frames(self):
        if self._frames is None:
            P, IP, E = self.pkt, self.IPAddr, self.EthAddr
            def eth(t, payload, src=MAC1, dst=MAC2):
                e = P.ethernet(src=E(src.to_bytes(6, "big")), dst=E(dst.to_bytes(6, "big")), type=t); e.payload = payload
                return e.pack()
            def ip(src, dst, proto, l4, tos=0):
                i = P.ipv4(srcip=IP(src), dstip=IP(dst), protocol=proto, tos=tos); i.payload = l4
                return i
            tcp = P.tcp(srcport=1000, dstport=80, off=5, win=1); tcp.payload = b"x" * 20
            udp = P.udp(srcport=53, dstport=5353); udp.payload = b"y" * 7
            tcp2 = P.tcp(srcport=1000, dstport=22, off=5, win=1)
            arp = P.arp(opcode=1, hwsrc=E(b"\0\0\0\0\0\1"), protosrc=IP("10.0.0.1"), protodst=IP("10.0.0.2"))
            self._frames = [
                eth(0x0800, ip("10.1.1.1", "10.2.2.2", 6, tcp)).hex(),          # matches every IP match of the alphabet on port 1
                eth(0x0800, ip("11.0.0.1", "10.2.2.2", 17, udp)).hex(),         # IP, outside 10/8, not TCP
                eth(0x0800, ip("10.9.0.1", "10.2.2.2", 6, tcp2), dst=MAC1).hex(),  # 10/8 but not 10.1/16, port 22, other dl_dst
                eth(0x0806, arp).hex(),
                eth(0x88b5, b"z" * 30, dst=MAC1).hex(),                        # matches only the all-wildcard / in_port flows
                eth(0x0800, ip("10.1.1.1", "10.2.2.2", 6, tcp, tos=2)).hex(),  # frames[0] with ECT(0) in the ToS byte (D36's input)
                eth(0x0806, P.arp(opcode=257, hwsrc=E(b"\0\0\0\0\0\1"), protosrc=IP("10.0.0.1"), protodst=IP("10.0.0.2"))).hex(),  # D37's input
                eth(0x0800, ip("10.1.1.1", "10.2.2.2", 6, tcp, tos=0x15)).hex(),  # DSCP 5 with ECT(1)   } used only where the tree under test
                eth(0x0800, ip("10.1.1.1", "10.2.2.2", 6, tcp, tos=0xff)).hex(),  # DSCP 63 with CE      } compares DSCP (D36 repaired)
            ]
        return self._frames

    def phdr(self, hexframe):
        ph, wf = self.c03.phdr_of(self.c03.parse(hexframe))
        assert wf == 2, "harness frame not well-formed"
        return ph

    # ---------------------------------------------------------------- real code
    def match_view(self, m):
        """a real ofp_match through its public attributes only: the wildcard word and the attribute views (wildcarded -> 0)"""
        out = [m.wildcards]
        for name in ("in_port", "dl_src", "dl_dst", "dl_vlan", "dl_vlan_pcp", "dl_type", "nw_tos", "nw_proto", "nw_src", "nw_dst", "tp_src", "tp_dst"):
            v = getattr(m, name)
            if v is None: out.append(0)
            elif name in ("dl_src", "dl_dst"): out.append(int.from_bytes(v.toRaw(), "big"))
            elif name in ("nw_src", "nw_dst"): out.append(self.IPAddr(v).toUnsigned())
            else: out.append(int(v))
        return out

    def entry_view(self, e):
        of = self.of
        acts = []
        for a in e.actions:
            if isinstance(a, of.ofp_action_output): acts.append([0, a.port, a.max_len])
            elif isinstance(a, of.ofp_action_vlan_vid): acts.append([1, 1, a.vlan_vid])
            else: acts.append([1, a.type, 0])
        ms = lambda t: int(t * 1000)
        assert ms(e.created) == e.created * 1000 and ms(e.last_touched) == e.last_touched * 1000
        return [e.priority, e.effective_priority, self.match_view(e.match), acts, e.cookie, e.flags, e.idle_timeout, e.hard_timeout,
                ms(e.created), ms(e.last_touched), e.packet_count, e.byte_count]

    def drive(self, node, op, xid, no_data):
        """apply one event to a switch node"""
        k = op["op"]
        if k == "fm": node.w._push_receive_data(flow_mod_bytes(op, xid))
        elif k == "batch":                                                                    # several messages in ONE read
            node.w._push_receive_data(b"".join((flow_mod_bytes if o["op"] == "fm" else stats_req_bytes)(o, xid + i) for i, o in enumerate(op["ops"])))
        elif k in ("fstats", "astats"): node.w._push_receive_data(stats_req_bytes(op, xid))
        elif k == "pkt":
            fr = bytes.fromhex(op["frame"])
            if no_data: node.sw.rx_packet(self.pkt.ethernet(fr), op["port"])              # the other calling convention
            else: node.sw.rx_packet(self.pkt.ethernet(fr), op["port"], packet_data=fr)
        elif k == "adv":
            assert op["dt"] % 125 == 0
            poxenv.clock.advance(op["dt"] / 1000.0)
        elif k == "sweep": node.sw.table.remove_expired_entries()
        else: raise ValueError(k)

    def pool_of(self, node):
        """the buffer store, a private list of (packet, in_port) or None per slot; None when it no longer has the shape this harness
        knows (then stored buffers are judged by what the wire shows only: ids in packet-ins, frames sent on release)"""
        try:
            b = node.sw._packet_buffer
            if isinstance(b, list) and all(x is None or (isinstance(x, tuple) and len(x) == 2) for x in b): return list(b)
        except Exception: pass
        return None

    def events_tell(self, ids_before, events, entries, outs):
        """the table's announcements of one step, replayed on the set of entries it held before, must give the entries it holds now
        (each arrival and each departure announced exactly once, nothing else), and the departures announced with a timeout / DELETE
        reason by flows that ask for it are exactly the flow-removed messages of the step, in order.  None, or what is wrong."""
        cur = list(ids_before)
        told = []
        for added, removed, reason in events:
            for e in added:
                if id(e) in cur: return "announced as added but already in the table (cookie %d)" % e.cookie
                cur.append(id(e))
            for e in removed:
                if id(e) not in cur: return "announced as removed but not in the table (cookie %d)" % e.cookie
                cur.remove(id(e))
                if reason in (0, 1, 2) and e.flags & SEND_FLOW_REM and not e.flags & EMERG: told.append([e.cookie, reason])
        if sorted(cur) != sorted(id(e) for e in entries):
            return "the table's announcements (FlowTableModification) do not add up to its change: %d arrivals/departures unannounced" % len(set(cur) ^ set(id(e) for e in entries))
        sent = [[o["cookie"], o["reason"]] for o in outs if o["k"] == "fr"]
        if told != sent: return "flow-removed messages %s, departures announced %s" % (sent, told)
        return None

    def impl(self, case):
        poxenv.clock.now = T0 / 1000.0
        node = self.swnet.SwitchNode(ports=4, max_entries=case["max"], max_buffers=case.get("bufs", 100))
        # a second switch in the same process, driven with the same events in reverse order between the steps of the first: the two
        # must not share anything (class-level caches, module-level memo tables)
        decoy = self.swnet.SwitchNode(dpid=2, ports=4, max_entries=case["max"], max_buffers=case.get("bufs", 100)) if case.get("decoy") else None
        decoy_ops = [o for o in reversed(case["ops"]) if o["op"] != "adv"] if decoy else []
        steps = []
        xid = 100
        # the table announces its changes (FlowTableModification: added / removed / reason): recorded per step
        events = []
        try:
            from pox.openflow.flow_table import FlowTableModification
            node.sw.table.addListener(FlowTableModification, lambda e: events.append((list(e.added), list(e.removed), e.reason)))
            heard = True
        except Exception: heard = False
        for n_op, op in enumerate(case["ops"]):
            del events[:]
            try: ids_before = [id(e) for e in node.sw.table.entries]
            except Exception: heard = False
            node.w.send_buf = b""
            node.emitted = []
            before = self.pool_of(node)
            st = "ok"
            try:
                xid += 10
                if decoy and n_op < len(decoy_ops): self.drive(decoy, decoy_ops[n_op], 9000 + 10 * n_op, False)
                self.drive(node, op, xid, case.get("no_data", False))
            except Exception as e:
                st = "raise:" + type(e).__name__
                node.w.receive_buf = b""
            if node.w.closed: st = "closed"
            try: outs = parse_out(bytes(node.w.send_buf))
            except Exception as e: outs = [{"k": "unparsable", "why": type(e).__name__}]
            # a buffer released by this step: its slot went from a stored (packet, in_port) to None; what was emitted meanwhile
            after = self.pool_of(node)
            emits = [[p, len(fr)] for p, fr in node.emitted]
            if before is None or after is None or len(after) < len(before):
                after = None
                if emits and op["op"] == "fm": outs.append({"k": "rel", "id": None, "emits": emits})     # seen from the ports only
            else:
                freed = [i for i, b in enumerate(before) if b is not None and after[i] is None]
                for i in freed:
                    pk, port = before[i]
                    outs.append({"k": "rel", "id": i + 1, "len": len(pk.pack()), "port": port, "emits": emits})
                if not freed and emits and op["op"] == "fm":
                    outs.append({"k": "emitted-without-release", "n": len(emits)})
            steps.append({"st": st, "outs": outs, "table": [self.entry_view(e) for e in node.sw.table.entries],
                          "pool": None if after is None else [0 if b is None else 1 for b in after],
                          "ev": self.events_tell(ids_before, events, node.sw.table.entries, outs) if heard and st == "ok" else None})
        return {"steps": steps}

    # ---------------------------------------------------------------- model / spec through the driver
    def model_ops(self, case):
        ops = []
        for op in case["ops"]:
            if op["op"] == "pkt":
                ops.append({"op": "pkt", "phdr": self.phdr(op["frame"]), "port": op["port"], "len": len(op["frame"]) // 2})
            elif op["op"] == "batch": ops += op["ops"]           # the model takes the messages of one read one after the other
            else: ops.append(op)
        return ops

    def regroup(self, case, steps, tabkey):
        """fold the model's / Lean Spec's steps of a batch into one: messages concatenated, state after the last"""
        out, i = [], 0
        for op in case["ops"]:
            n = len(op["ops"]) if op["op"] == "batch" else 1
            grp = steps[i:i + n]; i += n
            if n == 0: out.append({"outs": [], tabkey: out[-1][tabkey] if out else [], "pool": out[-1]["pool"] if out else []}); continue
            out.append(dict(grp[-1], outs=[o for g in grp for o in g["outs"]]))
        return out

    def model_request(self, case):
        return {"now": T0, "max": case["max"], "bufs": case.get("bufs", 100), "cfg": self.cfg, "ops": self.model_ops(case)}

    def spec_run(self, case, variant=None, upto=None):
        t = SpecTable(T0, case["max"], variant, case.get("bufs", 100))
        out = []
        for op in case["ops"][:upto]:
            if op["op"] == "pkt": o = t.step(op, self.phdr(op["frame"]), len(op["frame"]) // 2)
            else: o = t.step(op)
            out.append({"outs": o, "flows": t.view(), "pool": [0 if b is None else 1 for b in t.slots]})
        return out

    def first_ambiguous(self, case):
        """index of the first step at which a frame matches TWO entries of equal effective priority (the standard leaves open which one is
        used — and so whose counters move and what is emitted); from there on the history is not judged"""
        key = id(case)
        if getattr(self, "_amb_memo", (None, None))[0] == key: return self._amb_memo[1]
        t = SpecTable(T0, case["max"], None, case.get("bufs", 100)); res = None
        for n, op in enumerate(case["ops"]):
            subs = op["ops"] if op["op"] == "batch" else [op]
            if any(o["op"] == "pkt" for o in subs) and op["op"] == "pkt":
                h = spec_headers(self.phdr(op["frame"]), op["port"])
                m = [f for f in t.flows if spec_match(f["m"], h)]
                if len(m) >= 2 and flow_rank(m[0]) == flow_rank(m[1]): res = n; break
            if op["op"] == "pkt": t.step(op, self.phdr(op["frame"]), len(op["frame"]) // 2)
            else: t.step(op)
        self._amb_memo = (key, res)
        return res

    @staticmethod
    def _canon_steps(steps, amb, tkey):
        """steps up to the first ambiguous lookup, with what the standard leaves unordered put into a canonical order: entries inside a run
        of equal effective priority, the flows of a statistics reply, consecutive flow-removed messages of one step"""
        out = []
        for st in steps[:amb] if amb is not None else steps:
            if not isinstance(st, dict) or tkey not in st: out.append(st); continue
            st = dict(st)
            tab, i, new = st[tkey], 0, []
            while i < len(tab):
                j = i
                while j < len(tab) and tab[j][1] == tab[i][1]: j += 1
                new += sorted(tab[i:j], key=lambda e: json.dumps(e, sort_keys=True)); i = j
            st[tkey] = new
            outs, i, newo = st.get("outs") or [], 0, []
            while i < len(outs):
                o = outs[i]
                if isinstance(o, dict) and o.get("k") == "fs": newo.append(dict(o, l=sorted(o["l"], key=lambda e: json.dumps(e, sort_keys=True)))); i += 1
                elif isinstance(o, dict) and o.get("k") == "fr":
                    j = i
                    while j < len(outs) and isinstance(outs[j], dict) and outs[j].get("k") == "fr": j += 1
                    newo += sorted(outs[i:j], key=lambda e: json.dumps(e, sort_keys=True)); i = j
                else: newo.append(o); i += 1
            st["outs"] = newo
            out.append(st)
        return out

    def model_obs(self, case, resp):
        if "error" in resp: return resp
        # a release is observed on the real switch through what it emits: translate the model's (frame, actions) accordingly
        model = [dict(st, outs=[rel_view(o) if o["k"] == "rel" else o for o in st["outs"]]) for st in resp["model"]]
        if not self.pool_seen: model = [dict(st, outs=blind_rel(st["outs"]), pool=None) for st in model]
        amb = self.first_ambiguous(case)
        return {"model": self._canon_steps(self.regroup(case, model, "table"), amb, "table"), "spec": self._canon_steps(self.regroup(case, resp["spec"], "flows"), amb, "flows")}

    def impl_view(self, case, obs):
        # left: the real code's observables (compared with the Lean model); right: the Python transcription of the standard
        # (compared with Lean's Spec on every case, so the oracle below and the theorems speak about the same specification)
        amb = self.first_ambiguous(case)
        return {"model": self._canon_steps([{"outs": s["outs"], "table": s["table"], "pool": s["pool"]} if s["st"] == "ok" else s for s in obs["steps"]], amb, "table"),
                "spec": self._canon_steps(self.spec_run(case), amb, "flows")}

    # ---------------------------------------------------------------- the property, on the real code's observables
    @staticmethod
    def _pair_runs(got, want):
        """index of the first entry of `got` that has no partner in the specification's table, pairing freely inside runs of equal
        effective priority (got[i][1]); None if everything pairs up"""
        i = 0
        while i < len(got):
            j = i
            while j < len(got) and got[j][1] == got[i][1]: j += 1
            rest = list(want[i:j])
            for off, g in enumerate(got[i:j]):
                k = next((k for k, w in enumerate(rest) if g[0] == w[0] and g[3:] == w[3:] and spec_identical(g[2], w[2])), None)
                if k is None: return i + off
                rest.pop(k)
            i = j
        return None

    @staticmethod
    def _align_fr_runs(go, wo):
        """the specification's messages with every run of consecutive flow-removed messages reordered to follow the implementation's run
        (same positions, same multiset): which of several entries removed by ONE command or ONE sweep is announced first is not specified"""
        wo = list(wo); i = 0
        while i < len(wo):
            if wo[i]["k"] != "fr": i += 1; continue
            j = i
            while j < len(wo) and wo[j]["k"] == "fr": j += 1
            run, out = wo[i:j], []
            for g in go[i:j]:
                k = next((k for k, w in enumerate(run) if g.get("k") == "fr" and {x: v for x, v in g.items() if x != "m"} == {x: v for x, v in w.items() if x != "m"}
                          and spec_identical(g["m"], w["m"])), None)
                if k is None: break
                out.append(run.pop(k))
            wo[i:j] = out + run
            i = j
        return wo

    def compare(self, case, obs, spec):
        """first step at which the real code's observables differ from the specification's `spec`: (step index, text) or None"""
        amb = self.first_ambiguous(case)
        for n, (op, s, sp) in enumerate(zip(case["ops"], obs["steps"], spec)):
            if amb is not None and n >= amb: return None          # a frame matched two entries of equal priority: unspecified from here on
            where = "step %d %s" % (n, op["op"] if op["op"] != "fm" else "fm%d" % op["cmd"])
            if s["st"] != "ok": return n, "%s: %s" % (where, s["st"])
            if s.get("ev"): return n, "%s: %s" % (where, s["ev"])
            # installed entries, their actions, clocks and counters = the specification's table
            got, want = s["table"], sp["flows"]
            if len(got) != len(want):
                return n, "%s: table has %d entries, specification %d" % (where, len(got), len(want))
            # (the order of entries of EQUAL effective priority is left open by the standard and by the property: inside such a run the
            #  entries are paired up whatever their order; between runs the order is exact)
            i = self._pair_runs(got, want)
            if i is not None:
                return n, "%s: entry %d differs from the specification's (prio/match/actions/cookie/flags/timeouts/clocks/counters)" % (where, i)
            eff = [g[1] for g in got]
            if any(a < b for a, b in zip(eff, eff[1:])): return n, "%s: table not sorted by effective priority" % where
            if s["pool"] is not None and s["pool"] != sp["pool"]: return n, "%s: stored buffers %s, specification %s" % (where, s["pool"], sp["pool"])
            # messages: exactly the specification's, flow-removed matched on every field, its match up to encoding
            go, wo = s["outs"], sp["outs"]
            if s["pool"] is None: wo = blind_rel(wo)   # buffer store not observable: a release shows by the frames it sends, and only then
            if len(go) != len(wo) or [o["k"] for o in go] != [o["k"] for o in wo]:
                return n, "%s: messages %s, specification %s" % (where, [self._brief(o) for o in go], [self._brief(o) for o in wo])
            wo = self._align_fr_runs(go, wo)                    # several removals in one step: their notifications in any order
            for g, w in zip(go, wo):
                if g["k"] == "fr":
                    if {k: v for k, v in g.items() if k != "m"} != {k: v for k, v in w.items() if k != "m"}:
                        return n, "%s: flow-removed fields differ: %s vs %s" % (where, self._brief(g), self._brief(w))
                    if not spec_identical(g["m"], w["m"]): return n, "%s: flow-removed carries a different match" % where
                elif g["k"] == "fs":
                    if len(g["l"]) != len(w["l"]): return n, "%s: flow-stats has %d flows, specification %d" % (where, len(g["l"]), len(w["l"]))
                    rest = list(w["l"])                       # the order of the flows in a statistics reply is not specified: a multiset
                    for a in g["l"]:
                        k = next((k for k, b in enumerate(rest) if a[1:] == b[1:] and spec_identical(a[0], b[0])), None)
                        if k is None: return n, "%s: flow-stats entry differs" % where
                        rest.pop(k)
                elif g["k"] == "rel":
                    if g != (w if w.get("id", 0) is None else rel_view(w)): return n, "%s: buffer release %s, specification %s" % (where, g, rel_view(w))
                elif g != w:
                    return n, "%s: message %s, specification %s" % (where, self._brief(g), self._brief(w))
        return None

    def oracle(self, case, obs):
        if case.get("corr_only"): return None          # model-vs-code tie on a witness whose oracle failure is reported by its twin case
        if case.get("tag") in C03_GATED:               # input class of a C03 finding: judged only if the tree claims that repair
            if not self.cfg[C03_GATED[case["tag"]]]: return None
        r = self.compare(case, obs, self.spec_run(case))
        if r is None: return None
        n, text = r
        # classification (for finding_key only): is the history up to the failing step exactly what one known deviation predicts?
        for v in VARIANTS:
            if self.compare({"max": case["max"], "ops": case["ops"][:n + 1]}, {"steps": obs["steps"][:n + 1]},
                            self.spec_run(case, v, n + 1)) is None:
                return text + " why=" + v
        return text

    def _brief(self, o):
        if o["k"] == "fr": return "fr(cookie=%d,reason=%d,dur=%d.%09d,pk=%d,by=%d)" % (o["cookie"], o["reason"], o["ds"], o["dn"], o["pk"], o["by"])
        if o["k"] == "err": return "err(%d,%d)" % (o["t"], o["c"])
        return o["k"]

    def finding_key(self, case, obs, failure):
        m = re.search(r"why=([\w-]+)", failure)
        if m: return "deviation:" + m.group(1)
        f = re.sub(r"step \d+ ", "", failure)
        return re.sub(r"\d+", "N", f)[:120]

    def nontrivial(self, case, obs):
        ks = [o["k"] for s in obs["steps"] for o in s["outs"]]
        return "fr" in ks or any(len(s["table"]) >= 2 for s in obs["steps"])

    def shrink_candidates(self, case):
        ops = case["ops"]
        for flag in ("decoy", "no_data"):
            if case.get(flag):
                c = copy.deepcopy(case); del c[flag]; yield c
        for i, op in enumerate(ops):
            if op["op"] == "batch":
                c = copy.deepcopy(case); c["ops"][i:i + 1] = c["ops"][i]["ops"]; yield c
                for j in range(len(op["ops"])):
                    c = copy.deepcopy(case); del c["ops"][i]["ops"][j]; yield c
        for i in range(len(ops)):
            c = copy.deepcopy(case); del c["ops"][i]; yield c
        for i, op in enumerate(ops):                                   # a plainer spelling of a match: no undefined bits, only the lowest of them
            if op["op"] in ("fm", "fstats", "astats") and op["m"][W] >> 22:
                c = copy.deepcopy(case); c["ops"][i]["m"][W] &= 0x3fffff; yield c
                low = (op["m"][W] >> 22) & -(op["m"][W] >> 22)
                if low != op["m"][W] >> 22:
                    c = copy.deepcopy(case); c["ops"][i]["m"] = with_hi(op["m"], low); yield c
        for i, op in enumerate(ops):
            if op["op"] == "fm":
                for k, v in (("flags", op["flags"] & CHECK_OVERLAP), ("idle", 0), ("hard", 0), ("out_port", NONE)):
                    if op[k] != v:
                        c = copy.deepcopy(case); c["ops"][i][k] = v; yield c

    # ---------------------------------------------------------------- cases
    def small_alphabet(self):
        fr = self.frames()
        return [
            fm(ADD, M_INPORT1, 100, SEND_FLOW_REM, idle=1, cookie=1),
            fm(ADD, M_IP, 100, SEND_FLOW_REM, hard=1, acts=ACTS[1], cookie=2),
            fm(ADD, M_NET8, 0xffff, 0, acts=ACTS[2], cookie=3),
            fm(ADD, M_INPORT1, 100, CHECK_OVERLAP | SEND_FLOW_REM, acts=ACTS[1], cookie=4),
            fm(MODIFY, M_IP, 100, SEND_FLOW_REM, acts=ACTS[2], cookie=5, idle=2),
            fm(MODIFY_STRICT, M_INPORT1, 100, 0, acts=ACTS[3], cookie=6),
            fm(DELETE, M_ALL, 0, 0, out_port=3),
            fm(DELETE_STRICT, M_INPORT1, 100),
            fm(DELETE_STRICT, M_IP, 10),
            fm(DELETE, M_IP, 100),
            {"op": "pkt", "frame": fr[0], "port": 1},
            {"op": "adv", "dt": 1125},
            {"op": "sweep"},
            {"op": "fstats", "m": M_ALL, "out_port": NONE},
            {"op": "pkt", "frame": fr[3], "port": 3},                       # ARP: a miss unless M_INPORT1/.. match; buffered
            fm(ADD, M_ARP, 100, CHECK_OVERLAP, acts=ACTS[2], cookie=7, buf=1),
        ]

    def corpus(self):
        cases = []
        ecn = {"op": "pkt", "frame": self.frames()[5], "port": 1}
        WITNESSES["arp_opcode_high"] = [fm(ADD, M_ARP_REQ, 100, cookie=1), {"op": "pkt", "frame": self.frames()[6], "port": 3}]
        # tos_ecn_defect (C03's D36): an ECN-marked packet is harmless until a flow compares the ToS byte; then it must still hit the
        # DSCP-0 flow, and the same flow written with another ECN bit replaces it
        WITNESSES["tos_ecn_defect"] = [ecn, fm(ADD, M_TOS0, 100, cookie=1), ecn, fm(ADD, M_TOS2, 100, cookie=2)]
        for name, ops in sorted(WITNESSES.items()):
            cases.append({"max": 100, "ops": copy.deepcopy(ops), "tag": name})
            cases.append({"max": 100, "ops": copy.deepcopy(ops), "tag": name, "corr_only": True})
        A = self.small_alphabet()
        for L in (1, 2, 3):
            for ops in itertools.product(A, repeat=L):
                cases.append({"max": 100, "ops": [copy.deepcopy(o) for o in ops]})
        # hand-written seeds: boundaries of the expiry comparison, idle refresh, replace resets counters, table full
        fr = self.frames()
        adv = lambda dt: {"op": "adv", "dt": dt}
        pk = lambda i, port=1: {"op": "pkt", "frame": fr[i], "port": port}
        sw = {"op": "sweep"}
        cases += [
            {"max": 100, "ops": [fm(ADD, M_IP, 100, SEND_FLOW_REM, idle=1, hard=2, cookie=9), adv(1000), sw, pk(0), adv(1000), sw, adv(125), sw]},
            {"max": 100, "ops": [fm(ADD, M_IP, 100, SEND_FLOW_REM, idle=2, hard=2, cookie=9), adv(2125), sw]},          # both expired: reason idle
            {"max": 100, "ops": [fm(ADD, M_IP, 100, SEND_FLOW_REM, idle=3, hard=2, cookie=9), adv(1000), pk(0), adv(1125), sw]},
            {"max": 100, "ops": [fm(ADD, M_TCP80, 10, 0, cookie=1), pk(0), pk(0), fm(ADD, M_TCP80, 10, SEND_FLOW_REM, cookie=2), {"op": "astats", "m": M_ALL, "out_port": NONE},
                                 fm(MODIFY, M_IP, 5, 0, acts=ACTS[4]), pk(0), {"op": "fstats", "m": M_IP, "out_port": 2}]},
            {"max": 2, "ops": [fm(ADD, M_IP, 100, cookie=1), fm(ADD, M_ARP, 100, cookie=2), fm(ADD, M_ALL, 1, cookie=3), fm(ADD, M_IP, 100, cookie=4),
                               fm(MODIFY, M_DST2, 7, cookie=5), fm(DELETE, M_ARP), fm(MODIFY_STRICT, M_DST2, 7, cookie=6)]},
            {"max": 100, "ops": [fm(ADD, M_IP, 100, EMERG, cookie=1), fm(ADD, M_IP, 100, EMERG | SEND_FLOW_REM), fm(ADD, M_IP, 100, EMERG, idle=1),
                                 fm(MODIFY, M_IP, 100, EMERG | SEND_FLOW_REM, hard=1), fm(MODIFY_STRICT, M_IP, 100, EMERG)]},
            {"max": 100, "ops": [fm(ADD, M_IP, 100, cookie=1), fm(ADD, M_IP_B, 100, cookie=2), fm(DELETE_STRICT, M_IP, 100)]},   # two encodings, one flow
            {"max": 100, "ops": [fm(ADD, M_EXACT, 5, SEND_FLOW_REM, cookie=1), fm(ADD, M_ALL, 0xffff, cookie=2), pk(0), fm(DELETE, M_NET8, out_port=2)]},
            # buffers: two misses, release through ADD / refused ADD / DELETE / MODIFY, reuse of a freed slot, unknown and used ids, pool full
            {"max": 100, "bufs": 2, "ops": [pk(3, 3), pk(4, 2), pk(1, 1), fm(ADD, M_ARP, 100, acts=ACTS[2], cookie=1, buf=1), fm(ADD, M_ARP, 100, CHECK_OVERLAP, cookie=2, buf=2),
                                            fm(DELETE, M_ALL, 0, acts=ACTS[3], buf=2), pk(4, 2), fm(MODIFY, M_IP, 5, acts=ACTS[6], cookie=3, buf=1), fm(ADD, M_IP, 5, cookie=4, buf=0),
                                            fm(DELETE_STRICT, M_IP, 5, buf=7), fm(ADD, M_IP, 100, EMERG, cookie=5, buf=1)]},
            {"max": 100, "bufs": 0, "ops": [pk(3, 3), fm(ADD, M_ARP, 100, buf=1)]},
            # outputs to the controller: on a hit (one and two of them, pool filling up), and while a buffer is being released
            {"max": 100, "bufs": 3, "ops": [fm(ADD, M_IP, 100, acts=ACTS[7], cookie=1), pk(0), pk(3, 3), fm(MODIFY, M_IP, 5, acts=ACTS[8], cookie=2), pk(0), pk(1),
                                            fm(ADD, M_ARP, 100, acts=ACTS[7], cookie=3, buf=2), fm(DELETE, M_ALL, 0, acts=ACTS[8], buf=1), pk(3, 3),
                                            fm(ADD, M_TCP80, 7, acts=ACTS[8], cookie=4, buf=3), pk(0)]},
            {"max": 100, "bufs": 1, "ops": [fm(ADD, M_ALL, 1, acts=ACTS[8], cookie=1), pk(4, 2), pk(4, 2), fm(DELETE_STRICT, M_ALL, 1, acts=ACTS[7], buf=1)]},
            # unknown commands: refused, nothing else happens (not even the buffer)
            {"max": 100, "ops": [pk(3, 3), fm(7, M_ALL, 0, buf=1), fm(0xffff, M_ARP, 100, SEND_FLOW_REM, cookie=1), fm(5, M_ALL, 0), fm(ADD, M_ARP, 100, buf=1)]},
            # CHECK_OVERLAP on address prefixes: nested, partially overlapping, disjoint; other priority; exact flow inside a prefix
            {"max": 100, "ops": [fm(ADD, M_NET8, 100, CHECK_OVERLAP, cookie=1), fm(ADD, M_DST16, 100, CHECK_OVERLAP, cookie=2), fm(ADD, M_NET8_O, 100, CHECK_OVERLAP, cookie=3),
                                 fm(ADD, M_NET16_P1, 100, CHECK_OVERLAP, cookie=4), fm(ADD, M_DST16, 10, CHECK_OVERLAP, cookie=5), fm(ADD, M_EXACT, 100, CHECK_OVERLAP, cookie=6),
                                 fm(MODIFY, M_TCP80, 100, CHECK_OVERLAP, cookie=7), fm(MODIFY_STRICT, M_DST16, 100, CHECK_OVERLAP, cookie=8)]},
        ]
        cases += self.hardening_cases()
        cases += self.spelling_cases()
        return cases

    def spelling_cases(self, full=False):
        """every operation on a flow uses another wire spelling of it (see `spellings`): the first, the second, both, for every
        command in either place, with traffic and statistics in between; all through the switch connection as bytes"""
        fr = self.frames()
        pk = lambda i, port=1: {"op": "pkt", "frame": fr[i], "port": port}
        adv = lambda dt: {"op": "adv", "dt": dt}
        sw = {"op": "sweep"}
        F = SEND_FLOW_REM
        out = []
        def add(ops, **kw): out.append(dict({"max": 100, "ops": copy.deepcopy(ops), "fam": "spell"}, **kw))
        flows = [(M_ALL, pk(4, 2)), (M_NET8, pk(0)), (M_IP, pk(1, 2)), (M_TCP80, pk(0)), (M_ARP, pk(3, 3)), (M_EXACT, pk(0)), (M_INPORT1, pk(4, 1)),
                 (M_DST16, pk(0))] + ([(M_TOS0, pk(5))] if self.cfg[6] else [])
        second = [(ADD, F), (ADD, F | CHECK_OVERLAP), (MODIFY, 0), (MODIFY_STRICT, 0), (DELETE, 0), (DELETE_STRICT, 0)]
        for nf, (r, hit) in enumerate(flows):
            S = spellings(r, self.cfg)
            if not S: continue
            # statistics requests are respelt only where the tree unwires them (C04-3)
            fs = lambda m=M_ALL, port=NONE, r=r: {"op": "fstats", "m": list(m if self.cfg[2] or m is M_ALL else r), "out_port": port}
            ags = lambda m=M_ALL, port=NONE, r=r: {"op": "astats", "m": list(m if self.cfg[2] or m is M_ALL else r), "out_port": port}
            pairs = []
            for j, s in enumerate(S): pairs += [(r, s), (s, r), (s, s), (s, S[(j + 1) % len(S)])]
            # (a) one long history per pair of spellings: every command meets the flow installed under the other spelling
            for j, (s1, s2) in enumerate(pairs):
                first = [ADD, MODIFY, MODIFY_STRICT][j % 3]                         # MODIFY[_STRICT] on an empty table acts as ADD
                # (the replacement restarts the clocks: the flow must survive the sweep at which the replaced entry would have gone)
                add([fm(first, s1, 100, F, acts=ACTS[1], hard=2, cookie=1), hit, adv(1000), fm(ADD, s2, 100, F, acts=ACTS[2], hard=2, cookie=2), hit, fs(s1),
                     adv(1125), sw, fm(MODIFY_STRICT, s1, 100, acts=ACTS[4], cookie=3), fm(MODIFY, s2, 7, acts=ACTS[6], cookie=4), hit, ags(s2, 2),
                     fm(DELETE_STRICT, s2, 99), fm(DELETE_STRICT, s1, 100, out_port=3), fm(DELETE_STRICT, s2, 100, out_port=2),
                     fm(ADD, s1, 100, F | CHECK_OVERLAP, cookie=5), fm(ADD, s2, 100, F | CHECK_OVERLAP, cookie=6), hit, fm(DELETE, s2, 0), fs()])
            # (b) short histories, one per command in second place (so that each has its own failing input), over the undefined
            #     wildcard bits at both ends of the range / all of them and two spellings of the other kinds
            few = [s for s in S if s[W] >> 22 in (1, 0x200, 0x3ff) and s[1:] == list(r)[1:] and (s[W] ^ r[W]) & 0x3fffff == 0] + [s for s in S if s[W] >> 22 == 0][nf % 2::3][:2]
            for j, s in enumerate(S if full else few):               # thorough tier: every spelling
                for (s1, s2) in ((r, s), (s, r), (s, s)) + (((s, S[(j + 1) % len(S)]),) if full else ()):
                    for first in ((ADD,) if s1 is r else (ADD, [MODIFY, MODIFY_STRICT][j % 2]) if full else (ADD, MODIFY, MODIFY_STRICT)):
                        for (cmd, flags) in second:
                            add([fm(first, s1, 100, F, acts=ACTS[1], cookie=1), hit, fm(cmd, s2, 100, flags, acts=ACTS[2], cookie=2), hit, fs(s2)])
            # (c) another flow with the same spelling habits next to it, at another priority: only the named flow is concerned
            other = M_ARP if r is not M_ARP else M_IP
            for s in few[:3]:
                so = (spellings(other, self.cfg, [s[W] >> 22]) or [other])[0]
                add([fm(ADD, so, 100, F, acts=ACTS[1], cookie=8), fm(ADD, s, 50, F, acts=ACTS[1], cookie=1), fm(ADD, r, 100, F, acts=ACTS[2], cookie=2), hit,
                     fm(ADD, s, 50, F, acts=ACTS[3], cookie=3), fm(MODIFY_STRICT, s, 100, acts=ACTS[4], cookie=4), fm(DELETE_STRICT, s, 50), fs(s),
                     fm(DELETE_STRICT, so, 100), fm(DELETE, s), fs()])
        return out

    def respell(self, rng, case):
        """the same history with every flow-mod / statistics request written in a randomly chosen spelling of its flow"""
        def one(op):
            if op["op"] == "batch":
                for o in op["ops"]: one(o)
            elif (op["op"] == "fm" or (op["op"] in ("fstats", "astats") and self.cfg[2])) and rng.random() < 0.7:
                key = tuple(op["m"])
                if key not in self._spell: self._spell[key] = spellings(op["m"], self.cfg)
                m = list(rng.choice(self._spell[key] or [op["m"]]))
                if self.cfg[1] and rng.random() < 0.5: m = with_hi(m, rng.choice([0, rng.getrandbits(10), rng.getrandbits(10), 0x3ff]))
                op["m"] = m
        for op in case["ops"]: one(op)
        case["fam"] = "respell"
        return case

    def hardening_cases(self):
        """the input shapes of HARDENING.md, one family per item"""
        fr = self.frames()
        adv = lambda dt: {"op": "adv", "dt": dt}
        pk = lambda i, port=1: {"op": "pkt", "frame": fr[i], "port": port}
        sw = {"op": "sweep"}
        fs = lambda m=M_ALL, port=NONE: {"op": "fstats", "m": m, "out_port": port}
        ags = lambda m=M_ALL, port=NONE: {"op": "astats", "m": m, "out_port": port}
        F = SEND_FLOW_REM
        out = []
        def add(ops, **kw):
            out.append(dict({"max": 100, "ops": copy.deepcopy(ops)}, **kw))
        # -- item 1: the same question twice with a change in between (lookup memo, "next expiry" shortcut, cached stats)
        between = [[fm(ADD, M_IP, 100, acts=ACTS[2], cookie=2)], [fm(ADD, M_ARP, 100, acts=ACTS[2], cookie=2)], [fm(ADD, M_INPORT1, 0xffff, acts=ACTS[3], cookie=2)],
                   [fm(MODIFY, M_ALL, 10, acts=ACTS[3], cookie=3)], [fm(MODIFY_STRICT, M_ALL, 10, acts=ACTS[4], cookie=3)], [fm(MODIFY, M_IP, 10, acts=ACTS[2])],
                   [fm(DELETE, M_ALL)], [fm(DELETE_STRICT, M_ALL, 10)], [fm(DELETE, M_ALL, out_port=1)], [fm(DELETE, M_ALL, out_port=3)],
                   [fm(ADD, M_ALL, 10, acts=ACTS[2], cookie=4)], [adv(1000), sw], [adv(875), sw], [fm(DELETE_STRICT, M_ALL, 11)]]
        for (i, port) in ((0, 1), (3, 3), (1, 2)):
            for b in between:
                add([fm(ADD, M_ALL, 10, F, acts=ACTS[1], idle=1, cookie=1), pk(i, port), pk(i, port)] + b + [pk(i, port), pk(i, port), fs()])
                add([fs(), fm(ADD, M_ALL, 10, F, acts=ACTS[1], cookie=1), fs(), ags(), pk(i, port), fs(), ags()] + b + [fs(), ags(), fs(M_ALL, 2)])
            # a miss remembered, then a flow arrives; a hit remembered, then the flow leaves and comes back
            add([pk(i, port), pk(i, port), fm(ADD, M_ALL, 10, acts=ACTS[1], cookie=1), pk(i, port), fm(DELETE, M_ALL), pk(i, port),
                 fm(ADD, M_ALL, 10, acts=ACTS[2], cookie=2), pk(i, port)], bufs=2)
        # "next expiry": a later flow, a touch, a MODIFY or a replacement moves the earliest deadline in either direction
        for (i1, h1, i2, h2) in itertools.product((0, 1, 3), (0, 2), (0, 1, 2), (0, 1, 3)):
            for touch in ([], [pk(0)]):
                add([fm(ADD, M_IP, 100, F, idle=i1, hard=h1, cookie=1), adv(500)] + touch + [fm(ADD, M_ARP, 10, F, idle=i2, hard=h2, cookie=2), adv(625), sw, adv(500), sw,
                    adv(500), sw] + touch + [adv(1000), sw, adv(2000), sw, fs()])
        for repl in (fm(ADD, M_IP, 100, F, idle=1, cookie=2), fm(ADD, M_IP, 100, F, hard=5, cookie=2), fm(MODIFY, M_IP, 100, F, idle=1, hard=1, cookie=2),
                     fm(DELETE_STRICT, M_IP, 100)):
            add([fm(ADD, M_IP, 100, F, hard=3, cookie=1), fm(ADD, M_ARP, 10, F, hard=4, cookie=3), adv(1000), repl, adv(1125), sw, adv(1000), sw, adv(1000), sw, adv(2000), sw])
        # -- item 2: one MODIFY gives several flows the same action list; changing one of them later must not change the others
        three = [fm(ADD, M_IP, 100, F, acts=ACTS[1], cookie=1), fm(ADD, M_ARP, 50, F, acts=ACTS[2], cookie=2), fm(ADD, M_NET8, 70, F, acts=ACTS[4], cookie=3)]
        for later in ([fm(MODIFY_STRICT, M_IP, 100, acts=ACTS[5])], [fm(MODIFY, M_ARP, 0, acts=ACTS[6])], [fm(MODIFY, M_IP, 0, acts=[]), fm(MODIFY_STRICT, M_NET8, 70, acts=ACTS[2])],
                      [fm(ADD, M_IP, 100, acts=ACTS[6], cookie=4)], [fm(DELETE, M_IP), fm(MODIFY, M_ARP, 0, acts=ACTS[1])]):
            add(three + [fm(MODIFY, M_ALL, 0, acts=ACTS[3]), fs()] + later + [fs(), pk(0), pk(3, 3), fs(M_ALL, 2), fs(M_ALL, 3), fm(DELETE, M_ALL, out_port=3), fs()])
        # -- item 3: rare values
        ms = [M_ALL, M_IP, M_NET8, M_TCP80, M_INPORT1, M_DST2]
        for order in ([0, 65535, 32768, 1, 32767, 65534], [32768, 32767, 0, 65535, 1, 65534], [65535, 65534, 32768, 32767, 1, 0]):
            adds = [fm(ADD, ms[j], p, F, acts=ACTS[1 + j % 4], cookie=p + 1) for j, p in enumerate(order)]
            add(adds + [pk(0), fs(), fm(DELETE_STRICT, M_ALL, 1), fm(DELETE_STRICT, ms[order.index(0)], 0), pk(0), fm(MODIFY_STRICT, ms[order.index(32768)], 32768, acts=ACTS[5]),
                        fm(MODIFY_STRICT, ms[order.index(32768)], 32767, acts=ACTS[6]), fs(), fm(ADD, M_ALL, 0, CHECK_OVERLAP, cookie=7), fm(ADD, M_IP_B, 32768, CHECK_OVERLAP, cookie=8),
                        fm(DELETE, M_IP, 0), fs()])
            add([fm(ADD, M_IP, p, cookie=p + 1) for p in order] + [pk(0), fs(), fm(DELETE_STRICT, M_IP, 0), fm(DELETE_STRICT, M_IP, 32768), pk(0), fs()])
        for ck in RARE_COOKIES:
            add([fm(ADD, M_IP, 100, F, cookie=ck, hard=1), fs(), pk(0), fm(MODIFY, M_IP, 100, cookie=2 ** 64 - 1 - ck, acts=ACTS[2]), fs(), adv(1000), sw])
            add([fm(ADD, M_IP, 0, F, cookie=ck), fm(ADD, M_ARP, 0, F, cookie=2 ** 64 - 1 - ck), fm(DELETE, M_ALL), fm(MODIFY_STRICT, M_IP, 5, cookie=ck), fs()])
        for (idle, hard) in ((65535, 0), (0, 65535), (65535, 65535), (1, 65535), (65535, 1)):
            big = 65535000
            add([fm(ADD, M_IP, 100, F, idle=idle, hard=hard, cookie=1), adv(875), sw, adv(125), sw, pk(0), adv(big - 1125), sw, adv(125), sw, adv(1000), sw, adv(big), sw, fs()])
        acts_for = [[[0, 0, 0]], [[0, P_FLOOD, 0]], [[0, P_IN_PORT, 0]], [[0, P_ALL, 0]], [[0, CONTROLLER, 64]], [[0, P_LOCAL, 0]], [[0, 2, 0], [0, 0, 0]], []]
        install = [fm(ADD, ms[j % len(ms)], 20 + j, F, acts=a, cookie=j + 1) for j, a in enumerate(acts_for)]
        for q in RARE_PORTS + [2]:
            add(install + [fs(M_ALL, q), ags(M_ALL, q), fm(MODIFY, M_ALL, 0, out_port=q, acts=ACTS[3]), fm(DELETE_STRICT, M_ALL, 20, out_port=q), fm(DELETE, M_ALL, out_port=q), fs()])
            add(install + [fm(DELETE_STRICT, ms[6 % len(ms)], 26, out_port=q), fm(DELETE, M_IP, out_port=q), fs(M_ALL, NONE)])
        add(install + [pk(0), pk(0, 2), pk(3, 3), pk(1, 4)], bufs=3)
        # a table exactly full: replacing is allowed, anything that needs a slot is refused, one DELETE frees exactly one slot
        for cap in (0, 1, 3):
            fill = [fm(ADD, ms[j], 10 + j, F, cookie=j + 1) for j in range(cap)]
            add(fill + [fm(ADD, M_ARP, 50, cookie=9), fm(MODIFY, M_ARP, 50, cookie=10), fm(MODIFY_STRICT, M_ARP, 50, cookie=11)] +
                ([fm(ADD, ms[0], 10, cookie=12, acts=ACTS[2]), fm(ADD, ms[0], 10, CHECK_OVERLAP, cookie=13), fm(DELETE_STRICT, ms[0], 10), fm(ADD, M_ARP, 50, cookie=14),
                  fm(ADD, M_DST16, 50, cookie=15), fs()] if cap else [fs()]), max=cap)
            add([pk(3, 3)] + fill + [fm(ADD, M_ARP, 50, acts=ACTS[2], cookie=9, buf=1), pk(3, 3), fs()], max=cap)      # refused ADD and its buffer
        # -- item 5: several things at one instant
        for dt in (1000, 1125, 2000, 2125):
            for touch in ([], [pk(0)], [pk(3, 3)]):
                add([fm(ADD, M_IP, 50, F, idle=1, cookie=1), fm(ADD, M_ARP, 90, F, hard=1, cookie=2), fm(ADD, M_NET8, 70, F, idle=2, hard=1, cookie=3), fm(ADD, M_ALL, 5, F, cookie=4),
                     fm(ADD, M_TCP80, 60, 0, idle=1, hard=2, cookie=5), fm(ADD, M_DST2, 80, F, idle=2, hard=2, cookie=6), adv(500)] + touch + [adv(dt - 500), sw, fs(), sw, adv(1000), sw])
        for (idle, hard) in ((1, 2), (2, 1), (1, 1), (2, 2), (1, 3)):
            for touch in ([], [adv(500), pk(0), adv(500), pk(0)]):                    # both deadlines of one flow pass between two sweeps: ONE message
                add([fm(ADD, M_IP, 100, F, idle=idle, hard=hard, cookie=1), sw] + touch + [adv(3125), sw, sw, fs()])
        bt = lambda *ops: {"op": "batch", "ops": [copy.deepcopy(o) for o in ops]}
        a1, a2, a3 = fm(ADD, M_IP, 100, F, cookie=1, acts=ACTS[1]), fm(ADD, M_ARP, 50, F, cookie=2, acts=ACTS[2]), fm(ADD, M_IP, 100, F | CHECK_OVERLAP, cookie=3)
        add([bt(a1, a2, a3), pk(0), bt(fm(DELETE, M_IP), a1, fm(DELETE_STRICT, M_ARP, 50), fm(MODIFY, M_ALL, 0, acts=ACTS[3])), fs()])
        add([bt(a1, fm(DELETE, M_ALL), a1, fm(DELETE, M_ALL)), bt(a2, fm(ADD, M_ARP, 50, CHECK_OVERLAP, cookie=4), fm(7, M_ALL), fs(), fm(DELETE, M_ALL, out_port=2), ags()), bt()])
        add([bt(a1, a2), adv(1000), bt(fm(ADD, M_NET8, 70, F, hard=1, cookie=5), fm(MODIFY, M_IP, 100, acts=ACTS[4])), adv(1000), sw, bt(fm(DELETE, M_ALL), fs())], max=2)
        # -- the ToS byte (only the six DSCP bits count, in every comparison: lookup, identity, subsumption, overlap): every ordered
        #    pair of ToS values as installed flow / new flow with and without CHECK_OVERLAP, strict operations with the other ECN bits
        if self.cfg[6]:
            for t1, t2 in itertools.product(TOS_VALUES, TOS_VALUES):
                add([fm(ADD, m_tos(t1), 100, F, acts=ACTS[1], cookie=1), fm(ADD, m_tos(t2), 100, F | CHECK_OVERLAP, acts=ACTS[2], cookie=2), pk(0), pk(5), pk(7), pk(8),
                     fm(MODIFY_STRICT, m_tos(t2 ^ 1), 100, acts=ACTS[3], cookie=3), fs(m_tos(t1 ^ 3)), fm(ADD, m_tos(t2 ^ 2), 100, F, cookie=4), fm(DELETE_STRICT, m_tos(t1 ^ 3), 100),
                     fm(DELETE, m_tos(t2)), fs()])
        # -- items 1/2 (two instances in one process) and 4 (the other calling convention): the same histories again
        n = len(out)
        for j in range(0, n, 3): out.append(dict(copy.deepcopy(out[j]), decoy=True))
        for j in range(1, n, 3): out.append(dict(copy.deepcopy(out[j]), no_data=True))
        return out

    def rand_op(self, rng, tier):
        r = rng.random()
        fr = self.frames()
        if r < 0.5:
            cmd = rng.choice([ADD, ADD, ADD, MODIFY, MODIFY_STRICT, DELETE, DELETE_STRICT])
            flags = rng.choice([0, 0, SEND_FLOW_REM, SEND_FLOW_REM, SEND_FLOW_REM | CHECK_OVERLAP, CHECK_OVERLAP])
            if rng.random() < 0.04: flags |= EMERG
            if rng.random() < 0.03: cmd = rng.choice([5, 7, 0xffff])
            buf = rng.choice([1, 1, 2, 3, 0, 9]) if rng.random() < 0.2 else None
            base = MATCHES if (self.cfg[6] or not self._ecn_case) else [m for m in MATCHES if m is not M_EXACT]   # see generate()
            pool = (base + ([M_ARP_EXACT] if self.cfg[5] else []) + ([M_ALL_RAWIP] if self.cfg[4] else []) +   # input classes of D26 / D38 /
                    ([M_TOS0, M_TOS2, m_tos(rng.choice(TOS_VALUES)), m_tos(rng.choice(TOS_VALUES))] if self.cfg[6] else []))   # D36 once repaired
            rare = rng.random() < 0.12
            return fm(cmd, rng.choice(pool), rng.choice(RARE_PRIOS if rare else PRIOS), flags,
                      out_port=(rng.choice(RARE_PORTS if rare else [NONE, NONE, 2, 3, 4]) if cmd in (DELETE, DELETE_STRICT) else rng.choice([NONE, 2, 0])),
                      acts=(ACTS[rng.choice(BUF_ACTS)] if buf is not None else rng.choice(ACTS)), idle=rng.choice([0, 0, 1, 2, 3]),
                      hard=rng.choice([0, 0, 1, 3, 5]), cookie=(rng.choice(RARE_COOKIES) if rare else rng.randint(0, 2 ** 64 - 1)), buf=buf)
        if r < 0.7:      # incl. the ECN-marked frame when the history may carry one
            return {"op": "pkt", "frame": rng.choice((fr[:6] + fr[7:9]) if self.cfg[6] else fr[:6] if self._ecn_case else fr[:5]), "port": rng.choice([1, 1, 2, 3])}
        if r < 0.82: return {"op": "adv", "dt": rng.choice([125, 500, 875, 1000, 1125, 2000, 3125])}
        if r < 0.93: return {"op": "sweep"}
        return {"op": rng.choice(["fstats", "astats"]), "m": rng.choice([M_ALL, M_ALL, M_IP, M_NET8, M_INPORT1]), "out_port": rng.choice([NONE, NONE, 2, 3, 0, CONTROLLER])}

    def rand_batch(self, rng, tier):
        """several controller messages in one read (flow-mods without buffer, statistics requests)"""
        ops = []
        while len(ops) < rng.choice([2, 2, 3, 4]):
            o = self.rand_op(rng, tier)
            if o["op"] == "fm": o["buf"] = None; ops.append(o)
            elif o["op"] in ("fstats", "astats"): ops.append(o)
        return {"op": "batch", "ops": ops}

    def generate(self, rng, tier):
        if tier == "thorough":            # all histories of length 4 over the 14-event alphabet
            A = self.small_alphabet()
            for ops in itertools.product(A, repeat=4):
                yield {"max": 100, "ops": [copy.deepcopy(o) for o in ops]}
            for c in self.spelling_cases(full=True): yield c
        n = 1500 if tier == "quick" else 15000
        for _ in range(n):
            L = rng.choice([5, 12, 30, 60, rng.randint(1, 60)])
            # without repair D36 an ECN-marked frame is harmless only while no installed flow compares nw_tos (OpOk's state-dependent
            # clause): such histories either carry ECN-marked frames and no ToS-comparing flow, or the other way round
            self._ecn_case = rng.random() < 0.5
            case = {"max": rng.choice([100, 100, 100, 2, 3, 5]), "bufs": rng.choice([100, 100, 0, 1, 2, 3]),
                    "ops": [(self.rand_batch(rng, tier) if rng.random() < 0.06 else self.rand_op(rng, tier)) for _ in range(L)]}
            mode = rng.random()
            if mode < 0.12: case["decoy"] = True            # a second switch in the same process gets the same events in another order
            elif mode < 0.22: case["no_data"] = True        # rx_packet(packet, port) without the packed bytes
            if rng.random() < 0.3: case = self.respell(rng, case)   # every operation in another wire spelling of its flow
            yield case


C04.theorems = ["Pox.C04." + t for t in (
    "table_sorted", "table_sorted_init", "table_sorted_prefix", "no_duplicates", "removed_once", "departures_leave", "expiry_window", "step_keeps",
    "clock_inv", "flowmod_refines_partial", "history_refines_partial", "regular_repaired", "histOk_repaired", "history_refines_repaired",
    "removed_stream_refines", "selection_meaning", "overlap_meaning", "overlap_check_exact", "partial_overlap_witness", "cidr_overlap_witness",
    "strict_hostbits_defect", "undefined_bits_defect", "undefined_bits_absent", "stats_unwired_defect", "exact_rank_defect", "tos_ecn_defect",
    "history_refines_full_defect_head")]
CHECK = C04
