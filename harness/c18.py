"""C18 — packet buffers are unique, released exactly once, and bounded (DESIGN §5 C18)."""
import itertools
import common, poxenv
from common import Check

def frame(i, n):
    """a distinguishable Ethernet frame of n >= 14 bytes"""
    hdr = bytes([0, 0, 0, 0, 0, (i % 250) + 2, 0, 0, 0, 0, 0, 1]) + bytes([0x88, 0xb5])      # local experimental ethertype
    body = bytes((i * 7 + k) & 0xff for k in range(max(0, n - 14)))
    return hdr + body

class C18(Check):
    id = "C18"
    prop_module = "PoxModel.Properties.C18"
    lean_targets = ["drv_c18"]
    driver = "drv_c18"
    theorems = ["Pox.C18.reachable_inv", "Pox.C18.bounded", "Pox.C18.unique_live", "Pox.C18.use_once", "Pox.C18.packet_in_form", "Pox.C18.unbuffered_iff_full", "Pox.C18.use_to_controller",
                "Pox.C18.refines_step", "Pox.C18.refines", "Pox.C18.refines_init", "Pox.C18.spec_step_sound"]
    anchors = [("pox/datapaths/switch.py", "SoftwareSwitchBase.send_packet_in"), ("pox/datapaths/switch.py", "SoftwareSwitchBase._buffer_packet"),
               ("pox/datapaths/switch.py", "SoftwareSwitchBase._process_actions_for_packet_from_buffer"), ("pox/datapaths/switch.py", "SoftwareSwitchBase._rx_packet_out")]
    design_ref = "DESIGN.md §5 C18"
    technique = "Lean 4 proof (invariant over all operation histories tying the ids handed to the controller to the slot list) + differential correspondence through the byte-level switch connection"
    level_text = ("Refinement (refines_step/refines/refines_init): every history of the buffer code is a history of the abstract specification SpecStep — a map from outstanding ids to frames in which a new buffer gets any unused non-zero id while fewer than max are outstanding, a full pool answers with the whole frame and no id, an outstanding id is released exactly once with its own frame, any other id does nothing — with the controller's view as abstraction map; spec_step_sound: the specification itself never exceeds max and never reuses an outstanding id. "
                  "Theorems reachable_inv/bounded/unique_live/use_once/packet_in_form hold for every history of arrivals, buffer uses and set-config, every pool size and frame: "
                  "stored packets never exceed max_buffers, an id handed out was not outstanding, using an outstanding id emits exactly its frame once, any other id emits nothing, "
                  "packet-in carries the true total length and either the whole frame without id (pool full) or the first miss_send_len/max_len bytes. "
                  "Each run re-checks the hand-written model against the real SoftwareSwitch over real OpenFlow bytes on exhaustive short histories and random histories to length 60.")
    level_note = ("Trusted: Lean kernel, standard axioms, hand-written Model/BufPool.lean, harness/swnet.py. Actions applied to a released packet are abstracted to 'emit frame' "
                  "(what actions do to a frame is C12); the harness releases with a single output:IN_PORT action so the stored ingress port is observable.")
    trusted_base = ["model Model/BufPool.lean hand-written from switch.py _buffer_packet/_process_actions_for_packet_from_buffer/send_packet_in; tied by this correspondence run"]
    assumptions = ["single-threaded datapath (cooperative tasks): buffer operations are not interleaved",
                   "the action list a buffer release runs does not raise: _process_actions_for_packet_from_buffer clears the slot after the actions ran, without try/finally, so a raising action handler would leave the id usable again (whether an action can raise on a well-formed request is C12's subject)",
                   "frames used by the harness parse as Ethernet (>= 14 bytes)",
                   "the pool stores the parsed ethernet object and emission re-packs it, the model stores bytes: they agree where pack(parse(frame)) = frame (C14's round trip; C12-3/C12-4 are the known exceptions)",
                   "release towards the controller is modelled for ONE output:CONTROLLER in the action list (op usectl); an action list with several CONTROLLER outputs, or output:TABLE causing a further table miss while the old slot is occupied, is not an op of the model (the pool bound `bounded` does not depend on it: alloc never exceeds max)"]
    rule = ("case = (max_buffers 0..4, miss_send_len, history over {miss arrival, output:CONTROLLER(max_len) arrival, packet_out(buffer id), flow_mod(buffer id), the same with an empty action list (drop), "
            "stale/bogus/zero ids, set_config, a flow_mod WITHOUT buffer id installing an entry that covers an ingress port, a flow_mod naming a buffer that is refused (unknown command / unsupported action) (model: `other`, pool untouched)}); corpus = all histories of length <= 4 over a 12-op alphabet with pool sizes 0..2; non-trivial = some id is handed out and later used, or the pool fills")

    def setup(self):
        poxenv.boot()
        import swnet, pox.openflow.libopenflow_01 as of
        self.swnet, self.of = swnet, of

    ALPHA = [{"op": "arrive", "i": 0, "len": 20, "port": 1, "dl": None}, {"op": "arrive", "i": 1, "len": 14, "port": 2, "dl": 3},
             {"op": "use", "id": 1, "via": "po"}, {"op": "use", "id": 2, "via": "fm"}, {"op": "use", "id": 0, "via": "po"},
             {"op": "use", "id": 3, "via": "po"}, {"op": "setmiss", "n": 16}, {"op": "usectl", "id": 1, "dl": 7, "via": "po"},
             {"op": "drop", "id": 1, "via": "po"}, {"op": "use", "id": 1, "via": "pod"}, {"op": "install", "inport": 2, "out": 4},
             {"op": "fmbad", "id": 1, "why": "cmd"}]

    def corpus(self):
        cases = []
        for mx in (0, 1, 2):
            for L in range(1, 5):
                if L == 4 and mx == 0: continue
                for ops in itertools.product(self.ALPHA, repeat=L):
                    cases.append({"max": mx, "miss": 5, "ops": list(ops)})
        return cases

    def _rand_op(self, rng, mx, k, covered=()):
        r = rng.random()
        if r < 0.42:
            port = rng.randint(1, 4)
            # a port covered by an installed entry never sees a table miss: its packets reach the controller by output:CONTROLLER
            dls = [0, 1, 14, 128, 65535, rng.randint(0, 300)] + ([] if port in covered else [None, None])
            return {"op": "arrive", "i": k, "len": rng.choice([14, 15, 20, 64, 128, 129, 200, rng.randint(14, 300)]), "port": port, "dl": rng.choice(dls)}
        if r < 0.435:
            return {"op": "fmbad", "id": rng.choice([0, 1, 1, 2, 2, 3, mx, mx + 1]), "why": rng.choice(["cmd", "act"])}
        if r < 0.45:
            p = rng.randint(1, 4)
            return {"op": "install", "inport": p, "out": rng.choice([q for q in (1, 2, 3, 4) if q != p])}
        if r < 0.52:
            return {"op": "drop", "id": rng.choice([0, 1, 1, 2, 2, 3, mx, mx + 1, rng.randint(0, mx + 2)]), "via": rng.choice(["po", "po", "fm"])}
        if r < 0.75:
            return {"op": "use", "id": rng.choice([0, 1, 1, 2, 2, 3, mx, mx + 1, rng.randint(0, mx + 2), 0xfffffffe]), "via": rng.choice(["po", "po", "fm", "pod"])}
        if r < 0.9:
            return {"op": "usectl", "id": rng.choice([0, 1, 1, 2, 2, 3, mx, mx + 1, rng.randint(0, mx + 2)]), "dl": rng.choice([0, 5, 128, 65535, rng.randint(0, 300)]),
                    "via": rng.choice(["po", "po", "fm"])}
        return {"op": "setmiss", "n": rng.choice([0, 1, 14, 128, 65535, rng.randint(0, 300)])}

    def generate(self, rng, tier):
        n = 250 if tier == "quick" else 6000
        for _ in range(n):
            mx = rng.randint(0, 4)
            L = rng.choice([3, 8, 20, 60, rng.randint(1, 60)])
            ops, covered = [], set()
            for k in range(L):
                op = self._rand_op(rng, mx, k, covered)
                if op["op"] == "install": covered.add(op["inport"])
                ops.append(op)
            yield {"max": mx, "miss": rng.choice([0, 5, 128, 65535]), "ops": ops}

    def impl(self, case):
        of = self.of
        node = self.swnet.SwitchNode(ports=4, max_buffers=case["max"], miss_send_len=case["miss"])
        outs = []
        def pins(replies, extra_ok=()):
            res = []
            for r in replies:
                if isinstance(r, of.ofp_packet_in):
                    res.append({"k": "pin", "bid": r.buffer_id, "data": r.data.hex(), "total": r.total_len, "port": r.in_port})
                else:
                    res.append({"k": "other", "type": type(r).__name__})
            return res
        for op in case["ops"]:
            if op["op"] == "arrive":
                fr = frame(op["i"], op["len"])
                if op["dl"] is None:
                    st, rep, em = node.rx(fr, op["port"])
                else:
                    st, rep, em = node.send(of.ofp_packet_out(data=fr, in_port=op["port"],
                                                              actions=[of.ofp_action_output(port=of.OFPP_CONTROLLER, max_len=op["dl"])]))
                o = pins(rep)
                if st != "ok" or em or len(o) != 1: o = [{"k": "unexpected", "status": st, "emitted": len(em), "replies": o}]
                outs.append(o[0])
            elif op["op"] == "usectl":
                # release a buffer through an action list that sends the packet to the controller again
                act = [of.ofp_action_output(port=of.OFPP_CONTROLLER, max_len=op["dl"])]
                if op["via"] == "po":
                    msg = of.ofp_packet_out(buffer_id=op["id"], in_port=of.OFPP_NONE, actions=act)
                else:
                    msg = of.ofp_flow_mod(match=of.ofp_match(in_port=77), buffer_id=op["id"], actions=act, command=of.OFPFC_ADD)
                st, rep, em = node.send(msg)
                errs = [r for r in rep if isinstance(r, of.ofp_error) and r.type == of.OFPET_BAD_REQUEST and r.code in (7, 8)]
                rest = [r for r in rep if r not in errs]
                o = pins(rest)
                if st != "ok" or em or len(errs) > 1 or (errs and rest) or len(o) > 1 or (o and o[0]["k"] != "pin"):
                    outs.append({"k": "unexpected", "status": st, "emitted": len(em), "replies": pins(rep)})
                elif o: outs.append(o[0])
                else: outs.append({"k": "none"})
            elif op["op"] in ("use", "drop"):
                # "drop": an EMPTY action list — the packet is discarded, the buffer is released all the same
                act = [of.ofp_action_output(port=of.OFPP_IN_PORT)] if op["op"] == "use" else []
                if op["via"] == "po":
                    msg = of.ofp_packet_out(buffer_id=op["id"], in_port=of.OFPP_NONE, actions=act)
                elif op["via"] == "pod":
                    # raw bytes: a packet_out naming the buffer AND carrying (other) packet data — OpenFlow 1.0: data is only
                    # meaningful when buffer_id is -1, so this uses (emits and frees) the buffered packet
                    b = bytearray(of.ofp_packet_out(in_port=of.OFPP_NONE, actions=act, data=frame(99, 20)).pack())
                    b[8:12] = (op["id"] & 0xffffffff).to_bytes(4, "big")
                    msg = bytes(b)
                else:    # a flow_mod naming the buffer; its match never matches harness frames (in_port 77)
                    msg = of.ofp_flow_mod(match=of.ofp_match(in_port=77), buffer_id=op["id"], actions=act, command=of.OFPFC_ADD)
                st, rep, em = node.send(msg)
                # a buffer id that is not stored is answered with BAD_REQUEST / BUFFER_EMPTY(7) or BUFFER_UNKNOWN(8) (that reply
                # is C13's subject); for this property what counts is that no frame is emitted and nothing is freed
                errs = [r for r in rep if isinstance(r, of.ofp_error) and r.type == of.OFPET_BAD_REQUEST and r.code in (7, 8)]
                if st != "ok" or len(errs) != len(rep) or len(rep) > 1 or (rep and em) or len(em) > 1:
                    outs.append({"k": "unexpected", "status": st, "emitted": len(em), "replies": pins(rep)})
                elif em: outs.append({"k": "emit", "fr": em[0][1].hex(), "port": em[0][0]})
                else: outs.append({"k": "none"})
            elif op["op"] == "fmbad":
                # a flow_mod that NAMES a buffer but is refused before it is carried out (unknown command / an action type the
                # switch cannot execute): answered with an error, nothing is emitted and the buffer stays held
                if op["why"] == "cmd":
                    msg = of.ofp_flow_mod(match=of.ofp_match(in_port=77), buffer_id=op["id"], command=77, actions=[of.ofp_action_output(port=of.OFPP_IN_PORT)])
                else:
                    msg = of.ofp_flow_mod(match=of.ofp_match(in_port=77), buffer_id=op["id"], command=of.OFPFC_ADD,
                                          actions=[of.ofp_action_output(port=of.OFPP_IN_PORT), of.ofp_action_vendor_generic(vendor=0x2320, body=b"\0" * 4)])
                st, rep, em = node.send(msg)
                ok = st == "ok" and not em and len(rep) == 1 and isinstance(rep[0], of.ofp_error)
                outs.append({"k": "none"} if ok else {"k": "unexpected", "status": st, "emitted": len(em), "replies": pins(rep)})
            elif op["op"] == "install":
                # a flow_mod WITHOUT a buffer id installs an entry that covers every packet of one ingress port (and would send it
                # somewhere else than a later buffer release says): the pool must not care what the table holds
                st, rep, em = node.send(of.ofp_flow_mod(match=of.ofp_match(in_port=op["inport"]), priority=0x9000, command=of.OFPFC_ADD,
                                                        actions=[of.ofp_action_output(port=op["out"])]))
                outs.append({"k": "none"} if (st == "ok" and not rep and not em) else {"k": "unexpected", "status": st, "emitted": len(em), "replies": pins(rep)})
            else:
                st, rep, em = node.send(of.ofp_set_config(miss_send_len=op["n"]))
                outs.append({"k": "none"} if (st == "ok" and not rep and not em) else {"k": "unexpected", "status": st})
        slots = [0 if b is None else 1 for b in node.sw._packet_buffer]
        return {"outs": outs, "stored": sum(slots), "slots": slots}

    def model_request(self, case):
        ops = []
        for op in case["ops"]:
            if op["op"] == "arrive": ops.append({"op": "arrive", "fr": frame(op["i"], op["len"]).hex(), "port": op["port"], "dl": op["dl"]})
            elif op["op"] == "use": ops.append({"op": "use", "id": op["id"]})
            elif op["op"] == "drop": ops.append({"op": "drop", "id": op["id"]})
            elif op["op"] == "usectl": ops.append({"op": "usectl", "id": op["id"], "dl": op["dl"]})
            elif op["op"] in ("install", "fmbad"): ops.append({"op": "other"})
            else: ops.append({"op": "setmiss", "n": op["n"]})
        return {"max": case["max"], "miss": case["miss"], "ops": ops}

    # the property on the implementation's observables: an abstract id -> frame map with capacity
    def oracle(self, case, obs):
        live, miss = {}, case["miss"]
        if len(obs["outs"]) != len(case["ops"]): return "harness: output count"
        for n, (op, o) in enumerate(zip(case["ops"], obs["outs"])):
            if o["k"] == "unexpected": return "step %d %s: %s" % (n, op["op"], o.get("status"))
            if op["op"] == "arrive":
                fr = frame(op["i"], op["len"]); dl = miss if op["dl"] is None else op["dl"]
                if o["k"] != "pin": return "arrival produced no packet-in"
                if o["port"] != op["port"]: return "packet-in in_port wrong"
                if o["total"] != len(fr): return "packet-in total_len %d != frame length %d" % (o["total"], len(fr))
                bid = o["bid"]
                if bid is None:
                    if len(live) < case["max"]: return "no buffer id although %d of %d buffers are in use" % (len(live), case["max"])
                    if o["data"] != fr.hex(): return "unbuffered packet-in does not carry the whole frame"
                else:
                    if bid in live: return "buffer id %d handed out twice" % bid
                    if len(live) >= case["max"]: return "more than max_buffers packets stored"
                    if o["data"] != fr[:dl].hex(): return "buffered packet-in data is not the first min(len, %d) bytes" % dl
                    live[bid] = (fr, op["port"])
            elif op["op"] == "usectl":
                if op["id"] in live:
                    fr, port = live[op["id"]]
                    if o["k"] != "pin": return "releasing live buffer %d to the controller produced no packet-in" % op["id"]
                    if o["port"] != port or o["total"] != len(fr): return "re-announced packet-in has wrong in_port/total_len"
                    bid = o["bid"]
                    if bid is None:
                        if len(live) < case["max"]: return "no buffer id although %d of %d buffers are in use" % (len(live), case["max"])
                        if o["data"] != fr.hex(): return "unbuffered packet-in does not carry the whole frame"
                    else:
                        if bid in live: return "buffer id %d handed out twice" % bid
                        if o["data"] != fr[:op["dl"]].hex(): return "buffered packet-in data is not the first min(len, %d) bytes" % op["dl"]
                    del live[op["id"]]
                    if bid is not None: live[bid] = (fr, port)
                else:
                    if o["k"] != "none": return "using unknown/used buffer id emitted a packet"
            elif op["op"] == "drop":
                live.pop(op["id"], None)              # released whether or not anything is emitted (checked by the stored count and by later uses)
                if o["k"] != "none": return "a packet-out/flow-mod with an empty action list emitted a packet"
            elif op["op"] == "use":
                if op["id"] in live:
                    fr, port = live.pop(op["id"])
                    if o["k"] != "emit" or o["fr"] != fr.hex() or o["port"] != port: return "using live buffer %d did not emit its packet" % op["id"]
                else:
                    if o["k"] != "none": return "using unknown/used buffer id emitted a packet"
            elif op["op"] == "install":
                if o["k"] != "none": return "a flow_mod without a buffer id produced output"
            elif op["op"] == "fmbad":
                if o["k"] != "none": return "a refused flow_mod emitted a packet"      # and `live` is unchanged: the buffer stays held
            else:
                miss = op["n"]
                if o["k"] != "none": return "set_config produced output"
        if obs["stored"] != len(live): return "stored packets %d != outstanding ids %d" % (obs["stored"], len(live))
        if obs["stored"] > case["max"]: return "stored exceeds max_buffers"
        return None

    def finding_key(self, case, obs, failure):
        import re
        return re.sub(r"\d+", "N", failure)

    def nontrivial(self, case, obs):
        ids = [o.get("bid") for o in obs["outs"] if o.get("k") == "pin"]
        return any(o.get("k") == "emit" for o in obs["outs"]) or (None in ids and case["max"] > 0)

CHECK = C18
