"""C18 — packet buffers are unique, released exactly once, and bounded (DESIGN §5 C18)."""
import copy, itertools
import common, poxenv
from common import Check

def frame(i, n):
    """a distinguishable Ethernet frame of n >= 14 bytes (distinct for distinct i < 250 * 65536, whatever n)"""
    hdr = bytes([0, 0, 0, ((i // 250) >> 8) & 0xff, (i // 250) & 0xff, (i % 250) + 2, 0, 0, 0, 0, 0, 1]) + bytes([0x88, 0xb5])      # local experimental ethertype
    body = bytes((i * 7 + k) & 0xff for k in range(max(0, n - 14)))
    return hdr + body

def mac(b):
    return bytes([2, 0, 0, 0, 0, b & 0xff])

def rewrite(fr, rws):
    """what set_dl_src / set_dl_dst do to a frame: [["src"|"dst", b], ...] applied in order"""
    fr = bytearray(fr)
    for which, b in rws or ():
        if which == "src": fr[6:12] = mac(b)
        else: fr[0:6] = mac(b)
    return bytes(fr)

# ---- frames of several kinds and what the OpenFlow 1.0 rewrite actions do to their BYTES (computed here, independently of pox.lib.packet)

def _csum(data):
    if len(data) % 2: data = data + b"\0"
    s = sum((data[k] << 8) | data[k + 1] for k in range(0, len(data), 2))
    while s >> 16: s = (s & 0xffff) + (s >> 16)
    return (~s) & 0xffff

def _put16(b, k, v):
    return b[:k] + bytes([(v >> 8) & 0xff, v & 0xff]) + b[k + 2:]

def _l3(b):
    """(offset of the network header, tagged?)"""
    return (18, True) if (b[12:14] == b"\x81\x00" and len(b) >= 18) else (14, False)

def _refresh(b):
    """IPv4 header checksum and UDP checksum of one of OUR udp frames (20-byte header, no fragments) recomputed"""
    o, _ = _l3(b)
    tot = (b[o + 2] << 8) | b[o + 3]
    seg = _put16(b[o + 20:o + tot], 6, 0)
    c = _csum(b[o + 12:o + 20] + bytes([0, 17, (len(seg) >> 8) & 0xff, len(seg) & 0xff]) + seg)
    b = b[:o + 20] + _put16(seg, 6, c or 0xffff) + b[o + tot:]
    h = _put16(b[o:o + 20], 10, 0)
    return b[:o] + _put16(h, 10, _csum(h)) + b[o + 20:]

def frame2(i, n, kind="raw"):
    """frame number i of about n bytes.  raw: experimental ethertype (frame()); tag: the same behind an 802.1Q tag; udp / tudp: IPv4+UDP
    with valid checksums (untagged / tagged)"""
    if kind == "raw": return frame(i, n)
    if kind == "tag":
        f = frame(i, max(n - 4, 16))
        return f[:12] + bytes([0x81, 0x00, ((i % 8) << 5) | 0, (i % 6) + 1]) + f[12:]
    hdr = frame(i, 14)[:12]
    pay = bytes((i * 5 + k) & 0xff for k in range(max(0, n - (46 if kind == "tudp" else 42))))
    udp = bytes([(1000 + i % 1000) >> 8, (1000 + i % 1000) & 0xff, 0, 53]) + bytes([(8 + len(pay)) >> 8, (8 + len(pay)) & 0xff, 0, 0]) + pay
    ip = bytes([0x45, 0, (20 + len(udp)) >> 8, (20 + len(udp)) & 0xff, 0, 0, 0, 0, 64, 17, 0, 0, 10, 0, (i >> 8) & 0xff, i & 0xff, 10, 1, 0, 2])
    tag = bytes([0x81, 0x00, 0x20, 0x07]) if kind == "tudp" else b""
    return _refresh(hdr + tag + b"\x08\x00" + ip + udp)

REWRITES = ("dl_src", "dl_dst", "vlan_vid", "vlan_pcp", "strip_vlan", "nw_src", "nw_dst", "nw_tos", "tp_src", "tp_dst")
OUTPUTS = ("out", "enq", "inport", "flood", "all")       # items that put the packet on physical ports (and so serialise it)
BUFFERING = ("ctl", "table")                               # items that hand the packet to the controller: output:CONTROLLER(max_len), output:TABLE into a miss

def rw_bytes(it, b):
    """OpenFlow 1.0 rewrite action `it` = [kind, value] applied to the wire bytes b of one of our frames"""
    k = it[0]; o, tagged = _l3(b)
    if k in ("vlan_vid", "vlan_pcp"):
        if not tagged: b = b[:12] + b"\x81\x00\x00\x00" + b[12:]
        tci = (b[14] << 8) | b[15]
        tci = (tci & 0xf000) | (it[1] & 0x0fff) if k == "vlan_vid" else (tci & 0x1fff) | ((it[1] & 7) << 13)
        return _put16(b, 14, tci)
    if k == "strip_vlan": return b[:12] + b[16:] if tagged else b
    if k == "dl_src": return b[:6] + mac(it[1]) + b[12:]
    if k == "dl_dst": return mac(it[1]) + b[6:]
    if b[o - 2:o] != b"\x08\x00": return b                       # not IP: the network / transport rewrites leave the frame alone
    if k == "nw_src": return _refresh(b[:o + 12] + bytes([192, 168, 0, it[1] & 0xff]) + b[o + 16:])
    if k == "nw_dst": return _refresh(b[:o + 16] + bytes([192, 168, 1, it[1] & 0xff]) + b[o + 20:])
    if k == "nw_tos": return _refresh(b[:o + 1] + bytes([(it[1] & 0xfc) | (b[o + 1] & 3)]) + b[o + 2:])
    if k == "tp_src": return _refresh(_put16(b, o + 20, it[1]))
    if k == "tp_dst": return _refresh(_put16(b, o + 22, it[1]))
    raise ValueError("rewrite %r" % (it,))


class OddError(Exception):
    """an exception of the harness's own whose text is awkward to log or format"""
    def __str__(self): return "défaut %s {} %d\nsecond line"

FAULT_SPELLINGS = ["OSError", "EPIPE", "RuntimeError", "ValueError", "KeyError", "AssertionError", "StopIteration", "MemoryError", "OddError", "ENETDOWN"]
FAULT_SITES = ["listener", "method"]       # a DpPacketOut listener raises / the switch's own _output_packet_physical raises (a PCapSwitch whose interface went away)

def make_exc(sp):
    import errno
    return {"OSError": lambda: OSError(errno.EIO, "Input/output error"), "EPIPE": lambda: BrokenPipeError(errno.EPIPE, "Broken pipe"),
            "ENETDOWN": lambda: OSError(errno.ENETDOWN, "Network is down"), "RuntimeError": lambda: RuntimeError("send failed"),
            "ValueError": lambda: ValueError(""), "KeyError": lambda: KeyError(3), "AssertionError": lambda: AssertionError(),
            "StopIteration": lambda: StopIteration(), "MemoryError": lambda: MemoryError(), "OddError": lambda: OddError()}[sp]()

def descents(n):
    """smaller values to try for a size parameter: half, then ever smaller steps down to n-1"""
    seen, d = set(), max(n // 2, 1)
    while d >= 1:
        v = n - d
        if 0 <= v < n and v not in seen:
            seen.add(v); yield v
        d //= 2

def expand(case):
    """primitive ops of a case.  Macro ops stand for many primitives: `fill` = n arrivals of consecutive frames, `userefs` = a
    release for each of a range of earlier outputs.  A primitive names its buffer either literally ("id") or as "r": the index of
    the earlier primitive whose packet-in handed the id out (0 when that one handed none out) — "ref": [m, k] in the case is the
    k-th primitive of case op m; "ref": [m, k, q] is the q-th packet-in of that primitive when it is an action list (`acts`)."""
    prims, base, count = [], [], []
    for op in case["ops"]:
        base.append(len(prims))
        if op["op"] == "fill":
            for k in range(op["n"]):
                prims.append({"op": "arrive", "i": op["i"] + k, "len": op.get("len", 14), "port": op.get("port", 1), "dl": op.get("dl")})
        elif op["op"] == "userefs":
            for k in range(op["from"], op["to"], op.get("step", 1) or 1):
                p = {"op": op.get("as", "use"), "ref": [op["of"], k], "via": op.get("via", "po")}
                if p["op"] == "usectl": p["dl"] = op.get("dl", 0)
                if "fmk" in op: p["fmk"] = op["fmk"]
                prims.append(p)
        else:
            prims.append(dict(op))
        count.append(len(prims) - base[-1])
    for n, p in enumerate(prims):
        if "ref" in p:
            m, k = p["ref"][0], p["ref"][1]
            ok = isinstance(m, int) and isinstance(k, int) and 0 <= m < len(base) and 0 <= k < count[m] and base[m] + k < n
            p["r"] = base[m] + k if ok else None
            p["q"] = p["ref"][2] if len(p["ref"]) > 2 and isinstance(p["ref"][2], int) else 0
    return prims

def bid_of(o, q=0):
    """the buffer id handed out by an earlier step (the q-th packet-in of an action-list step), 0 if it handed none out"""
    if isinstance(o, dict) and o.get("k") == "acts":
        pins = o.get("pins") or []
        o = pins[q] if 0 <= q < len(pins) else None
    return o["bid"] if (isinstance(o, dict) and o.get("k") == "pin" and o.get("bid") is not None) else 0

def op_id(p, outs):
    if "ref" in p: return bid_of(outs[p["r"]], p.get("q", 0)) if p.get("r") is not None else 0
    return p["id"]


class C18(Check):
    id = "C18"
    prop_module = "PoxModel.Properties.C18"
    lean_targets = ["drv_c18"]
    driver = "drv_c18"
    theorems = ["Pox.C18.reachable_inv", "Pox.C18.bounded", "Pox.C18.unique_live", "Pox.C18.use_once", "Pox.C18.packet_in_form", "Pox.C18.unbuffered_iff_full", "Pox.C18.use_to_controller",
                "Pox.C18.refines_step", "Pox.C18.refines", "Pox.C18.refines_init", "Pox.C18.spec_step_sound",
                "Pox.C18.fill_ids_distinct", "Pox.C18.fill_all_buffered", "Pox.C18.held_frame_fixed", "Pox.C18.run_append", "Pox.C18.list_release"]
    anchors = [("pox/datapaths/switch.py", "SoftwareSwitchBase.send_packet_in"), ("pox/datapaths/switch.py", "SoftwareSwitchBase._buffer_packet"),
               ("pox/datapaths/switch.py", "SoftwareSwitchBase._process_actions_for_packet_from_buffer"), ("pox/datapaths/switch.py", "SoftwareSwitchBase._rx_packet_out"),
               ("pox/datapaths/switch.py", "SoftwareSwitchBase._rx_flow_mod")]
    design_ref = "DESIGN.md §5 C18"
    technique = "Lean 4 proof (invariant over all operation histories tying the ids handed to the controller to the slot list) + differential correspondence through the byte-level switch connection"
    level_text = ("Refinement (refines_step/refines/refines_init): every history of the buffer code is a history of the abstract specification SpecStep — a map from outstanding ids to frames in which a new buffer gets any unused non-zero id while fewer than max are outstanding, a full pool answers with the whole frame and no id, an outstanding id is released exactly once with its own frame, any other id does nothing — with the controller's view as abstraction map; spec_step_sound: the specification itself never exceeds max and never reuses an outstanding id. "
                  "Theorems reachable_inv/bounded/unique_live/use_once/packet_in_form hold for every history of arrivals, buffer uses and set-config, every pool size and frame: "
                  "stored packets never exceed max_buffers, an id handed out was not outstanding, using an outstanding id emits exactly its frame once, any other id emits nothing, "
                  "packet-in carries the true total length and either the whole frame without id (pool full) or the first miss_send_len/max_len bytes. "
                  "fill_all_buffered/fill_ids_distinct: n <= max arrivals in a row into an empty pool are all buffered, under pairwise different ids (any n, any max); held_frame_fixed: whatever happens in between, "
                  "as long as an id is not used it stays tied to the frame it was handed out for; list_release: an action list over an outstanding buffer — any buffering outputs, then the release (also one cut short by a failing output) — "
                  "answers with exactly the packet-ins of those arrivals, leaves the id no longer outstanding and every other outstanding id tied to its frame. "
                  "Each run re-checks the hand-written model against the real SoftwareSwitch over real OpenFlow bytes on exhaustive short histories, random histories to length 60 and pools of 255..1000 buffers filled completely.")
    level_note = ("Trusted: Lean kernel, standard axioms, hand-written Model/BufPool.lean, harness/swnet.py. Actions applied to a released packet are abstracted to 'emit frame' "
                  "(what actions do to a frame is C12); the harness releases with a single output:IN_PORT action so the stored ingress port is observable. "
                  "Arbitrary action lists (op `acts`: outputs to ports / FLOOD / ALL / enqueue, output:CONTROLLER, output:TABLE into a miss and all ten rewrite actions in any order, over raw, "
                  "802.1Q-tagged and IPv4/UDP frames) are put to the unchanged model as what they amount to for the pool — one `arrive` per buffering output, with the frame as it is AT that "
                  "output (bytes computed by the harness itself, rw_bytes), then `drop id` for the buffer the list names; the frames such a list puts on ports are judged by the oracle only. "
                  "A release during which the k-th physical output raises is the same model history cut at the failing output (the buffer is released all the same).")
    trusted_base = ["model Model/BufPool.lean hand-written from switch.py _buffer_packet/_process_actions_for_packet_from_buffer/send_packet_in; tied by this correspondence run"]
    assumptions = ["single-threaded datapath (cooperative tasks): buffer operations are not interleaved",
                   "a physical output that raises during a release (injected: a DpPacketOut listener or _output_packet_physical raising, ten exception spellings, all of class Exception) aborts the rest of that action list; the buffer is released all the same (switch.py try/finally).  What the rest of the list would have done is left open by the oracle (it may or may not happen), the model cuts the list there.  BaseException-only exceptions are not injected",
                   "frames used by the harness parse as Ethernet (>= 14 bytes)",
                   "the pool stores a parsed ethernet object and emission re-packs it, the model stores bytes: they agree where pack(parse(frame)) = frame (C14's round trip; C12-3/C12-4 are the known exceptions) and where nothing changes the stored object between buffering and release (which is what the rewrite-after-buffering histories test)",
                   "release towards the controller is modelled for ONE output:CONTROLLER in the action list (op usectl); an action list with several CONTROLLER outputs, or output:TABLE causing a further table miss while the old slot is occupied, is not an op of the model (the pool bound `bounded` does not depend on it: alloc never exceeds max)",
                   "a flow_mod with a DELETE command that names a buffer is not an op (OpenFlow 1.0 gives buffer_id no meaning there; the property is silent)"]
    rule = ("case = (max_buffers 0..4 or 129..1000 (thorough: ..4097), miss_send_len, optional flow-table capacity, history over {miss arrival, output:CONTROLLER(max_len) arrival — by packet_out or by a flow entry, with set_dl_* rewrites before and after the "
            "CONTROLLER action —, packet_out(buffer id), flow_mod(buffer id) in every flavour (ADD / MODIFY / MODIFY_STRICT, and REFUSED ones: table full, CHECK_OVERLAP conflict, EMERG in its three spellings), the same with an "
            "empty action list or an output to a port that does not exist (drop), ARBITRARY ACTION LISTS (`acts`) over a new frame (packet_out with data / a flow entry hit) or over a buffered packet (packet_out / flow_mod "
            "naming it): sequences over {output:port, enqueue, IN_PORT, FLOOD, ALL, output:CONTROLLER(max_len), output:TABLE into a miss, set_dl_src/dst, set_vlan_vid/pcp, strip_vlan, set_nw_src/dst/tos, set_tp_src/dst} "
            "on raw / tagged / UDP / tagged-UDP frames, optionally with the k-th physical output of that step RAISING (10 spellings x 2 sites), release to the controller again (with rewrites after it), stale/bogus/zero ids, ids named literally or as 'the id handed out by step k', set_config, a flow_mod WITHOUT "
            "buffer id installing an entry that covers an ingress port, a flow_mod naming a buffer that is refused BEFORE it is carried out (unknown command / unsupported action) (model: `other`, pool untouched)}); "
            "corpus = every [serialising action, rewrite, buffering output] list for 8 x 10 x 3 choices x 4 frame kinds x 4 entrances, all lists of length <= 3 over an 8-item alphabet (buffering output in every position) "
            "for 5 (frame kind, entrance, pool size) combinations, every id handed out then used twice; fault-then-reuse histories (faulted release by packet_out / 4 flow_mod flavours, then re-use of the id, new arrivals, "
            "their ids used twice, pools 1/2/4/5/129); all histories of length <= 4 over a 12-op alphabet with pool sizes 0..2, all of length <= 3 over a 10-op flow_mod-flavour alphabet with table capacities 0/1/unlimited, rewrite-after-buffering histories, "
            "pools of 129/255/256/257/300/1000 (thorough: to 4097) filled to max+1 and emptied in several orders; non-trivial = some id is handed out and later used, or the pool fills")

    def setup(self):
        poxenv.boot()
        import swnet, pox.openflow.libopenflow_01 as of
        from pox.lib.addresses import EthAddr, IPAddr
        self.swnet, self.of, self.EthAddr, self.IPAddr = swnet, of, EthAddr, IPAddr
        self._noslots = False
        self.stats = {"refused_flow_mods_naming_a_live_buffer": 0, "largest_number_outstanding": 0, "releases_after_later_rewrite": 0,
                      "action_list_packet_ins": 0, "faulted_releases": 0}

    ALPHA = [{"op": "arrive", "i": 0, "len": 20, "port": 1, "dl": None}, {"op": "arrive", "i": 1, "len": 14, "port": 2, "dl": 3},
             {"op": "use", "id": 1, "via": "po"}, {"op": "use", "id": 2, "via": "fm"}, {"op": "use", "id": 0, "via": "po"},
             {"op": "use", "id": 3, "via": "po"}, {"op": "setmiss", "n": 16}, {"op": "usectl", "id": 1, "dl": 7, "via": "po"},
             {"op": "drop", "id": 1, "via": "po"}, {"op": "use", "id": 1, "via": "pod"}, {"op": "install", "inport": 2, "out": 4},
             {"op": "fmbad", "id": 1, "why": "cmd"}]

    # flow_mods that NAME a buffer, in every flavour — accepted, turned into an add, or refused by the table operation (which of
    # these it is depends on the table capacity `entries` and on what `install` put there); a plain packet_out for contrast
    FMALPHA = [{"op": "arrive", "i": 0, "len": 20, "port": 1, "dl": None}, {"op": "arrive", "i": 1, "len": 14, "port": 2, "dl": 3},
               {"op": "use", "id": 1, "via": "fm", "fmk": "emerg"}, {"op": "use", "id": 2, "via": "fm", "fmk": "ovl"},
               {"op": "drop", "id": 1, "via": "fm", "fmk": "emerg_to"}, {"op": "usectl", "id": 1, "dl": 7, "via": "fm", "fmk": "add"},
               {"op": "use", "id": 1, "via": "fm", "fmk": "mods"}, {"op": "install", "inport": 2, "out": 4},
               {"op": "use", "id": 1, "via": "po"}, {"op": "use", "id": 2, "via": "fm", "fmk": "emerg_rem"}]
    FMK = ["add", "mod", "mods", "ovl", "emerg", "emerg_to", "emerg_rem"]
    BIG = (129, 255, 256, 257, 300, 1000)

    def big_cases(self, mx, patterns=(0, 1, 2)):
        """a pool of mx buffers filled to max + 1 outstanding packets, then emptied"""
        fill = {"op": "fill", "n": mx + 1, "i": 0, "len": 14, "port": 1, "dl": None}
        out = []
        if 0 in patterns:        # oldest first; then three more arrivals (ids are used again), the last of them released
            out.append({"max": mx, "miss": 5, "ops": [fill, {"op": "userefs", "of": 0, "from": 0, "to": mx + 1, "via": "po"},
                                                      {"op": "fill", "n": 3, "i": mx + 1, "len": 15, "port": 2, "dl": 6},
                                                      {"op": "use", "ref": [2, 2], "via": "fm"}, {"op": "use", "ref": [0, mx - 1], "via": "po"}]})
        if 1 in patterns:        # newest first
            out.append({"max": mx, "miss": 5, "ops": [fill, {"op": "userefs", "of": 0, "from": mx, "to": -1, "step": -1, "via": "po"}]})
        if 2 in patterns:        # every other one, refill the holes (+1), then everything that is outstanding, newest first
            out.append({"max": mx, "miss": 0, "ops": [fill, {"op": "userefs", "of": 0, "from": 1, "to": mx, "step": 2, "via": "po"},
                                                      {"op": "fill", "n": mx // 2 + 1, "i": mx + 1, "len": 16, "port": 3, "dl": None},
                                                      {"op": "userefs", "of": 2, "from": mx // 2, "to": -1, "step": -1, "via": "po"},
                                                      {"op": "userefs", "of": 0, "from": 0, "to": mx, "step": 2, "via": "fm", "fmk": "emerg"}]})
        return out

    def alias_cases(self):
        """a packet is buffered for the controller and LATER actions of the same list rewrite it: the id stays tied to the packet as announced"""
        out = []
        rel = [{"op": "use", "ref": [0, 0], "via": "po"}, {"op": "use", "ref": [0, 0], "via": "fm"}]
        for how in ("po", "entry"):
            for pre in ([], [["dst", 9]]):
                for post in ([["src", 7]], [["dst", 8]], [["src", 7], ["dst", 8]]):
                    for dl in (0, 10, 65535):
                        for outp in (2, None):
                            a = {"op": "arrive", "i": 3, "len": 20, "port": 1, "dl": dl, "how": how, "rw": {"pre": pre, "post": post, "out": outp}}
                            for r in rel:
                                out.append({"max": 2, "miss": 5, "ops": [a, r, r]})
                    # no buffer free: nothing is stored, the packet-in carries the whole (so far rewritten) frame
                    out.append({"max": 0, "miss": 5, "ops": [{"op": "arrive", "i": 3, "len": 20, "port": 1, "dl": 4, "how": how, "rw": {"pre": pre, "post": post, "out": 2}},
                                                             {"op": "use", "id": 1, "via": "po"}]})
        # a table miss from inside an action list (packet_out to the TABLE), rewritten by the actions after it
        for pre in ([], [["src", 3]]):
            for post in ([["src", 7]], [["dst", 8], ["src", 2]]):
                a = {"op": "arrive", "i": 6, "len": 20, "port": 2, "dl": None, "rw": {"pre": pre, "post": post, "out": 3}}
                for r in rel:
                    out.append({"max": 2, "miss": 5, "ops": [a, r, r]})
                out.append({"max": 2, "miss": 5, "ops": [a, {"op": "usectl", "id": 1, "dl": 65535, "via": "po"}, {"op": "use", "ref": [1, 0], "via": "po"}]})
                out.append({"max": 0, "miss": 5, "ops": [a, {"op": "use", "id": 1, "via": "po"}]})
        # released to the controller again, rewritten after that, then released for good; and two packets rewritten differently
        for post in ([["src", 7]], [["dst", 8], ["src", 5]]):
            for outp in (1, 3, None):
                out.append({"max": 2, "miss": 5, "ops": [{"op": "arrive", "i": 4, "len": 20, "port": 1, "dl": None},
                                                         {"op": "usectl", "id": 1, "dl": 6, "via": "po", "rw": {"post": post, "out": outp}},
                                                         {"op": "use", "ref": [1, 0], "via": "po"}, {"op": "use", "id": 1, "via": "po"}]})
                out.append({"max": 3, "miss": 5, "ops": [{"op": "arrive", "i": 4, "len": 20, "port": 1, "dl": 9, "rw": {"pre": [], "post": post, "out": 2}},
                                                         {"op": "arrive", "i": 5, "len": 30, "port": 2, "dl": 0, "how": "entry", "rw": {"pre": [["src", 3]], "post": [["src", 4]], "out": outp}},
                                                         {"op": "usectl", "ref": [0, 0], "dl": 65535, "via": "fm", "fmk": "emerg", "rw": {"post": [["dst", 6]], "out": 4}},
                                                         {"op": "use", "ref": [1, 0], "via": "po"}, {"op": "use", "ref": [2, 0], "via": "po"}, {"op": "use", "ref": [0, 0], "via": "po"}]})
        return out

    def corpus(self):
        cases = []
        for mx in (0, 1, 2):
            for L in range(1, 5):
                if L == 4 and mx == 0: continue
                for ops in itertools.product(self.ALPHA, repeat=L):
                    cases.append({"max": mx, "miss": 5, "ops": list(ops)})
        for mx, ent in ((1, 0), (2, 1), (2, None), (1, None)):
            for L in range(1, 4):
                for ops in itertools.product(self.FMALPHA, repeat=L):
                    c = {"max": mx, "miss": 5, "ops": list(ops)}
                    if ent is not None: c["entries"] = ent
                    cases.append(c)
        # every refusal of a flow_mod that names a LIVE buffer, for every way of releasing, with the table full / not full
        for fmk in self.FMK:
            for ent in (0, 1, 2, None):
                for rel in ("use", "drop", "usectl"):
                    r = {"op": rel, "id": 1, "via": "fm", "fmk": fmk}
                    if rel == "usectl": r["dl"] = 9
                    c = {"max": 3, "miss": 5, "ops": [{"op": "install", "inport": 3, "out": 4}, {"op": "arrive", "i": 2, "len": 20, "port": 1, "dl": None}, r,
                                                      {"op": "use", "id": 1, "via": "po"}, {"op": "use", "id": 2, "via": "po"}]}
                    if ent is not None: c["entries"] = ent
                    cases.append(c)
        for mx in self.BIG:
            cases += self.big_cases(mx, (0, 1, 2) if mx < 1000 else (0, 2))
        cases += self.alias_cases()
        cases += self.acts_cases()
        cases += self.fault_cases()
        return cases

    SER = [["out", 2], ["flood"], ["ctl", 65535], ["ctl", 3], ["inport"], ["all"], ["enq", 3], ["table"]]
    RW = [["dl_src", 7], ["dl_dst", 8], ["vlan_vid", 5], ["vlan_pcp", 3], ["strip_vlan"], ["nw_src", 9], ["nw_dst", 4], ["nw_tos", 0x28], ["tp_src", 4000], ["tp_dst", 80]]
    BUF = [["ctl", 65535], ["ctl", 10], ["table"]]
    A8 = [["out", 2], ["flood"], ["ctl", 6], ["table"], ["vlan_vid", 5], ["strip_vlan"], ["dl_dst", 8], ["nw_tos", 0x28]]
    KINDS = (("raw", 20), ("tag", 24), ("udp", 60), ("tudp", 64))

    def _acts_case(self, kind, ln, src, items, mx=4, fmk=None):
        """one action list over a new frame (src po / entry) or over a buffered packet of that kind (src bufpo / buffm); every id any
        packet-in hands out is then used (twice)"""
        new = {"op": "acts", "src": "new", "i": 3, "len": ln, "kind": kind, "port": 1}
        rel = lambda m: [{"op": "use", "ref": [m, 0, q], "via": "po"} for q in (0, 1, 2, 0)]
        if src in ("po", "entry"):
            return {"max": mx, "miss": 12, "ops": [dict(new, how=src, items=items)] + rel(0)}
        b = {"op": "acts", "src": "buf", "ref": [0, 0, 0], "via": "po" if src == "bufpo" else "fm", "items": items}
        if fmk: b["fmk"] = fmk
        return {"max": mx, "miss": 12, "ops": [dict(new, how="po", items=[["ctl", 0]]), b] + rel(1) + [{"op": "use", "ref": [0, 0, 0], "via": "po"}]}

    def acts_cases(self):
        """HARDENING 13/20/25: an action that SERIALISES the packet (an output to a port, FLOOD, ALL, enqueue, an earlier buffering output), then a
        rewrite (every kind, the length-changing ones too), then the buffering output — packet-in and a later release must both show the frame
        as it is AT the buffering output; and all short lists over a mixed alphabet, the buffering output in every position"""
        out = []
        for kind, ln in self.KINDS:
            for ser in self.SER:
                for rw in self.RW:
                    if rw[0][:2] in ("nw", "tp") and kind in ("raw", "tag"): continue
                    for b in self.BUF:
                        for src in ("po", "entry", "bufpo", "buffm"):
                            if src == "entry" and "table" in (ser[0], b[0]): continue
                            out.append(self._acts_case(kind, ln, src, [ser, rw, b]))
        for kind, ln, src, mx, fmk in (("raw", 20, "po", 4, None), ("raw", 21, "po", 1, None), ("tudp", 64, "bufpo", 4, None), ("tag", 24, "buffm", 2, "mods"), ("udp", 61, "entry", 3, None)):
            for L in (1, 2, 3):
                for items in itertools.product(self.A8, repeat=L):
                    if src == "entry" and any(it[0] == "table" for it in items): continue
                    out.append(self._acts_case(kind, ln, src, [list(it) for it in items], mx, fmk))
                    if src == "entry" and L == 3 and items[0][0] in ("out", "flood", "ctl"):      # rx_packet(packet, port) without the packed form
                        c = self._acts_case(kind, ln, src, [list(it) for it in items], mx, fmk); c["ops"][0]["pd"] = False
                        out.append(c)
        return out

    def fault_cases(self):
        """HARDENING 23 (fault, then reuse): the k-th physical output of a buffer's release raises (every spelling, both sites, packet_out
        and flow_mod in several flavours); the id is gone, the ids handed out afterwards work exactly once, stored = outstanding"""
        out = []
        lists = [([["inport"]], 1), ([["out", 2], ["out", 3]], 1), ([["out", 2], ["out", 3]], 2), ([["flood"]], 2), ([["ctl", 8], ["out", 2]], 1),
                 ([["out", 2], ["ctl", 8]], 1), ([["vlan_vid", 5], ["all"], ["ctl", 0]], 3)]
        arr = lambda i, port: {"op": "arrive", "i": i, "len": 20, "port": port, "dl": None}
        use = lambda m, q=0: {"op": "use", "ref": [m, 0, q], "via": "po"}
        for via, fmk in (("po", None), ("fm", "add"), ("fm", "mods"), ("fm", "emerg"), ("fm", "ovl")):
            for site in FAULT_SITES:
                for si, sp in enumerate(FAULT_SPELLINGS):
                    for items, k in (lists if si < 2 else [lists[(si + len(via)) % len(lists)]]):
                        for mx in (1, 2, 4):
                            a = {"op": "acts", "src": "buf", "ref": [0, 0], "via": via, "items": items, "fault": {"k": k, "exc": sp, "site": site}}
                            if fmk: a["fmk"] = fmk
                            out.append({"max": mx, "miss": 5, "ops": [arr(0, 1), arr(1, 2), a, use(0), arr(2, 3), arr(3, 1), use(4), use(4), use(5), use(2), use(1),
                                                                      arr(4, 2), use(11), use(11)]})
        # the fault hits an action list over a NEW frame (no buffer named): the packet-ins it sent before are good, the pool goes on
        for how in ("po", "entry"):
            for k in (1, 2):
                for site in FAULT_SITES:
                    a = {"op": "acts", "src": "new", "i": 7, "len": 30, "kind": "raw", "port": 1, "how": how, "items": [["ctl", 4], ["out", 2], ["dl_src", 3], ["ctl", 5], ["out", 3], ["ctl", 6]],
                         "fault": {"k": k, "exc": "OSError", "site": site}}
                    out.append({"max": 3, "miss": 5, "ops": [a, use(0, 0), use(0, 1), use(0, 2), arr(1, 2), use(4), use(4)]})
        # a larger pool: a faulted release in the middle of a full pool, then everything released and the pool filled again
        for mx in (5, 129):
            out.append({"max": mx, "miss": 5, "ops": [{"op": "fill", "n": mx + 1, "i": 0, "len": 14, "port": 1, "dl": None},
                                                      {"op": "acts", "src": "buf", "ref": [0, mx // 2], "via": "po", "items": [["out", 2], ["out", 3]], "fault": {"k": 2, "exc": "EPIPE", "site": "method"}},
                                                      {"op": "fill", "n": 2, "i": mx + 1, "len": 15, "port": 2, "dl": 6},
                                                      {"op": "userefs", "of": 0, "from": 0, "to": mx + 1, "via": "po"}, {"op": "use", "ref": [2, 0], "via": "fm"},
                                                      {"op": "fill", "n": mx + 1, "i": 2 * mx, "len": 16, "port": 3, "dl": None}]})
        return out

    def _rand_id(self, rng, mx, k, arrivals, extra=()):
        """a buffer named literally, or as 'the id handed out by step j'"""
        if arrivals and rng.random() < 0.3: return {"ref": [rng.choice(arrivals), 0]}
        return {"id": rng.choice([0, 1, 1, 2, 2, 3, mx, mx + 1, rng.randint(0, mx + 2)] + list(extra))}

    def _rand_rw(self, rng, pre=True):
        rw = {"post": [[rng.choice(["src", "dst"]), rng.randint(1, 9)] for _ in range(rng.randint(1, 2))],
              "out": rng.choice([None] + [q for q in (1, 2, 3, 4)])}
        if pre: rw["pre"] = [[rng.choice(["src", "dst"]), rng.randint(1, 9)] for _ in range(rng.choice([0, 0, 1]))]
        return rw

    def _rand_items(self, rng, table_ok):
        items = []
        for _ in range(rng.choice([1, 2, 3, 3, 4, 5, 6])):
            r = rng.random()
            if r < 0.3:
                items.append(rng.choice([["out", rng.randint(1, 5)], ["flood"], ["all"], ["inport"], ["enq", rng.randint(1, 4)]]))
            elif r < 0.6:
                items.append(["table"] if (table_ok and rng.random() < 0.3) else ["ctl", rng.choice([0, 1, 14, 18, 128, 65535, rng.randint(0, 80)])])
            else:
                items.append(rng.choice([["dl_src", rng.randint(1, 9)], ["dl_dst", rng.randint(1, 9)], ["vlan_vid", rng.choice([0, 1, 5, 100, 4095])], ["vlan_pcp", rng.randint(0, 7)],
                                         ["strip_vlan"], ["nw_src", rng.randint(1, 250)], ["nw_dst", rng.randint(1, 250)], ["nw_tos", rng.choice([0, 0x28, 0xfc])],
                                         ["tp_src", rng.choice([0, 53, 65535])], ["tp_dst", rng.choice([0, 80, 65535])]]))
        return items

    def _rand_acts(self, rng, mx, k, covered, arrivals, limited):
        if arrivals and rng.random() < 0.55:
            op = {"op": "acts", "src": "buf", "via": rng.choice(["po", "po", "fm"]), "items": self._rand_items(rng, not covered)}
            if rng.random() < 0.7: op["ref"] = [rng.choice(arrivals), 0, rng.choice([0, 0, 0, 1])]
            else: op["id"] = rng.choice([0, 1, 1, 2, 2, 3, mx, mx + 1])
            if op["via"] == "fm" and rng.random() < 0.7: op["fmk"] = rng.choice(self.FMK)
        else:
            port = rng.randint(1, 4)
            kind = rng.choice(["raw", "raw", "tag", "udp", "tudp"])
            op = {"op": "acts", "src": "new", "i": k, "len": rng.choice([20, 24, 46, 60, 64, 129, rng.randint(20, 200)]), "kind": kind, "port": port,
                  "how": "entry" if (not limited and rng.random() < 0.4) else "po", "items": self._rand_items(rng, port not in covered)}
            if op["how"] == "entry" and rng.random() < 0.5: op["pd"] = False
        if rng.random() < 0.3:
            op["fault"] = {"k": rng.randint(1, 4), "exc": rng.choice(FAULT_SPELLINGS), "site": rng.choice(FAULT_SITES)}
        return op

    def _rand_op(self, rng, mx, k, covered=(), arrivals=(), limited=False, acts=0.0):
        if acts and rng.random() < acts: return self._rand_acts(rng, mx, k, covered, arrivals, limited)
        r = rng.random()
        if r < 0.42:
            port = rng.randint(1, 4)
            # a port covered by an installed entry never sees a table miss: its packets reach the controller by output:CONTROLLER
            dls = [0, 1, 14, 128, 65535, rng.randint(0, 300)] + ([] if port in covered else [None, None])
            op = {"op": "arrive", "i": k, "len": rng.choice([14, 15, 20, 64, 128, 129, 200, rng.randint(14, 300)]), "port": port, "dl": rng.choice(dls)}
            if op["dl"] is None and rng.random() < 0.15: op["rw"] = self._rand_rw(rng)      # a miss after output:TABLE
            if op["dl"] is not None and rng.random() < 0.3:
                op["rw"] = self._rand_rw(rng)
                if not limited and rng.random() < 0.5: op["how"] = "entry"
            return op
        if r < 0.435:
            return {"op": "fmbad", "id": rng.choice([0, 1, 1, 2, 2, 3, mx, mx + 1]), "why": rng.choice(["cmd", "act"])}
        if r < 0.45:
            p = rng.randint(1, 4)
            return {"op": "install", "inport": p, "out": rng.choice([q for q in (1, 2, 3, 4) if q != p])}
        if r < 0.52:
            op = {"op": "drop", "via": rng.choice(["po", "po", "fm"])}
            if rng.random() < 0.3: op["act"] = "badport"
        elif r < 0.75:
            op = {"op": "use", "via": rng.choice(["po", "po", "fm", "fm", "pod"])}
        elif r < 0.9:
            op = {"op": "usectl", "dl": rng.choice([0, 5, 128, 65535, rng.randint(0, 300)]), "via": rng.choice(["po", "po", "fm"])}
            if rng.random() < 0.25: op["rw"] = self._rand_rw(rng, pre=False)
        else:
            return {"op": "setmiss", "n": rng.choice([0, 1, 14, 128, 65535, rng.randint(0, 300)])}
        op.update(self._rand_id(rng, mx, k, arrivals, (0xfffffffe,) if op["op"] == "use" else ()))
        if op["via"] == "fm" and rng.random() < 0.7: op["fmk"] = rng.choice(self.FMK)
        return op

    def generate(self, rng, tier):
        n = 250 if tier == "quick" else 6000
        for t in range(n + (n // 2 if tier == "quick" else n)):
            mx = rng.randint(0, 4)
            L = rng.choice([3, 8, 20, 60, rng.randint(1, 60)])
            ent = rng.choice([None, None, None, 0, 1, 2])
            ops, covered, arrivals = [], set(), []
            for k in range(L):
                # the histories past the first n mix in arbitrary action lists (over new frames and over buffered packets), some with a failing output
                op = self._rand_op(rng, mx, k, covered, arrivals, ent is not None, acts=0.0 if t < n else 0.3)
                if op["op"] == "install": covered.add(op["inport"])
                if op["op"] in ("arrive", "usectl", "acts"): arrivals.append(k)
                ops.append(op)
            c = {"max": mx, "miss": rng.choice([0, 5, 128, 65535]), "ops": ops}
            if ent is not None: c["entries"] = ent
            yield c
        # larger pools, filled completely: sizes around a byte boundary and arbitrary ones
        for _ in range(2 if tier == "quick" else 40):
            mx = rng.choice([rng.randint(250, 262), rng.randint(5, 700), rng.randint(509, 515), rng.randint(5, 1100)])
            for c in self.big_cases(mx, (rng.randint(0, 2),)): yield c
        if tier != "quick":
            for mx in (1024, 1025, 2049, 4097):
                for c in self.big_cases(mx, (1,)): yield c

    def shrink_candidates(self, case):
        """drop one op (renumbering the steps that later ops refer to), fewer arrivals in a `fill`, a smaller pool"""
        ops = case["ops"]
        def renum(op, i):
            op = dict(op)
            if "ref" in op:
                m, k = op["ref"][0], op["ref"][1]
                if m == i: return None
                if m > i: op["ref"] = [m - 1] + list(op["ref"][1:])
            if "of" in op:
                if op["of"] == i: return None
                if op["of"] > i: op["of"] -= 1
            return op
        for i in range(len(ops)):
            new = [renum(op, i) for j, op in enumerate(ops) if j != i]
            c = copy.deepcopy(case); c["ops"] = [op for op in new if op is not None]
            yield c
        for i, op in enumerate(ops):
            if op["op"] == "acts":
                if op.get("fault"):
                    c = copy.deepcopy(case); del c["ops"][i]["fault"]; yield c
                for j in range(len(op["items"])):
                    c = copy.deepcopy(case); del c["ops"][i]["items"][j]
                    if op.get("fault"): c["ops"][i]["fault"]["k"] = 1
                    yield c
                    if op.get("fault"):
                        c = copy.deepcopy(case); del c["ops"][i]["items"][j]; yield c
            if op["op"] == "fill":
                for v in descents(op["n"]):
                    c = copy.deepcopy(case); c["ops"][i]["n"] = v; yield c
            if op["op"] == "userefs":
                step = op.get("step", 1) or 1
                cnt = len(range(op["from"], op["to"], step))
                for v in descents(cnt):       # keep the last v, or the first v
                    c = copy.deepcopy(case); c["ops"][i]["from"] = op["from"] + (cnt - v) * step; yield c
                    c = copy.deepcopy(case); c["ops"][i]["to"] = op["from"] + v * step; yield c
        if case["max"] > 4:
            for v in descents(case["max"]):
                c = copy.deepcopy(case); c["max"] = v; yield c

    # ---- the real switch
    def _flow_mod(self, op, bid, act):
        """a flow_mod naming buffer `bid`; its match never matches a harness frame (in_port 77 / a VLAN id on untagged frames)"""
        of, k = self.of, op.get("fmk", "add")
        kw = {"match": of.ofp_match(in_port=77), "command": of.OFPFC_ADD}
        if k == "mod": kw["command"] = of.OFPFC_MODIFY
        elif k == "mods": kw["command"] = of.OFPFC_MODIFY_STRICT
        elif k == "ovl":      # overlaps every entry `install` made (same priority, in_port wildcarded) and asks to be refused then
            kw.update(match=of.ofp_match(dl_vlan=99), priority=0x9000, flags=of.OFPFF_CHECK_OVERLAP)
        elif k == "emerg": kw["flags"] = of.OFPFF_EMERG
        elif k == "emerg_to": kw.update(flags=of.OFPFF_EMERG, idle_timeout=5)
        elif k == "emerg_rem": kw["flags"] = of.OFPFF_EMERG | of.OFPFF_SEND_FLOW_REM
        return of.ofp_flow_mod(buffer_id=bid, actions=act, **kw)

    def _rw_actions(self, rws):
        of = self.of
        return [(of.ofp_action_dl_addr.set_src if w == "src" else of.ofp_action_dl_addr.set_dst)(self.EthAddr(mac(b))) for w, b in rws or ()]

    def _item_actions(self, items):
        of, E = self.of, self.EthAddr
        out = []
        for it in items:
            k = it[0]
            if k == "out": a = of.ofp_action_output(port=it[1])
            elif k == "enq": a = of.ofp_action_enqueue(port=it[1], queue_id=0)
            elif k == "inport": a = of.ofp_action_output(port=of.OFPP_IN_PORT)
            elif k == "flood": a = of.ofp_action_output(port=of.OFPP_FLOOD)
            elif k == "all": a = of.ofp_action_output(port=of.OFPP_ALL)
            elif k == "ctl": a = of.ofp_action_output(port=of.OFPP_CONTROLLER, max_len=it[1])
            elif k == "table": a = of.ofp_action_output(port=of.OFPP_TABLE)
            elif k == "dl_src": a = of.ofp_action_dl_addr.set_src(E(mac(it[1])))
            elif k == "dl_dst": a = of.ofp_action_dl_addr.set_dst(E(mac(it[1])))
            elif k == "vlan_vid": a = of.ofp_action_vlan_vid(vlan_vid=it[1])
            elif k == "vlan_pcp": a = of.ofp_action_vlan_pcp(vlan_pcp=it[1])
            elif k == "strip_vlan": a = of.ofp_action_strip_vlan()
            elif k == "nw_src": a = of.ofp_action_nw_addr.set_src(self.IPAddr("192.168.0.%d" % (it[1] & 0xff)))
            elif k == "nw_dst": a = of.ofp_action_nw_addr.set_dst(self.IPAddr("192.168.1.%d" % (it[1] & 0xff)))
            elif k == "nw_tos": a = of.ofp_action_nw_tos(nw_tos=it[1])
            elif k == "tp_src": a = of.ofp_action_tp_port.set_src(it[1])
            elif k == "tp_dst": a = of.ofp_action_tp_port.set_dst(it[1])
            else: raise ValueError("item %r" % (it,))
            out.append(a)
        return out

    def _ctl_actions(self, dl, rw):
        of = self.of
        rw = rw or {}
        first = of.ofp_action_output(port=of.OFPP_TABLE) if dl is None else of.ofp_action_output(port=of.OFPP_CONTROLLER, max_len=dl)
        act = self._rw_actions(rw.get("pre")) + [first] + self._rw_actions(rw.get("post"))
        if rw.get("out") is not None: act.append(of.ofp_action_output(port=rw["out"]))
        return act

    def impl(self, case):
        of = self.of
        kw = {} if case.get("entries") is None else {"max_entries": case["entries"]}
        node = self.swnet.SwitchNode(ports=4, max_buffers=case["max"], miss_send_len=case["miss"], **kw)
        outs = []
        def pins(replies):
            res = []
            for r in replies:
                if isinstance(r, of.ofp_packet_in):
                    res.append({"k": "pin", "bid": r.buffer_id, "data": r.data.hex(), "total": r.total_len, "port": r.in_port})
                else:
                    res.append({"k": "other", "type": type(r).__name__})
            return res
        def split(rep, via):
            """replies that are C13's subject, not ours: BAD_REQUEST/BUFFER_EMPTY|UNKNOWN for an id that is not stored, FLOW_MOD_FAILED
            for a flow_mod whose table operation is refused.  -> (buffer errors, refusals, the rest)"""
            berr = [r for r in rep if isinstance(r, of.ofp_error) and r.type == of.OFPET_BAD_REQUEST and r.code in (7, 8)]
            ref = [r for r in rep if isinstance(r, of.ofp_error) and r.type == of.OFPET_FLOW_MOD_FAILED] if via == "fm" else []
            return berr, ref, [r for r in rep if r not in berr and r not in ref]
        def side(em):
            return [[p, f.hex()] for p, f in em]
        prims = expand(case)
        # fault injection (only in cases that ask for it): the k-th physical output DURING ONE STEP raises — either a DpPacketOut listener
        # (served before the recording one: the frame did not leave) or the switch's own _output_packet_physical (the override point)
        armed = [None]
        if any(p.get("fault") for p in prims):
            def hit(site):
                f = armed[0]
                if f is None or f["site"] != site: return
                f["n"] += 1
                if f["n"] == f["k"]:
                    f["fired"] = True
                    raise make_exc(f["exc"])
            node.sw.addListener(self.swnet.DpPacketOut, lambda e: hit("listener"), priority=1000)
            inner = node.sw._output_packet_physical
            def phys(packet, port_no):
                hit("method")
                return inner(packet, port_no)
            node.sw._output_packet_physical = phys
        for op in prims:
            if op["op"] == "acts":
                # an arbitrary action list over a NEW frame (packet_out with data, or a flow entry the arriving frame hits) or over a
                # BUFFERED packet (packet_out / flow_mod naming the id)
                act = self._item_actions(op["items"])
                f = op.get("fault")
                if f: armed[0] = {"site": f.get("site", "listener"), "k": f["k"], "exc": f["exc"], "n": 0, "fired": False}
                via, fired = "po", False
                if op["src"] == "new":
                    fr = frame2(op["i"], op["len"], op.get("kind", "raw"))
                    if op.get("how") == "entry" and not any(it[0] == "table" for it in op["items"]):
                        m = dict(match=of.ofp_match(in_port=op["port"], dl_dst=self.EthAddr(fr[:6])), priority=0xa000)
                        s1, r1, e1 = node.send(of.ofp_flow_mod(command=of.OFPFC_ADD, actions=act, **m))
                        if op.get("pd", True): st, rep, em = node.rx(fr, op["port"])
                        else:
                            # the other calling convention of rx_packet: no packed form handed in
                            node.emitted = []; st = "ok"
                            try: node.sw.rx_packet(self.swnet.ethernet(fr), op["port"])
                            except Exception as e: st = "raise:" + type(e).__name__
                            rep, em = node.drain(), list(node.emitted)
                        if armed[0] is not None: fired = armed[0]["fired"]; armed[0] = None
                        s2, r2, e2 = node.send(of.ofp_flow_mod(command=of.OFPFC_DELETE_STRICT, **m))
                        if (s1, s2) != ("ok", "ok") or r1 or r2 or e1 or e2: st = "entry-setup:%s/%s/%d/%d" % (s1, s2, len(r1), len(r2))
                        elif fired and st.startswith("raise:"): st = "ok"          # the injected exception reached the caller of rx_packet
                    else:
                        st, rep, em = node.send(of.ofp_packet_out(data=fr, in_port=op["port"], actions=act))
                else:
                    bid, via = op_id(op, outs), op.get("via", "po")
                    msg = of.ofp_packet_out(buffer_id=bid, in_port=of.OFPP_NONE, actions=act) if via == "po" else self._flow_mod(op, bid, act)
                    st, rep, em = node.send(msg)
                if armed[0] is not None: fired = armed[0]["fired"]; armed[0] = None
                errs, ref, rest = split(rep, via)
                o = pins(rest)
                if st != "ok" or len(errs) > 1 or len(ref) > 1 or any(q["k"] != "pin" for q in o) or (errs and (o or em)):
                    outs.append({"k": "unexpected", "status": st, "emitted": len(em), "replies": pins(rep)})
                else:
                    outs.append({"k": "acts", "pins": o, "em": side(em), "fired": fired})
                    if ref: outs[-1]["refused"] = 1
            elif op["op"] == "arrive":
                fr = frame(op["i"], op["len"])
                rw = op.get("rw")
                if op["dl"] is None and rw:
                    # a table miss from inside an action list: a packet_out sends the frame to the TABLE, no entry matches; the
                    # actions that follow go on rewriting it
                    st, rep, em = node.send(of.ofp_packet_out(data=fr, in_port=op["port"], actions=self._ctl_actions(None, rw)))
                elif op["dl"] is None:
                    st, rep, em = node.rx(fr, op["port"])
                elif op.get("how") == "entry":
                    # the same action list as a flow entry that the frame hits (installed for this frame, removed afterwards)
                    m = dict(match=of.ofp_match(in_port=op["port"], dl_dst=self.EthAddr(fr[:6])), priority=0xa000)
                    s1, r1, e1 = node.send(of.ofp_flow_mod(command=of.OFPFC_ADD, actions=self._ctl_actions(op["dl"], rw), **m))
                    st, rep, em = node.rx(fr, op["port"])
                    s2, r2, e2 = node.send(of.ofp_flow_mod(command=of.OFPFC_DELETE_STRICT, **m))
                    if (s1, s2) != ("ok", "ok") or r1 or r2 or e1 or e2: st = "entry-setup:%s/%s/%d/%d" % (s1, s2, len(r1), len(r2))
                else:
                    st, rep, em = node.send(of.ofp_packet_out(data=fr, in_port=op["port"], actions=self._ctl_actions(op["dl"], rw)))
                o = pins(rep)
                if st != "ok" or (em and not rw) or len(o) != 1: o = [{"k": "unexpected", "status": st, "emitted": len(em), "replies": o}]
                elif rw: o[0]["side"] = side(em)
                outs.append(o[0])
            elif op["op"] == "usectl":
                # release a buffer through an action list that sends the packet to the controller again
                bid, rw = op_id(op, outs), op.get("rw")
                act = self._ctl_actions(op["dl"], rw)
                if op["via"] == "po":
                    msg = of.ofp_packet_out(buffer_id=bid, in_port=of.OFPP_NONE, actions=act)
                else:
                    msg = self._flow_mod(op, bid, act)
                st, rep, em = node.send(msg)
                errs, ref, rest = split(rep, op["via"])
                o = pins(rest)
                if st != "ok" or (em and not rw) or len(errs) > 1 or len(ref) > 1 or (errs and (rest or em)) or len(o) > 1 or (o and o[0]["k"] != "pin") or (em and not o):
                    outs.append({"k": "unexpected", "status": st, "emitted": len(em), "replies": pins(rep)})
                elif o:
                    if rw: o[0]["side"] = side(em)
                    if ref: o[0]["refused"] = 1
                    outs.append(o[0])
                else: outs.append({"k": "none"})
            elif op["op"] in ("use", "drop"):
                # "drop": an EMPTY action list, or an output to a port the switch does not have — the packet is discarded, the
                # buffer is released all the same
                bid = op_id(op, outs)
                if op["op"] == "use": act = [of.ofp_action_output(port=of.OFPP_IN_PORT)]
                elif op.get("act") == "badport": act = [of.ofp_action_output(port=9)]
                else: act = []
                if op["via"] == "po":
                    msg = of.ofp_packet_out(buffer_id=bid, in_port=of.OFPP_NONE, actions=act)
                elif op["via"] == "pod":
                    # raw bytes: a packet_out naming the buffer AND carrying (other) packet data — OpenFlow 1.0: data is only
                    # meaningful when buffer_id is -1, so this uses (emits and frees) the buffered packet
                    b = bytearray(of.ofp_packet_out(in_port=of.OFPP_NONE, actions=act, data=frame(99, 20)).pack())
                    b[8:12] = (bid & 0xffffffff).to_bytes(4, "big")
                    msg = bytes(b)
                else:    # a flow_mod naming the buffer
                    msg = self._flow_mod(op, bid, act)
                st, rep, em = node.send(msg)
                # a buffer id that is not stored is answered with BAD_REQUEST / BUFFER_EMPTY(7) or BUFFER_UNKNOWN(8), a flow_mod the table
                # refuses with FLOW_MOD_FAILED (those replies are C13's subject); for this property what counts is which frame is
                # emitted and what is freed
                errs, ref, rest = split(rep, op["via"])
                if st != "ok" or rest or len(errs) > 1 or len(ref) > 1 or (errs and em) or len(em) > 1:
                    outs.append({"k": "unexpected", "status": st, "emitted": len(em), "replies": pins(rep)})
                elif em: outs.append({"k": "emit", "fr": em[0][1].hex(), "port": em[0][0]})
                else: outs.append({"k": "none"})
                if ref: outs[-1]["refused"] = 1
            elif op["op"] == "fmbad":
                # a flow_mod that NAMES a buffer but is refused before it is carried out (unknown command / an action type the
                # switch cannot execute): answered with an error, nothing is emitted and the buffer stays held
                if op["why"] == "cmd":
                    msg = of.ofp_flow_mod(match=of.ofp_match(in_port=77), buffer_id=op["id"], command=77, actions=[of.ofp_action_output(port=of.OFPP_IN_PORT)])
                else:
                    msg = of.ofp_flow_mod(match=of.ofp_match(in_port=77), buffer_id=op["id"], command=of.OFPFC_ADD,
                                          actions=[of.ofp_action_output(port=of.OFPP_IN_PORT), of.ofp_action_vendor_generic(vendor=0x2320, body=b"\0" * 4)])
                st, rep, em = node.send(msg)
                ok = st == "ok" and not em and len(rep) == 1 and isinstance(rep[0], of.ofp_error)
                outs.append({"k": "none"} if ok else {"k": "unexpected", "status": st, "emitted": len(em), "replies": pins(rep)})
            elif op["op"] == "install":
                # a flow_mod WITHOUT a buffer id installs an entry that covers every packet of one ingress port (and would send it
                # somewhere else than a later buffer release says): the pool must not care what the table holds (nor whether the
                # table took the entry: with a limited table the answer may be FLOW_MOD_FAILED)
                st, rep, em = node.send(of.ofp_flow_mod(match=of.ofp_match(in_port=op["inport"]), priority=0x9000, command=of.OFPFC_ADD,
                                                        actions=[of.ofp_action_output(port=op["out"])]))
                errs, ref, rest = split(rep, "fm")
                quiet = st == "ok" and not rest and not errs and not em and len(ref) <= (1 if case.get("entries") is not None else 0)
                outs.append({"k": "none"} if quiet else {"k": "unexpected", "status": st, "emitted": len(em), "replies": pins(rep)})
            else:
                st, rep, em = node.send(of.ofp_set_config(miss_send_len=op["n"]))
                outs.append({"k": "none"} if (st == "ok" and not rep and not em) else {"k": "unexpected", "status": st})
        return {"outs": outs, **self._stored(node, case)}

    def _stored(self, node, case):
        """how many packets the switch holds at the end.  Read from the slot list when the switch has one (the model is compared
        slot by slot then); otherwise measured from outside: packets that miss the table are buffered exactly while a buffer is free"""
        pb = getattr(node.sw, "_packet_buffer", None)
        if isinstance(pb, list):
            slots = [0 if b is None else 1 for b in pb]
            return {"stored": sum(slots), "slots": slots}
        free = 0
        for k in range(case["max"] + 1):
            st, rep, em = node.send(self.of.ofp_packet_out(data=frame(200 + k, 14), in_port=1, actions=[self.of.ofp_action_output(port=self.of.OFPP_CONTROLLER, max_len=0)]))
            if len(rep) != 1 or getattr(rep[0], "buffer_id", None) is None: break
            free += 1
        self._noslots = True
        return {"stored": case["max"] - free, "slots": None}

    def model_request(self, case):
        if any("ref" in op or op["op"] in ("userefs", "acts") for op in case["ops"]): return None      # needs the ids the switch handed out
        return self._model_request(case, None, {})

    def model_request2(self, case, obs):
        """steps that name 'the id handed out by step k' are put to the model with the id the switch handed out there; an action list
        (`acts`) is put to the model as the arrivals it amounts to (the frame as it is AT each buffering output, computed here) followed
        by the release of the buffer it names"""
        if len(obs.get("outs", ())) != len(expand(case)): return None
        acts = {}
        if self._walk(case, obs, acts, count=False) is not None: return None      # the property fails: reported as that, not compared
        return self._model_request(case, obs["outs"], acts)

    def _model_request(self, case, outs, acts):
        ops = []
        for n, op in enumerate(expand(case)):
            if op["op"] == "arrive": ops.append({"op": "arrive", "fr": rewrite(frame(op["i"], op["len"]), (op.get("rw") or {}).get("pre")).hex(), "port": op["port"], "dl": op["dl"]})
            elif op["op"] == "acts": ops += acts[n][0]
            elif op["op"] == "use": ops.append({"op": "use", "id": op_id(op, outs)})
            elif op["op"] == "drop": ops.append({"op": "drop", "id": op_id(op, outs)})
            elif op["op"] == "usectl": ops.append({"op": "usectl", "id": op_id(op, outs), "dl": op["dl"]})
            elif op["op"] in ("install", "fmbad"): ops.append({"op": "other"})
            else: ops.append({"op": "setmiss", "n": op["n"]})
        return {"max": case["max"], "miss": case["miss"], "ops": ops}

    def model_obs(self, case, resp):
        if self._noslots and isinstance(resp, dict) and "slots" in resp: resp = dict(resp, slots=None)      # the switch shows no slot list to compare with
        return resp

    def impl_view(self, case, obs):
        """what the model answers: the packet-ins, the frames a release emits, the slot list.  What the OTHER actions of an action list
        emitted (`side`, `em`) and whether the table refused a flow_mod (`refused`) are outside the model — the oracle looks at them"""
        strip = lambda o: {k: v for k, v in o.items() if k not in ("side", "refused")}
        outs = obs["outs"]
        if any(o.get("k") == "acts" for o in outs):
            acts, flat = {}, []
            self._walk(case, obs, acts, count=False)
            for n, o in enumerate(outs):
                if o.get("k") == "acts": flat += acts[n][1] if n in acts else [o]
                else: flat.append(strip(o))
            outs = flat
        else:
            outs = [strip(o) for o in outs]
        return {"outs": outs, "stored": obs["stored"], "slots": obs["slots"]}

    # the property on the implementation's observables: an abstract id -> frame map with capacity
    def oracle(self, case, obs):
        return self._walk(case, obs, {}, count=True)

    def _walk(self, case, obs, acts, count=True):
        """-> a failure of the property or None.  Fills acts[n] = (model ops, their view of the observed outputs) for every action-list step n."""
        live, miss = {}, case["miss"]
        prims = expand(case)
        if len(obs["outs"]) != len(prims): return "harness: output count"
        most = 0
        stats = self.stats if count else dict(self.stats)
        def pin_check(o, fr, port, dl, freed=None):
            """the packet-in for frame `fr`: form, id not outstanding, bound.  `freed`: the id being released by the very action list
            that produced this packet-in (its slot may or may not count as occupied at that moment).  Returns a failure or None"""
            if o["total"] != len(fr): return "packet-in total_len %d != frame length %d" % (o["total"], len(fr))
            bid = o["bid"]
            if bid is None:
                if len(live) < case["max"]: return "no buffer id although %d of %d buffers are in use" % (len(live), case["max"])
                if o["data"] != fr.hex(): return "unbuffered packet-in does not carry the whole frame"
            else:
                if bid in live: return "buffer id %d handed out twice" % bid
                if len(live) - (0 if freed is None else 1) >= case["max"]: return "more than max_buffers packets stored"
                if o["data"] != fr[:dl].hex(): return "buffered packet-in data is not the first min(len, %d) bytes" % dl
            return None
        def wrong_emit(bid, o):
            fr, port, later = live[bid]
            if o["k"] == "emit" and o["fr"] == fr.hex() and o["port"] == port: return None
            if later is not None and o["k"] == "emit" and o["fr"] == later.hex():
                return "using live buffer %d emitted the packet as rewritten by actions that ran AFTER it was buffered, not the packet the id was handed out for" % bid
            return "using live buffer %d did not emit its packet" % bid
        for n, (op, o) in enumerate(zip(prims, obs["outs"])):
            if o["k"] == "unexpected": return "step %d %s: %s" % (n, op["op"], o.get("status"))
            if op["op"] == "acts":
                if o["k"] != "acts": return "harness: step %d" % n
                oid = None
                if op["src"] == "new":
                    cur, port = frame2(op["i"], op["len"], op.get("kind", "raw")), op["port"]
                else:
                    oid = op_id(op, obs["outs"])
                    if oid not in live:
                        if o["pins"] or o["em"] or o["fired"]: return "using unknown/used buffer id emitted a packet"
                        acts[n] = ([{"op": "drop", "id": oid}], [{"k": "none"}])
                        continue
                    cur, port = live[oid][0], live[oid][1]
                # what the list amounts to, item by item, on the frame as it is at that item
                sends, cut, exp_pins, exp_em, fault = 0, None, [], [], op.get("fault")
                for j, it in enumerate(op["items"]):
                    k = it[0]
                    if k in REWRITES: cur = rw_bytes(it, cur); continue
                    if k == "ctl": exp_pins.append((j, cur, it[1])); continue
                    if k == "table": exp_pins.append((j, cur, None)); continue
                    if k in ("out", "enq"): targets = [it[1]] if (it[1] != port and 1 <= it[1] <= 4) else []
                    elif k == "inport": targets = [port]
                    else: targets = [q for q in (1, 2, 3, 4) if q != port]
                    exp_em += [(j, q, cur) for q in targets]
                    sends += len(targets)
                    if fault and cut is None and sends >= fault["k"]: cut = j
                if o["fired"] and cut is None: return "a physical output happened that the action list does not ask for"
                if not o["fired"]: cut = None          # no fault (or it was never reached): the whole list is expected
                # after a fault the rest of the list may or may not be carried out (the property is silent); what precedes it must be
                need = [e for e in exp_pins if cut is None or e[0] < cut]
                if not (len(need) <= len(o["pins"]) <= len(exp_pins)):
                    return "action list produced %d packet-ins, expected %d" % (len(o["pins"]), len(need))
                mops, mview = [], []
                for q, (j, fr, dl) in zip(o["pins"], exp_pins):
                    if q["port"] != port: return "packet-in in_port wrong"
                    f = pin_check(q, fr, port, miss if dl is None else dl, freed=oid)
                    if f: return f
                    if q["bid"] is not None: live[q["bid"]] = (fr, port, cur if cur != fr else None)
                    if cut is None or j < cut:
                        mops.append({"op": "arrive", "fr": fr.hex(), "port": port, "dl": dl})
                    mview.append({k: v for k, v in q.items() if k in ("k", "bid", "data", "total", "port")})
                if oid is not None:
                    # "using it emits that packet through the given actions": what left the ports, as multisets per (port, frame)
                    seen = sorted(map(tuple, o["em"]))
                    must = sorted((q, fr.hex()) for j, q, fr in exp_em if cut is None or j < cut)
                    may = sorted((q, fr.hex()) for j, q, fr in exp_em)
                    def sub(x, y):
                        y = list(y)
                        for e in x:
                            if e not in y: return False
                            y.remove(e)
                        return True
                    if not (sub(must, seen) and sub(seen, may)): return "using live buffer %d did not emit its packet through the given actions" % oid
                    del live[oid]              # used: released whether or not an output failed
                    mops.append({"op": "drop", "id": oid}); mview.append({"k": "none"})
                    if o["fired"]: stats["faulted_releases"] = stats.get("faulted_releases", 0) + 1
                if not mops: mops.append({"op": "other"}); mview.append({"k": "none"})
                acts[n] = (mops, mview)
                if o["pins"]: stats["action_list_packet_ins"] = stats.get("action_list_packet_ins", 0) + len(o["pins"])
            elif op["op"] == "arrive":
                rw = op.get("rw") or {}
                fr = rewrite(frame(op["i"], op["len"]), rw.get("pre")); dl = miss if op["dl"] is None else op["dl"]
                fr2 = rewrite(fr, rw.get("post"))
                if o["k"] != "pin": return "arrival produced no packet-in"
                if o["port"] != op["port"]: return "packet-in in_port wrong"
                f = pin_check(o, fr, op["port"], dl)
                if f: return f
                # (what the actions after the output emit — `side` — is C12's subject; here: the packet-in and what the id stands for)
                if o["bid"] is not None: live[o["bid"]] = (fr, op["port"], fr2 if fr2 != fr else None)
            elif op["op"] == "usectl":
                oid = op_id(op, obs["outs"])
                if oid in live:
                    fr, port, later = live[oid]
                    rw = op.get("rw") or {}
                    if o["k"] != "pin": return "releasing live buffer %d to the controller produced no packet-in" % oid
                    if o["port"] != port or o["total"] != len(fr): return "re-announced packet-in has wrong in_port/total_len"
                    if later is not None and o["data"] in (later.hex(), later[:op["dl"]].hex()) and o["data"] not in (fr.hex(), fr[:op["dl"]].hex()):
                        return "using live buffer %d emitted the packet as rewritten by actions that ran AFTER it was buffered, not the packet the id was handed out for" % oid
                    f = pin_check(o, fr, port, op["dl"], freed=oid)
                    if f: return f
                    del live[oid]
                    # (diagnosis only) what an object shared with the action list would look like by now
                    alt = rewrite(later if later is not None else fr, rw.get("post"))
                    if o["bid"] is not None: live[o["bid"]] = (fr, port, alt if alt != fr else None)
                    if o.get("refused"): stats["refused_flow_mods_naming_a_live_buffer"] += 1
                else:
                    if o["k"] != "none": return "using unknown/used buffer id emitted a packet"
            elif op["op"] == "drop":
                oid = op_id(op, obs["outs"])
                if oid in live and o.get("refused"): stats["refused_flow_mods_naming_a_live_buffer"] += 1
                live.pop(oid, None)              # released whether or not anything is emitted (checked by the stored count and by later uses)
                if o["k"] != "none": return "a packet-out/flow-mod with an empty action list emitted a packet"
            elif op["op"] == "use":
                oid = op_id(op, obs["outs"])
                if oid in live:
                    f = wrong_emit(oid, o)
                    if f: return f
                    if live[oid][2] is not None: stats["releases_after_later_rewrite"] += 1
                    if o.get("refused"): stats["refused_flow_mods_naming_a_live_buffer"] += 1
                    del live[oid]
                else:
                    if o["k"] != "none": return "using unknown/used buffer id emitted a packet"
            elif op["op"] == "install":
                if o["k"] != "none": return "a flow_mod without a buffer id produced output"
            elif op["op"] == "fmbad":
                if o["k"] != "none": return "a refused flow_mod emitted a packet"      # and `live` is unchanged: the buffer stays held
            else:
                miss = op["n"]
                if o["k"] != "none": return "set_config produced output"
            most = max(most, len(live))
        if obs["stored"] != len(live): return "stored packets %d != outstanding ids %d" % (obs["stored"], len(live))
        if obs["stored"] > case["max"]: return "stored exceeds max_buffers"
        stats["largest_number_outstanding"] = max(stats["largest_number_outstanding"], most)
        return None

    def finding_key(self, case, obs, failure):
        import re
        return re.sub(r"\d+", "N", failure)

    def nontrivial(self, case, obs):
        ids = [o.get("bid") for o in obs["outs"] if o.get("k") == "pin"]
        return any(o.get("k") == "emit" for o in obs["outs"]) or (None in ids and case["max"] > 0)

    def extra_evidence(self):
        return {"c18_counts": dict(self.stats)}

CHECK = C18
