"""Bring up just enough of POX in-process for the harnesses: logging silenced, virtual clock, core + OpenFlow nexus,
deferred sender stubbed.  Nothing in /repo is edited; everything is patched from outside (DESIGN §1 "Hooks")."""
import sys, time, logging, common

class Clock:
    def __init__(self): self.now = 1000.0
    def __call__(self): return self.now
    def advance(self, dt): self.now += dt

clock = Clock()
_real_time = time.time
_booted = {}

class StubDeferredSender:
    sending = False
    def send(self, con, data): self.deferred.append((con, data))
    def __init__(self): self.deferred = []
    def kill(self, con): pass

def boot(openflow=True, virtual_time=True):
    logging.disable(logging.CRITICAL)
    if virtual_time:
        time.time = clock
    import pox.core
    if pox.core.core is None:
        # a core whose scheduler is never started (no threads in the harness); the banner goes to stderr
        import pox.lib.recoco as recoco, contextlib
        real = recoco.Scheduler
        def quiet_scheduler(*a, **kw):
            kw["startInThread"] = False; kw["threaded_selecthub"] = False
            return real(*a, **kw)
        recoco.Scheduler = quiet_scheduler
        try:
            with contextlib.redirect_stdout(sys.stderr):
                pox.core.initialize(threaded_selecthub=False, handle_signals=False)
        finally:
            recoco.Scheduler = real
    core = pox.core.core
    if openflow and "of" not in _booted:
        import pox.openflow
        if not core.hasComponent("openflow"):
            pox.openflow.launch()
        import pox.openflow.of_01 as of_01
        of_01.deferredSender = StubDeferredSender()
        _booted["of"] = True
    return core
