"""C13 — every switch request is answered once, with its transaction id, in order (DESIGN §5 C13).

translate : harness/translate/dispatch_tables.py regenerates lean/PoxModel/Generated/SwitchDispatch.lean from $POX_REPO
            (the four handler tables of a live SoftwareSwitch, message / stats-request class registries, constants).
model     : drv_c13 runs `rxMessage` (Model/SwitchReq.lean) over a request sequence from an initial state read off the
            real switch object.
impl      : real SoftwareSwitch + OFConnection + IOWorker (harness/swnet.py); every request goes in as BYTES (one push per
            request, or the whole sequence in arbitrary chunks), everything the switch writes is decoded here with
            `struct` against the OpenFlow 1.0 layouts (not with the library's decoders).
oracle    : the property on those observables only (one reply per request kind with the request's xid, none for silent
            kinds, order, error codes of the standard, no internal failure, connection alive; the data of a table / flow /
            aggregate statistics reply — active, lookup, matched and per-entry packet counts — against the oracle's own
            count of the packets the history sent through the table).
"""
import os, sys, json, struct, copy
import common, poxenv, ofgen
from common import Check

sys.path.insert(0, os.path.join(os.path.dirname(os.path.abspath(__file__)), "translate"))
import dispatch_tables

# Validation aid, OFF by default (same device as harness/c14.py): `C13_PROPOSED_FINDINGS=/verif/fixes/C13_proposed_findings.json
# ./check C13` lets the runner treat the known-finding entries proposed in the report as if they were already merged into
# known_findings.json (which this module must not edit).
if os.environ.get("C13_PROPOSED_FINDINGS"):
    _orig_init = common.Findings.__init__
    def _init(self):
        _orig_init(self)
        extra = json.load(open(os.environ["C13_PROPOSED_FINDINGS"]))["findings"]
        have = {f.get("id") for f in self.open}
        self.open += [f for f in extra if f.get("status", "open") == "open" and f.get("id") not in have]
    common.Findings.__init__ = _init

U16, U32 = 0xffff, 0xffffffff
OFPP_MAX, OFPP_IN_PORT, OFPP_TABLE, OFPP_NORMAL, OFPP_FLOOD, OFPP_ALL, OFPP_CONTROLLER, OFPP_LOCAL, OFPP_NONE = \
    0xff00, 0xfff8, 0xfff9, 0xfffa, 0xfffb, 0xfffc, 0xfffd, 0xfffe, 0xffff
OFPQ_ALL = 0xffffffff
ASYNC = ("packet_in", "port_status", "flow_removed")
REQUEST_KINDS = ("echo_request", "features_request", "get_config_request", "barrier_request", "stats_request", "queue_get_config_request")
FRAME = bytes([0, 0, 0, 0, 0, 2, 0, 0, 0, 0, 0, 1, 0x88, 0xb5]) + bytes(range(20))
UNHANDLED_KINDS = {1: "error", 6: "features_reply", 8: "get_config_reply", 10: "packet_in", 11: "flow_removed", 12: "port_status",
                   17: "stats_reply", 19: "barrier_reply", 21: "queue_get_config_reply"}
STATS_CODE = {"desc": 0, "flow": 1, "aggregate": 2, "table": 3, "port": 4, "queue": 5}


# ----------------------------------------------------------------------------- independent decoder of what the switch writes

def _phy(b):
    no, hw = struct.unpack_from("!H6s", b, 0)
    config, state = struct.unpack_from("!LL", b, 24)
    return [no, int.from_bytes(hw, "big"), config, state]


def _mkey(m):
    wc, in_port = struct.unpack_from("!LH", m, 0)
    return None if wc & 1 else in_port


def decode_one(t, xid, body):
    try:
        if t == 0: return {"t": "hello", "xid": xid}
        if t == 1:
            et, code = struct.unpack_from("!HH", body, 0)
            return {"t": "error", "xid": xid, "etype": et, "code": code, "data": body[4:].hex()}
        if t == 3: return {"t": "echo_reply", "xid": xid, "body": body.hex()}
        if t == 6:
            dpid, nbuf, ntab, caps, acts = struct.unpack_from("!QLB3xLL", body, 0)
            rest = body[24:]
            if len(rest) % 48: return {"t": "features_reply", "xid": xid, "malformed": len(rest)}
            return {"t": "features_reply", "xid": xid, "dpid": dpid, "nbuf": nbuf, "ntab": ntab, "caps": caps, "acts": acts,
                    "ports": [_phy(rest[i:i + 48]) for i in range(0, len(rest), 48)]}
        if t == 8:
            flags, miss = struct.unpack_from("!HH", body, 0)
            return {"t": "get_config_reply", "xid": xid, "flags": flags, "miss": miss}
        if t == 10:
            bid, _tl, inp = struct.unpack_from("!LHH", body, 0)
            return {"t": "packet_in", "bid": None if bid == U32 else bid, "inp": inp}
        if t == 11:
            cookie, prio, reason = struct.unpack_from("!QHB", body, 40)
            return {"t": "flow_removed", "prio": prio, "cookie": cookie, "reason": reason}
        if t == 12:
            return {"t": "port_status", "reason": body[0], "port": _phy(body[8:56])}
        if t == 17:
            st, flags = struct.unpack_from("!HH", body, 0)
            b = body[4:]
            r = {"t": "stats_reply", "xid": xid, "stype": st}
            if flags: r["flags"] = flags
            bad = {"k": "malformed", "len": len(b)}
            if st == 0: r["body"] = {"k": "desc"} if len(b) == 1056 else bad
            elif st == 1:
                l, off = [], 0
                while off < len(b):
                    ln, = struct.unpack_from("!H", b, off)
                    if ln < 88 or off + ln > len(b): l = None; break
                    prio, = struct.unpack_from("!H", b, off + 52)
                    cookie, pkts, byts = struct.unpack_from("!QQQ", b, off + 64)
                    l.append([prio, cookie, _mkey(b[off + 4:off + 44]), pkts, byts]); off += ln
                r["body"] = bad if l is None else {"k": "flows", "l": l}
            elif st == 2:
                if len(b) == 24:
                    pk, by, n = struct.unpack_from("!QQL", b, 0)
                    r["body"] = {"k": "aggregate", "n": n, "packets": pk, "bytes": by}
                else: r["body"] = bad
            elif st == 3:
                if len(b) == 64:
                    mx, active, lookup, matched = struct.unpack_from("!LLQQ", b, 40)
                    r["body"] = {"k": "table", "v": [mx, active, lookup, matched]}
                else: r["body"] = bad
            elif st == 4:
                r["body"] = bad if len(b) % 104 else {"k": "ports", "l": [[struct.unpack_from("!H", b, i)[0]] + list(struct.unpack_from("!QQQQ", b, i + 8))
                                                                       for i in range(0, len(b), 104)]}
            elif st == 5: r["body"] = bad if len(b) % 32 else {"k": "queues", "n": len(b) // 32}
            else: r["body"] = {"k": "raw", "len": len(b)}
            return r
        if t == 19: return {"t": "barrier_reply", "xid": xid}
        if t == 21:
            port, = struct.unpack_from("!H", body, 0)
            nq, off, b = 0, 0, body[8:]
            while off < len(b):
                ln, = struct.unpack_from("!H", b, off + 4)
                if ln < 8: return {"t": "queue_get_config_reply", "xid": xid, "malformed": len(b)}
                nq += 1; off += ln
            return {"t": "queue_get_config_reply", "xid": xid, "port": port, "nq": nq}
    except struct.error:
        return {"t": "undecodable", "type": t, "xid": xid, "len": len(body)}
    return {"t": "type%d" % t, "xid": xid}


def decode_stream(buf):
    out, off = [], 0
    while off < len(buf):
        if len(buf) - off < 8:
            out.append({"t": "garbage", "len": len(buf) - off}); break
        ver, t, ln, xid = struct.unpack_from("!BBHL", buf, off)
        if ver != 1 or ln < 8 or off + ln > len(buf):
            out.append({"t": "garbage", "len": len(buf) - off}); break
        out.append(decode_one(t, xid, buf[off + 8:off + ln])); off += ln
    return out


# ----------------------------------------------------------------------------- the oracle's own flow table (OpenFlow 1.0 §4.6, from the text)

class SpecTable:
    """What the standard says the table holds after a history of FLOW_MODs, for the match family the harness uses
    (`None` = everything wildcarded, k = in_port k only).  Written from the specification, not from the model: ADD replaces
    the identical entry (same match and priority); CHECK_OVERLAP refuses when a single packet could match the new entry and an
    entry of equal priority; MODIFY[_STRICT] replaces the actions of the matching entries and acts like ADD when there is
    none; DELETE[_STRICT] removes the matching entries that have an output action to out_port (OFPP_NONE = no restriction);
    non-strict matching = the request's match covers the entry's match; a statistics request selects the same way."""
    def __init__(self, capacity):
        self.flows, self.capacity = [], capacity
    @staticmethod
    def covers(req, ent): return req is None or req == ent
    @staticmethod
    def overlaps(a, b): return a is None or b is None or a == b
    def select(self, mk, prio, strict, out_port):
        return [f for f in self.flows
                if ((f["mkey"] == mk and f["prio"] == prio) if strict else self.covers(mk, f["mkey"]))
                and (out_port == OFPP_NONE or out_port in f["outs"])]
    def stats_select(self, mk, table_id, out_port):
        if table_id not in (0, 0xff): return []
        return self.select(mk, 0, False, out_port)
    def flow_mod(self, m):
        """apply a flow_mod with a valid command; returns (acceptable FLOW_MOD_FAILED codes or None = must succeed,
        the removed entries whose removal must be notified)"""
        cmd, mk, prio, flags = m["cmd"], m["mkey"], m["prio"], m["flags"]
        outs = [a[1] for a in m["acts"] if a[0] == 0]
        if cmd in (3, 4):
            gone = self.select(mk, prio, cmd == 4, m["out_port"])
            self.flows = [f for f in self.flows if not any(f is g for g in gone)]
            return None, [f for f in gone if f["flags"] & 1 and not f["flags"] & 4]
        if cmd in (1, 2):
            hit = self.select(mk, prio, cmd == 2, OFPP_NONE)
            if hit:
                for f in hit: f["outs"] = list(outs)
                return None, []
        # ADD, or MODIFY without a matching entry
        if flags & 4:                                                   # emergency entries: this switch has no emergency table
            return ({(3, 3)} if (m["idle"] or m["hard"]) else {(3, 0), (3, 2), (3, 5)}), []
        over = bool(flags & 2) and any(f["prio"] == prio and self.overlaps(mk, f["mkey"]) for f in self.flows)
        rest = [f for f in self.flows if not (f["mkey"] == mk and f["prio"] == prio)] if cmd == 0 else self.flows
        full = len(rest) >= self.capacity
        if over or full:
            return ({(3, 1)} if over else set()) | ({(3, 0)} if full else set()), []
        self.flows = rest + [{"mkey": mk, "prio": prio, "cookie": m["cookie"], "flags": flags, "outs": list(outs)}]
        return None, []


# ----------------------------------------------------------------------------- the check

class C13(Check):
    id = "C13"
    prop_module = "PoxModel.Properties.C13"
    lean_targets = ["drv_c13"]
    driver = "drv_c13"
    theorems = ["Pox.C13.dispatch_agrees", "Pox.C13.classes_agree", "Pox.C13.requests_handled", "Pox.C13.consts_spec",
                "Pox.C13.one_reply", "Pox.C13.stats_spec", "Pox.C13.oversize_entry_fails", "Pox.C13.multipart_split", "Pox.C13.silent_kinds", "Pox.C13.handled_partial", "Pox.C13.never_fails_partial", "Pox.C13.order", "Pox.C13.stream_concat",
                "Pox.C13.barrier_after", "Pox.C13.errors_spec", "Pox.C13.replies_carry_xid", "Pox.C13.set_config_visible",
                "Pox.C13.unhandled_type_fails",
                "Pox.C13.history_answered_partial", "Pox.C13.history_events_partial", "Pox.C13.rejected_answered", "Pox.C13.runEv_msgs",
                "Pox.C13.step_fit", "Pox.C13.allAnswered_index", "Pox.C13.history_barrier", "Pox.C13.step_cases", "Pox.C13.history_ident",
                "Pox.C13.features_after_history", "Pox.C13.config_after_history",
                "Pox.C13.table_counters_packet_out", "Pox.C13.table_counters_other", "Pox.C13.table_counters_rx", "Pox.C13.matched_le_lookup",
                "Pox.C13.history_matched_le_lookup", "Pox.C13.step_noresubmit"]
    anchors = [("pox/datapaths/switch.py", "SoftwareSwitchBase." + m) for m in (
                   "__init__", "rx_message", "send", "_rx_hello", "_rx_echo_request", "_rx_features_request", "_rx_flow_mod", "_rx_packet_out",
                   "_rx_echo_reply", "_rx_barrier_request", "_rx_get_config_request", "_rx_stats_request", "_rx_set_config", "_rx_port_mod",
                   "_rx_vendor", "_rx_queue_get_config_request", "send_hello", "send_error", "_process_actions_for_packet_from_buffer",
                   "_stats_desc", "_stats_flow", "_stats_aggregate", "_stats_table", "_stats_port", "_stats_queue")] + \
              [("pox/datapaths/switch.py", "OFConnection.send")]
    coverage_cases = 200
    design_ref = "DESIGN.md §5 C13"
    technique = ("Lean 4 proof over a hand-written executable model of rx_message and the _rx_*/_stats_*/_flow_mod_* handlers, whose dispatch tables, "
                 "message classes and constants are read off a live switch object on every run (translator with a runtime probe) and compared by `decide`; "
                 "differential correspondence through the byte-level switch connection; independent reply oracle")
    level_text = ("Theorems (all states, all bodies, all histories, no bound). one_reply — echo/features/get-config/barrier/each stats type/queue-get-config yields exactly one "
                  "complete answer (one message, or several OFPSF_REPLY_MORE parts each fitting a message), every part with the request's xid; it is the specified reply built from "
                  "the state at that moment (exact flow selection by match/table/out_port, current packet/byte/port/table counters) or the specified error; the state is unchanged. "
                  "silent_kinds — set_config, echo_reply, a second hello, an accepted port_mod, packet_out and an accepted flow_mod write only asynchronous notifications. "
                  "handled_partial/never_fails_partial/replies_carry_xid — for the modelled action vocabulary handling never fails and everything written is asynchronous or carries the "
                  "request's xid. Ordering clause: history_answered_partial + history_barrier + history_events_partial (which use those handler facts: per-message groups in request order, "
                  "each request answered completely before the next group starts, a barrier reply after the complete answers to everything earlier, traffic and connection-level "
                  "rejections interleaved); order/stream_concat/barrier_after alone are only the composition law of a left fold. errors_spec — each invalid port/queue/command/stats "
                  "type/vendor/action/buffer class maps to the error type and code of OpenFlow 1.0; rejected_answered — a message the connection rejects gets one error with ITS xid. "
                  "history_ident/features_after_history/config_after_history — what features and get-config report after any history. "
                  "table_counters_packet_out / table_counters_other / table_counters_rx — the two OFPST_TABLE counters move by exactly the packets that reach the table, whichever way "
                  "(a frame on a receiving port: one lookup; a packet_out: one per output:TABLE action it carries out, none for a dead buffer; no other message: none), matched_count by the "
                  "same number when an entry matches the in_port; matched_le_lookup / history_matched_le_lookup — matched_count <= lookup_count after every mixed history. dispatch_agrees/classes_agree/requests_handled — "
                  "the model's tables equal those of the live switch object and every controller-to-switch type of the standard has a handler.")
    level_note = ("Proved about the model only; the model is tied to the code by (a) the `decide` obligations over data read off the live switch and (b) the correspondence run. "
                  "`_partial` theorems: InScope = no enqueue and no output:TABLE in the message's action list (C12); packet_out data is opaque (parsing/rewriting controller-chosen bytes is C12/C15). "
                  "output:TABLE in a packet_out IS modelled (lookupPacket: lookup_count, first matching entry, matched_count, the entry's outputs resp. the table-miss packet_in) and covered by the "
                  "table_counters theorems; still unmodelled: output:TABLE in a flow_mod's list and among the actions of a hit entry (NoResubmit is a hypothesis of history_events_partial, "
                  "kept by every in-scope message: step_noresubmit). "
                  "never_fails_full states the unproved full claim. FlowsFit (every installed flow can be encoded in one reply part, action list <= 65435 bytes) is a hypothesis, an invariant "
                  "of admissible histories (step_fit), and oversize_entry_fails shows it is needed. The data path beyond the table lookup is not modelled: its effect on port / per-entry counters "
                  "and buffers is fed to the model as observed snapshots (Event.traffic, Event.rx); the theorems hold for every snapshot. lookup_count / matched_count are NOT fed: the model "
                  "counts them (a frame is Event.rx in_port: missing port / OFPPC_NO_RECV, else one lookup). Abstractions: matches are {all-wildcard, in_port=k}; actions are (type, output port, length); "
                  "malformed bodies beyond the connection-level rejection are C10's. The model follows the REPAIRED code: D9, D10, D27, C13-1, C13-2 committed; C13-3 = "
                  "fixes/C13-3_stats_reply_multipart.diff (a statistics body longer than a message is sent in parts). C13-4 committed; C13-5 = fixes/C13-5_flow_mod_too_many_actions.diff (an ADD/MODIFY "
                  "flow_mod whose flow could not be reported in a statistics reply is refused with BAD_ACTION/TOO_MANY: FlowsFit becomes an invariant of every history, step_fit); C13-6 = "
                  "fixes/C13-6_send_error_oversize_request.diff (an error quotes at most what fits). For arbitrary states rxStats stays partial: Err.struct k = k parts were sent, then pack raised "
                  "(oversize_entry_fails).")
    trusted_base = ["model Model/SwitchReq.lean hand-written from pox/datapaths/switch.py (+ flow_table.py for the table summary); tied by the dispatch/class `decide` obligations and this correspondence run",
                    "harness/translate/dispatch_tables.py (reads the four handler tables and the class registries off a live SoftwareSwitch in a child process; ast reading of the constructor only as fallback)",
                    "harness/swnet.py byte-level node; the struct-based reply decoder in harness/c13.py"]
    assumptions = ["single-threaded datapath: one message is handled to completion before the next (cooperative tasks)",
                   "messages are well-formed encodings produced by the library's own classes (malformed input is C10)",
                   "action lists do not contain enqueue; output:TABLE only in packet_out (the standard allows it nowhere else), never among a table entry's actions (C12); flow-mod matches are "
                   "all-wildcard or in_port only (match semantics are C03/C04)",
                   "data-plane frames of the histories are neither spanning-tree frames nor IP fragments (rx_packet's other receive checks are C12's)",
                   "data-plane traffic between the requests is an environment step: the port / per-entry counters and buffer occupancy it leaves are read off the real switch and handed to the model "
                   "(how traffic moves them is C12/C04); the table counters are predicted by model and oracle",
                   "the in_port of a buffered packet is the one announced in the packet_in that handed the buffer id out (read from the wire)"]
    rule = ("case = (switch state: port set incl. deleted ports, buffer/table capacity; 1..40 messages of the 13 controller-to-switch types and 6+unknown stats types with arbitrary "
            "xids and valid/invalid ports, tables, queues, buffers, commands, actions; mode step = one push per message, batch = whole byte stream in random chunks, unique xids, "
            "replies paired by xid); interleaved: data-plane frames and packet_outs that move port/flow/table counters with the same statistics request repeated after them, and messages the "
            "connection itself rejects (unknown type, ill-sized / undecodable body, foreign version) at every position of a read; corpus = every request kind alone and after hello, "
            "every error class, orderings with barrier, poll-traffic-poll sequences, rejected messages first/middle/last, an 800-flow table (multipart reply); "
            "table-counter family: every way a packet reaches the flow table (frame on a live / deleted / unknown / non-receiving port, packet_out output:TABLE carrying the packet or naming a "
            "live / used / unknown buffer, one or several submissions per action list, an unsupported action in front or behind, flow_mod naming a buffer), hitting and missing, with table / "
            "flow / aggregate statistics after each step; the oracle keeps its own lookup / matched / per-entry hit counts from the history (OpenFlow 1.0 ofp_table_stats); "
            "non-trivial = at least two different reply kinds or an error were produced")

    def translate(self):
        return dispatch_tables.main(common.REPO, os.path.join(common.LEAN, "PoxModel", "Generated", "SwitchDispatch.lean"))

    def setup(self):
        poxenv.boot()
        import swnet, pox.openflow.libopenflow_01 as of
        from pox.lib.addresses import EthAddr, IPAddr
        from pox.datapaths.switch import OFConnection
        self.swnet, self.of, self.EthAddr, self.IPAddr, self.OFConnection = swnet, of, EthAddr, IPAddr, OFConnection
        from pox.lib.ioworker import IOWorker
        self.IOWorker = IOWorker
        from pox.lib.packet.ethernet import ethernet
        self.ethernet = ethernet

    # ------------------------------------------------------------------ real node

    # capability bits of OpenFlow 1.0 (enum ofp_capabilities); the default switch answers flow, table and port statistics
    CAP_BITS = {"cap_flow_stats": 1, "cap_table_stats": 2, "cap_port_stats": 4, "cap_stp": 8, "cap_reserved": 16, "cap_ip_reasm": 32,
                "cap_queue_stats": 64, "cap_arp_match_ip": 128}
    DEFAULT_CAPS = ("cap_flow_stats", "cap_table_stats", "cap_port_stats")
    ALL_ACTIONS = 0xfff                      # OFPAT_OUTPUT .. OFPAT_ENQUEUE (bits 0..11): every action the switch has a handler for
    DEFAULT_MISS_SEND_LEN = 128              # OFP_DEFAULT_MISS_SEND_LEN

    def spec_caps(self, st):
        f = st.get("features")
        names = self.DEFAULT_CAPS if f is None else [k for k, v in f.items() if v]
        return sum(self.CAP_BITS[k] for k in names)

    def spec_miss(self, st):
        return self.DEFAULT_MISS_SEND_LEN if st["miss"] is None else st["miss"]

    def make_node(self, st):
        """a real switch in the state the case describes, built with the tree's own constructors (harness/swnet.py's
        SwitchNode); only what the case names is passed, the rest is the constructor's default"""
        from pox.datapaths.switch import SwitchFeatures
        kw = {"max_buffers": st["max_buffers"], "max_entries": st["max_entries"]}
        if st["miss"] is not None: kw["miss_send_len"] = st["miss"]
        if st.get("features") is not None:
            f = SwitchFeatures()
            for k, v in st["features"].items(): setattr(f, k, bool(v))
            for a in ("output", "enqueue", "strip_vlan", "set_vlan_vid", "set_vlan_pcp", "set_dl_dst", "set_dl_src", "set_nw_dst", "set_nw_src",
                      "set_nw_tos", "set_tp_dst", "set_tp_src"):
                setattr(f, "act_" + a, True)
            kw["features"] = f
        node = self.swnet.SwitchNode.__new__(self.swnet.SwitchNode)
        node.w = self.IOWorker(); node.w.socket = self.swnet.DummySock()
        node.sw = self.swnet.SoftwareSwitch(dpid=st.get("dpid", 1), ports=0, **kw)
        node.ofc = self.OFConnection(node.w)
        node.sw.set_connection(node.ofc)
        node.emitted = []
        for p in st["ports"]:
            node.sw.add_port(node.sw.generate_port(p, name="p%d" % p))
        for p in st.get("deleted", []):
            node.sw.delete_port(p)
        node.w.send_buf = b""
        return node

    def hw_of(self, st, port):
        """hardware address (int) the switch gives port `port` (0 if the tree cannot even build the switch)"""
        try:
            node = self.make_node({**st, "ports": [port], "deleted": [], "features": None})
            return int.from_bytes(node.sw.ports[port].hw_addr.toRaw(), "big")
        except Exception:
            return 0

    def model_state(self, st):
        """the initial state handed to the model: the case's own numbers and the specification's defaults; only the ports'
        generated addresses / initial config bits are read off a real switch"""
        node = self.make_node(st)
        sw = node.sw
        return {"dpid": st.get("dpid", 1), "max_buffers": st["max_buffers"], "max_entries": st["max_entries"], "caps": self.spec_caps(st),
                "actions": self.ALL_ACTIONS, "miss": self.spec_miss(st), "flags": 0,
                "ports": [[p.port_no, int.from_bytes(p.hw_addr.toRaw(), "big"), p.config, p.state] for p in sw.ports.values()],
                "port_stats": [[no, 0, 0, 0, 0] for no in sw.port_stats.keys()]}

    # ------------------------------------------------------------------ message spec -> bytes

    def _action(self, a):
        of, (ty, v) = self.of, a
        if ty == 0: return of.ofp_action_output(port=v, max_len=64)
        if ty == 1: return of.ofp_action_vlan_vid(vlan_vid=v % 4096)
        if ty == 2: return of.ofp_action_vlan_pcp(vlan_pcp=v % 8)
        if ty == 3: return of.ofp_action_strip_vlan()
        if ty in (4, 5): return of.ofp_action_dl_addr(type=ty, dl_addr=self.EthAddr((v % (1 << 48)).to_bytes(6, "big")))
        if ty in (6, 7): return of.ofp_action_nw_addr(type=ty, nw_addr=self.IPAddr((v % (1 << 32)).to_bytes(4, "big")))
        if ty == 8: return of.ofp_action_nw_tos(nw_tos=v % 256)
        if ty in (9, 10): return of.ofp_action_tp_port(type=ty, tp_port=v % 65536)
        if ty == 0xffff: return of.ofp_action_vendor_generic(vendor=v % (1 << 32), body=b"\0\0\0\0")
        return of.ofp_action_generic(type=ty, data=b"\0\0\0\0")

    def acts_len(self, acts):
        """encoded length of an action list (per type, measured once on the library's own encoding)"""
        c = self.__dict__.setdefault("_alen", {})
        n = 0
        for a in acts:
            if a[0] not in c: c[a[0]] = len(self._action(a).pack())
            n += c[a[0]]
        return n

    def _match(self, mk):
        return self.of.ofp_match() if mk is None else self.of.ofp_match(in_port=mk)

    def to_bytes(self, m):
        of, k, x = self.of, m["k"], m["xid"]
        if k == "hello": return of.ofp_hello(xid=x).pack()
        if k == "echo_request": return of.ofp_echo_request(xid=x, body=bytes.fromhex(m["body"])).pack()
        if k == "echo_reply": return of.ofp_echo_reply(xid=x, body=bytes.fromhex(m["body"])).pack()
        if k == "vendor": return of.ofp_vendor_generic(xid=x, vendor=m["vendor"], data=b"ab").pack()
        if k == "features_request": return of.ofp_features_request(xid=x).pack()
        if k == "get_config_request": return of.ofp_get_config_request(xid=x).pack()
        if k == "set_config": return of.ofp_set_config(xid=x, flags=m["flags"], miss_send_len=m["miss"]).pack()
        if k == "barrier_request": return of.ofp_barrier_request(xid=x).pack()
        if k == "queue_get_config_request": return of.ofp_queue_get_config_request(xid=x, port=m["port"]).pack()
        if k == "port_mod":
            return of.ofp_port_mod(xid=x, port_no=m["port"], hw_addr=self.EthAddr(m["hw"].to_bytes(6, "big")), config=m["config"],
                                   mask=m["mask"], advertise=0).pack()
        if k == "packet_out":
            return of.ofp_packet_out(xid=x, buffer_id=m["bid"], in_port=m.get("in_port", OFPP_NONE), actions=[self._action(a) for a in m["acts"]],
                                     data=((FRAME + bytes(max(0, m.get("datalen", 0) - len(FRAME)))) if m["data"] else b"")).pack()
        if k == "flow_mod":
            return of.ofp_flow_mod(xid=x, command=m["cmd"], match=self._match(m["mkey"]), priority=m["prio"], cookie=m["cookie"], flags=m["flags"],
                                   idle_timeout=m["idle"], hard_timeout=m["hard"], out_port=m["out_port"], buffer_id=m["bid"],
                                   actions=[self._action(a) for a in m["acts"]]).pack()
        if k == "stats_request":
            st = m["st"]
            if st == "other":
                body = bytes.fromhex(m.get("rawbody", ""))
                return struct.pack("!BBHLHH", 1, 16, 12 + len(body), x, m["stype"], 0) + body
            if st == "desc": body = of.ofp_desc_stats_request()
            elif st == "table": body = of.ofp_table_stats_request()
            elif st == "flow": body = of.ofp_flow_stats_request(match=self._match(m["mkey"]), table_id=m["table_id"], out_port=m["out_port"])
            elif st == "aggregate": body = of.ofp_aggregate_stats_request(match=self._match(m["mkey"]), table_id=m["table_id"], out_port=m["out_port"])
            elif st == "port": body = of.ofp_port_stats_request(port_no=m["port"])
            elif st == "queue": body = of.ofp_queue_stats_request(port_no=m["port"], queue_id=m["queue"])
            else: raise KeyError(st)
            return of.ofp_stats_request(xid=x, flags=m.get("sflags", 0), body=body).pack()
        if k in ("unhandled", "bad"): return bytes.fromhex(m["raw"])
        if k == "traffic": return b""
        raise KeyError(k)

    # ------------------------------------------------------------------ generators

    STATES = [{"ports": [1, 2, 3, 4], "deleted": [], "max_buffers": 100, "max_entries": 0x7fffffff, "miss": 128},
              {"ports": [1], "deleted": [], "max_buffers": 1, "max_entries": 2, "miss": 0},
              {"ports": [2, 3, 7], "deleted": [3], "max_buffers": 2, "max_entries": 1, "miss": 65535},
              {"ports": [], "deleted": [], "max_buffers": 0, "max_entries": 0, "miss": 5},
              {"ports": [1, 65279], "deleted": [1], "max_buffers": 3, "max_entries": 3, "miss": 128},
              {"ports": [1, 2], "deleted": [], "max_buffers": 4, "max_entries": 6, "miss": None},                       # miss_send_len left to the constructor's default
              {"ports": [1, 2, 3], "deleted": [], "max_buffers": 100, "max_entries": 50, "miss": 64,                        # a switch given its own features object
               "features": {"cap_flow_stats": False, "cap_table_stats": True, "cap_port_stats": True, "cap_queue_stats": True, "cap_arp_match_ip": True}},
              {"ports": [4], "deleted": [], "max_buffers": 1, "max_entries": 1, "miss": None, "features": {}}]

    FOCUS_PORTS = [1, 2, OFPP_CONTROLLER, OFPP_FLOOD, OFPP_ALL, OFPP_IN_PORT, OFPP_LOCAL]

    def _port_choice(self, rng, st):
        live = [p for p in st["ports"] if p not in st["deleted"]]
        pool = live * 3 + st["deleted"] + [0, 99, 5, OFPP_MAX, OFPP_IN_PORT, OFPP_FLOOD, OFPP_ALL, OFPP_CONTROLLER, OFPP_LOCAL, OFPP_NONE, rng.randint(0, U16)]
        return rng.choice(pool)

    def _acts(self, rng, st, allow_ctl=True, unsupported=0.15, table=0.0):
        """`table`: share of output:OFPP_TABLE actions (only a packet_out may carry them, OpenFlow 1.0 5.2.1)"""
        n = rng.choice([0, 1, 1, 2, 3, rng.randint(0, 6)])
        out = []
        for _ in range(n):
            r = rng.random()
            if table and rng.random() < table: out.append([0, OFPP_TABLE])
            elif r < 0.45:
                p = self._port_choice(rng, st)
                if p == OFPP_TABLE: p = OFPP_NORMAL
                if p == OFPP_CONTROLLER and not allow_ctl: p = OFPP_FLOOD
                out.append([0, p])
            elif r < 0.55 and allow_ctl: out.append([0, OFPP_CONTROLLER])
            elif r < 1 - unsupported: out.append([rng.choice([1, 2, 3, 4, 5, 6, 7, 8, 9, 10]), rng.randint(0, U16)])
            elif r < 1 - unsupported / 2: out.append([0xffff, rng.randint(0, U32)])
            else: out.append([rng.choice([12, 13, 100, 0xfffe, rng.randint(12, 0xfffe)]), 0])
        return out

    def _mk(self, rng, st):
        return rng.choice([None, None, 1, 2, 2, 7, rng.randint(0, 9)])

    def _xid(self, rng):
        return ofgen.rint(rng, U32)

    def gen_msg(self, rng, st, ctx, kind=None, buffers=True, unhandled=False):
        kinds = ["hello", "echo_request", "echo_reply", "vendor", "features_request", "get_config_request", "set_config", "packet_out",
                 "packet_out", "flow_mod", "flow_mod", "flow_mod", "port_mod", "port_mod", "stats_request", "stats_request", "stats_request",
                 "stats_request", "barrier_request", "queue_get_config_request"]
        k = kind or rng.choice(kinds)
        if unhandled and kind is None and rng.random() < 0.04: k = "unhandled"
        x = self._xid(rng)
        m = {"k": k, "xid": x}
        if k in ("echo_request", "echo_reply"):
            m["body"] = ofgen.rbytes(rng, rng.choice([0, 1, 8, rng.randint(0, 40), rng.randint(0, 40), rng.choice([56, 57, 1400, 65527]) if rng.random() < 0.15 else 3])).hex()
        elif k == "vendor": m["vendor"] = ofgen.rint(rng, U32)
        elif k == "set_config": m.update(flags=rng.choice([0, 1, 2, 3, ofgen.rint(rng, U16)]), miss=ofgen.rint(rng, U16))
        elif k == "queue_get_config_request": m["port"] = self._port_choice(rng, st)
        elif k == "port_mod":
            p = self._port_choice(rng, st)
            good = p in st["ports"] and p not in st["deleted"]
            hw = self.hw_of(st, p) if (good and rng.random() < 0.8) else rng.choice([0, ofgen.rint(rng, (1 << 48) - 1)])
            m.update(port=p, hw=hw, config=rng.choice([0, 1, 0x7f, ofgen.rint(rng, U32)]), mask=rng.choice([0, 1, 1, 0x7f, 0x7d, ofgen.rint(rng, U32)]))
        elif k == "packet_out":
            mode = rng.choice(["data", "data", "data", "none", "buf"]) if buffers else rng.choice(["data", "data", "none"])
            bid = None
            if mode == "buf":
                bid = rng.choice([ctx["handed"], ctx["handed"], 1, 0, st["max_buffers"] + 1, rng.randint(0, 5), U32 - 1]) if rng.random() < 0.85 else None
            m.update(bid=bid, data=(mode == "data"), acts=self._acts(rng, st, allow_ctl=buffers, table=rng.choice([0.0, 0.0, 0.25, 0.5])),
                     in_port=rng.choice([OFPP_NONE, 1, 2] + ([self._port_choice(rng, st) % OFPP_MAX] if rng.random() < 0.3 else [])))
            ctx["handed"] += sum(1 for a in m["acts"] if a == [0, OFPP_CONTROLLER]) if (m["data"] and st["max_buffers"] > ctx["handed"]) else 0
        elif k == "flow_mod":
            bid = None
            if buffers and rng.random() < 0.15: bid = rng.choice([ctx["handed"], 1, 0, rng.randint(0, 5), U32 - 1])
            m.update(cmd=rng.choice([0, 0, 0, 1, 2, 3, 4, 5, 9, ofgen.rint(rng, U16)]), mkey=self._mk(rng, st), prio=rng.choice([0, 1, 1, 0x8000, 0x8000, U16, rng.randint(0, 5)]),
                     cookie=rng.randint(0, 1 << 40), flags=rng.choice([0, 0, 0, 1, 1, 2, 3, 4, 5, 7, rng.randint(0, 7)]), idle=rng.choice([0, 0, 0, 5]),
                     hard=rng.choice([0, 0, 0, 9]), out_port=rng.choice([OFPP_NONE, OFPP_NONE, 1, 2, self._port_choice(rng, st)]), bid=bid,
                     acts=self._acts(rng, st, allow_ctl=True, unsupported=0.02))
            if ctx.get("focus"):                                        # flows whose outputs later statistics requests filter on
                m.update(cmd=rng.choice([0, 0, 0, 0, 1, 2, 3, 4]), flags=rng.choice([0, 0, 1, 2]), prio=rng.choice([1, 2, 3, 0x8000, rng.randint(0, 9)]),
                         acts=[[0, rng.choice(self.FOCUS_PORTS)] for _ in range(rng.choice([0, 1, 1, 1, 2]))] + ([[3, 0]] if rng.random() < 0.2 else []),
                         out_port=rng.choice([OFPP_NONE, OFPP_NONE] + self.FOCUS_PORTS))
            if any(not (0 <= a[0] <= 11) for a in m["acts"]):
                m["bid"] = None       # with a live buffer the BAD_ACTION error of the pre-check and that of running the actions look alike on the wire
            ctx.setdefault("outs", []).extend(a[1] for a in m["acts"] if a[0] == 0)
        elif k == "stats_request":
            st_kind = rng.choice(["desc", "flow", "flow", "aggregate", "aggregate", "table", "port", "port", "queue", "queue", "other"])
            m["st"] = st_kind
            if st_kind in ("flow", "aggregate"):
                seen = ctx.get("outs", [])
                m.update(mkey=self._mk(rng, st), table_id=rng.choice([0, 0, 0xff, 0xff, 1, 0xfe, rng.randint(0, 255)]),
                         out_port=rng.choice([OFPP_NONE, OFPP_NONE, 1, 2, OFPP_CONTROLLER, OFPP_FLOOD, OFPP_ALL, self._port_choice(rng, st)] + seen[-6:]))
                if ctx.get("focus"):
                    m.update(mkey=rng.choice([None, None, None, 1, 2]), table_id=rng.choice([0, 0xff, 0, 0xff, 3]),
                             out_port=rng.choice([OFPP_NONE] + self.FOCUS_PORTS + seen[-4:]))
            elif st_kind == "port": m["port"] = rng.choice([OFPP_NONE, OFPP_NONE, self._port_choice(rng, st)])
            elif st_kind == "queue": m.update(port=rng.choice([OFPP_ALL, OFPP_ALL, self._port_choice(rng, st)]), queue=rng.choice([OFPQ_ALL, OFPQ_ALL, 0, 1, ofgen.rint(rng, U32)]))
            elif st_kind == "other":
                t = rng.choice([0xffff, 0xffff, 6, 7, 100, rng.randint(6, 0xfffe)])
                m.update(stype=t, rawbody=(struct.pack("!L", rng.randint(0, U32)) + b"xy").hex() if t == 0xffff else ofgen.rbytes(rng, rng.choice([0, 4, 8])).hex())
            if rng.random() < 0.1: m["sflags"] = ofgen.rint(rng, U16)
        elif k == "unhandled":
            for _ in range(20):
                t = rng.choice(sorted(UNHANDLED_KINDS))
                try:
                    raw = ofgen.build(ofgen.message(rng, UNHANDLED_KINDS[t], small=True)).pack()
                    break
                except Exception:
                    continue
            else:
                t, raw = 19, self.of.ofp_barrier_reply(xid=x).pack()
            m.update(ty=t, raw=raw.hex(), xid=struct.unpack_from("!L", raw, 4)[0])
        return m

    BAD_LEN = [(18, 4), (5, 8), (15, 8), (9, 0), (14, 32), (7, 2), (13, 4), (20, 0), (4, 0), (16, 0)]    # (type, body bytes) the decoder cannot accept

    def gen_bad(self, rng, why=None):
        """a message OFConnection.read rejects by itself: unknown type, undecodable / ill-sized body"""
        why = why or rng.choice(["type", "len", "len"])
        x = rng.randint(1, U32)
        if why == "type":
            t, body = rng.choice([22, 23, 100, 255, rng.randint(22, 255)]), ofgen.rbytes(rng, rng.choice([0, 0, 4, 8, 60, 100]))
        elif why == "len":
            t, n = rng.choice(self.BAD_LEN + [(16, -1), (16, -2)])
            if n == -1: body = struct.pack("!HH", 1, 0)                  # flow stats request without its body
            elif n == -2: body = struct.pack("!HH", 4, 0) + b"\0\0"      # port stats request, 2 of 8 body bytes
            else: body = bytes(n)
        else:
            t, body = rng.choice([0, 2, 5, 18]), b""
        raw = struct.pack("!BBHL", 1 if why != "version" else rng.choice([0, 2, 4, 0x81]), t, 8 + len(body), x) + body
        return {"k": "bad", "why": why, "xid": x, "raw": raw.hex()}

    def gen_traffic(self, rng, st):
        live = [p for p in st["ports"] if p not in st["deleted"]] or [1]
        return {"k": "traffic", "xid": 0, "port": rng.choice(live * 4 + [99]), "len": rng.choice([14, 60, 64, 100, 1500, rng.randint(14, 300)]), "src": rng.randint(0, 5)}

    def weave(self, rng, st, msgs, mode):
        """interleave what changes the reported data with repeated requests, and rejected messages at every position"""
        out = []
        for m in msgs:
            out.append(m)
            if mode == "step" and m["k"] == "stats_request" and m["st"] in ("port", "flow", "aggregate", "table") and rng.random() < 0.5:
                # poll again after the counters moved, nothing else in between
                mover = self.gen_traffic(rng, st) if rng.random() < 0.6 else \
                    {"k": "packet_out", "xid": self._xid(rng), "bid": None, "data": True, "in_port": OFPP_NONE,
                     "acts": [[0, m["port"] if (m["st"] == "port" and m["port"] < OFPP_MAX) else rng.choice([1, 2, OFPP_FLOOD])]]}
                again = dict(m, xid=self._xid(rng))
                out += [mover] * rng.choice([1, 1, 2]) + [again]
            elif mode == "step" and rng.random() < 0.08:
                out.append(self.gen_traffic(rng, st))
        k = rng.choice([0, 0, 1, 1, 2, 3])
        for _ in range(k):
            out.insert(rng.choice([0, len(out), len(out) // 2, rng.randint(0, len(out))]), self.gen_bad(rng))
        return out

    def gen_table_msgs(self, rng, st, n, mode):
        """every way a packet reaches the flow table (a frame on a port; packet_out output:TABLE carrying the packet or naming
        a buffer; flow_mod naming a buffer), mixed with what decides whether it does (port_mod NO_RECV, deleted / unknown
        ports, dead buffers, an unsupported action in front) and whether it hits (flow_mods), and with the statistics
        requests that report the counts"""
        live = [p for p in st["ports"] if p not in st["deleted"]] or [1]
        inports = live * 3 + st["deleted"] + [OFPP_NONE, OFPP_NONE, 99, 0]
        outs = live + [OFPP_FLOOD, OFPP_CONTROLLER, OFPP_IN_PORT, OFPP_ALL]
        x = lambda: self._xid(rng)
        def flow(cmd=None):
            return self._fm(x(), rng.choice([0, 0, 0, 0, 1, 2, 3, 4]) if cmd is None else cmd, rng.choice([None] + live + [rng.choice(inports)]),
                            rng.choice([1, 2, 3, 0x8000]), flags=rng.choice([0, 0, 1]), acts=[(0, rng.choice(outs)) for _ in range(rng.choice([0, 1, 1, 2]))])
        tbl = lambda: {"k": "stats_request", "xid": x(), "st": "table"}
        allf = lambda kind: {"k": "stats_request", "xid": x(), "st": kind, "mkey": None, "table_id": rng.choice([0, 0xff]), "out_port": OFPP_NONE}
        def via_table():
            acts = [[0, OFPP_TABLE]]
            r = rng.random()
            if r < 0.15: acts = [[0, OFPP_TABLE], [0, OFPP_TABLE]]
            elif r < 0.3: acts = [[rng.choice([1, 3, 5, 9]), 7], [0, OFPP_TABLE], [0, rng.choice(outs)]]
            elif r < 0.4: acts.insert(rng.choice([0, 1]), [rng.choice([0xffff, 12, 100]), 5])        # a type without handler in front of / behind it
            elif r < 0.45: acts = [[0, rng.choice(outs)]]
            m = {"k": "packet_out", "xid": x(), "bid": None, "data": True, "in_port": rng.choice(inports), "acts": acts}
            if mode == "step" and rng.random() < 0.35: m.update(data=False, bid=rng.choice([1, 1, 2, 2, 3, 0, st["max_buffers"] + 1]))
            return m
        msgs = [flow(0) for _ in range(rng.choice([0, 1, 2, 3]))]
        for _ in range(n):
            r = rng.random()
            if r < 0.3: msgs.append(via_table())
            elif r < 0.45 and mode == "step":
                t = self.gen_traffic(rng, st); t["port"] = rng.choice(inports[:-4] + [99])
                msgs.append(t)
            elif r < 0.62: msgs.append(tbl())
            elif r < 0.72: msgs.append(allf(rng.choice(["flow", "aggregate"])))
            elif r < 0.82:
                m = flow()
                if mode == "step" and rng.random() < 0.3: m["bid"] = rng.choice([1, 2, 3])
                msgs.append(m)
            elif r < 0.88:
                p = rng.choice(live)
                msgs.append({"k": "port_mod", "xid": x(), "port": p, "hw": self.hw_of(st, p), "config": rng.choice([0, 4, 64, 68, 0x7f]), "mask": rng.choice([4, 4, 64, 68, 0x7f])})
            elif r < 0.92: msgs.append({"k": "barrier_request", "xid": x()})
            else: msgs.append(self.gen_msg(rng, st, {"handed": 0}, buffers=False))
        return msgs + [tbl(), allf("flow")]

    def gen_case(self, rng, n, mode, buffers=True, unhandled=False, focus=False, table=False):
        st = copy.deepcopy(rng.choice(self.STATES + [self.STATES[0]] * 3))
        if rng.random() < 0.3:
            st["max_buffers"] = rng.choice([0, 1, 2, 100]); st["max_entries"] = rng.choice([0, 1, 2, 5, 0x7fffffff])
        ctx = {"handed": 0}
        if table:
            msgs = self.gen_table_msgs(rng, st, n, mode)
        elif focus:
            # installs flows with physical and virtual output ports, then reads flow / aggregate / table statistics filtered on them
            st = copy.deepcopy(self.STATES[0])
            if rng.random() < 0.2: st["max_entries"] = rng.choice([2, 3, 5])
            ctx["focus"] = True
            kinds = ["flow_mod"] * 5 + ["stats_request"] * 6 + ["barrier_request", None]
            msgs = []
            for i in range(n):
                k = "flow_mod" if i < min(3, n - 1) else rng.choice(kinds)
                m = self.gen_msg(rng, st, ctx, kind=k, buffers=False)
                if k == "stats_request" and m["st"] not in ("flow", "aggregate", "table"):
                    m = self.gen_msg(rng, st, ctx, kind=k, buffers=False)
                msgs.append(m)
        else:
            msgs = [self.gen_msg(rng, st, ctx, buffers=buffers and mode == "step", unhandled=unhandled) for _ in range(n)]
        if rng.random() < 0.6: msgs = self.weave(rng, st, msgs, mode)
        if rng.random() < 0.03: msgs.append(self.gen_bad(rng, "version"))
        case = {"state": st, "mode": mode, "msgs": msgs}
        if mode == "batch":
            used = set()
            for m in msgs:                                    # unique non-zero xids so that replies can be paired by xid
                if m["k"] in ("unhandled", "bad"):
                    used.add(m["xid"]); continue
                while m["xid"] in used or m["xid"] == 0:
                    m["xid"] = rng.randint(1, U32)
                used.add(m["xid"])
            total = sum(len(self.to_bytes(m)) for m in msgs)
            k = rng.choice([0, 0, 0, 1, 3, rng.randint(0, 12)])
            case["cuts"] = sorted(rng.randint(1, max(1, total - 1)) for _ in range(k))
        return case

    def corpus(self):
        import random
        rng = random.Random(13)
        S = self.STATES
        cases = []
        def one(st, msgs, mode="step"):
            c = {"state": copy.deepcopy(st), "mode": mode, "msgs": msgs}
            if mode == "batch": c["cuts"] = []
            cases.append(c)
        hw1 = self.hw_of(S[0], 1)
        singles = [
            {"k": "hello", "xid": 5}, {"k": "echo_request", "xid": 6, "body": "616263"}, {"k": "echo_reply", "xid": 7, "body": ""},
            {"k": "vendor", "xid": 8, "vendor": 0x2320}, {"k": "features_request", "xid": 9}, {"k": "get_config_request", "xid": 10},
            {"k": "set_config", "xid": 11, "flags": 3, "miss": 77}, {"k": "barrier_request", "xid": 12},
            {"k": "queue_get_config_request", "xid": 13, "port": 1}, {"k": "queue_get_config_request", "xid": 14, "port": 99},
            {"k": "queue_get_config_request", "xid": 15, "port": OFPP_ALL},
            {"k": "port_mod", "xid": 16, "port": 1, "hw": hw1, "config": 1, "mask": 1}, {"k": "port_mod", "xid": 17, "port": 1, "hw": hw1, "config": 0x7c, "mask": 0xffffffff},
            {"k": "port_mod", "xid": 18, "port": 99, "hw": hw1, "config": 0, "mask": 0}, {"k": "port_mod", "xid": 19, "port": 1, "hw": 9, "config": 0, "mask": 0},
            {"k": "packet_out", "xid": 20, "bid": None, "data": True, "acts": [[0, 2]]}, {"k": "packet_out", "xid": 21, "bid": None, "data": True, "acts": [[0, OFPP_CONTROLLER], [0xffff, 5], [0, 1]]},
            {"k": "packet_out", "xid": 22, "bid": None, "data": False, "acts": [[0, 2]]}, {"k": "packet_out", "xid": 23, "bid": None, "data": True, "acts": [[1, 5], [0, OFPP_FLOOD], [77, 0]]},
            {"k": "packet_out", "xid": 24, "bid": 7, "data": False, "acts": [[0, 2]]},
            {"k": "flow_mod", "xid": 30, "cmd": 0, "mkey": 1, "prio": 5, "cookie": 1, "flags": 0, "idle": 0, "hard": 0, "out_port": OFPP_NONE, "bid": None, "acts": [[0, 2]]},
            {"k": "flow_mod", "xid": 31, "cmd": 9, "mkey": 1, "prio": 5, "cookie": 1, "flags": 0, "idle": 0, "hard": 0, "out_port": OFPP_NONE, "bid": None, "acts": []},
            {"k": "flow_mod", "xid": 32, "cmd": 0, "mkey": None, "prio": 5, "cookie": 1, "flags": 4, "idle": 3, "hard": 0, "out_port": OFPP_NONE, "bid": None, "acts": []},
            {"k": "flow_mod", "xid": 33, "cmd": 0, "mkey": None, "prio": 5, "cookie": 1, "flags": 5, "idle": 0, "hard": 0, "out_port": OFPP_NONE, "bid": None, "acts": []},
            {"k": "flow_mod", "xid": 34, "cmd": 0, "mkey": None, "prio": 5, "cookie": 1, "flags": 4, "idle": 0, "hard": 0, "out_port": OFPP_NONE, "bid": None, "acts": []},
            {"k": "flow_mod", "xid": 35, "cmd": 3, "mkey": None, "prio": 0, "cookie": 0, "flags": 0, "idle": 0, "hard": 0, "out_port": OFPP_NONE, "bid": None, "acts": []},
            {"k": "flow_mod", "xid": 36, "cmd": 0, "mkey": 2, "prio": 5, "cookie": 1, "flags": 0, "idle": 0, "hard": 0, "out_port": OFPP_NONE, "bid": 3, "acts": [[0, 2]]},
            {"k": "stats_request", "xid": 40, "st": "desc"}, {"k": "stats_request", "xid": 41, "st": "table"},
            {"k": "stats_request", "xid": 42, "st": "flow", "mkey": None, "table_id": 0, "out_port": OFPP_NONE},
            {"k": "stats_request", "xid": 43, "st": "flow", "mkey": None, "table_id": 7, "out_port": OFPP_NONE},
            {"k": "stats_request", "xid": 44, "st": "aggregate", "mkey": None, "table_id": 0xff, "out_port": OFPP_NONE},
            {"k": "stats_request", "xid": 45, "st": "aggregate", "mkey": None, "table_id": 7, "out_port": OFPP_NONE},
            {"k": "stats_request", "xid": 46, "st": "port", "port": OFPP_NONE}, {"k": "stats_request", "xid": 47, "st": "port", "port": 1},
            {"k": "stats_request", "xid": 48, "st": "port", "port": 99},
            {"k": "stats_request", "xid": 49, "st": "queue", "port": OFPP_ALL, "queue": OFPQ_ALL}, {"k": "stats_request", "xid": 50, "st": "queue", "port": 1, "queue": 3},
            {"k": "stats_request", "xid": 51, "st": "queue", "port": 99, "queue": OFPQ_ALL}, {"k": "stats_request", "xid": 52, "st": "queue", "port": 99, "queue": 3},
            {"k": "stats_request", "xid": 53, "st": "other", "stype": 0xffff, "rawbody": "0000232078"}, {"k": "stats_request", "xid": 54, "st": "other", "stype": 9, "rawbody": ""},
        ]
        for m in singles:
            one(S[0], [m]); one(S[0], [{"k": "hello", "xid": 1}, m, {"k": "barrier_request", "xid": 2}])
            one(S[2], [m, {"k": "barrier_request", "xid": 0}])
        fm = lambda x, cmd, mk, prio, flags=0, out=OFPP_NONE, acts=(), ck=None: {"k": "flow_mod", "xid": x, "cmd": cmd, "mkey": mk, "prio": prio, "cookie": ck if ck is not None else x,
                                                                                    "flags": flags, "idle": 0, "hard": 0, "out_port": out, "bid": None, "acts": [list(a) for a in acts]}
        tbl = {"k": "stats_request", "xid": 900, "st": "table"}
        fl = {"k": "stats_request", "xid": 901, "st": "flow", "mkey": None, "table_id": 0xff, "out_port": OFPP_NONE}
        ag = {"k": "stats_request", "xid": 902, "st": "aggregate", "mkey": 1, "table_id": 0, "out_port": 2}
        seqs = [
            [fm(1, 0, 1, 5, 1, acts=[(0, 2)]), fm(2, 0, None, 5, 1), fm(3, 0, 1, 9, 3), tbl, fl, ag, fm(4, 3, None, 0), tbl, fl],          # add ×3, overlap, delete all → 2 flow_removed
            [fm(1, 0, 1, 5), fm(2, 0, 1, 5), fm(3, 0, 2, 5), tbl, fm(4, 4, 1, 5, 0), fl, fm(5, 2, 2, 5, acts=[(0, 3)]), fm(6, 3, None, 0, out=3), fl],
            [fm(1, 1, 1, 5), fm(2, 1, None, 7, acts=[(0, 1)]), fl, fm(3, 0, 7, 7, 2), fm(4, 0, 7, 8, 2), fl, tbl],
            [{"k": "set_config", "xid": 1, "flags": 1, "miss": 9}, {"k": "barrier_request", "xid": 2}, {"k": "get_config_request", "xid": 3}],
            [{"k": "packet_out", "xid": 1, "bid": None, "data": True, "acts": [[0, OFPP_CONTROLLER]]}, {"k": "packet_out", "xid": 2, "bid": 1, "data": False, "acts": [[0, OFPP_CONTROLLER], [0, 1]]},
             {"k": "packet_out", "xid": 3, "bid": 2, "data": False, "acts": [[0xffff, 1]]}, {"k": "packet_out", "xid": 4, "bid": 2, "data": False, "acts": []}],
            [{"k": "port_mod", "xid": 1, "port": 1, "hw": hw1, "config": 1, "mask": 1}, {"k": "features_request", "xid": 2},
             {"k": "port_mod", "xid": 3, "port": 1, "hw": hw1, "config": 0x7c, "mask": 0x7d}, {"k": "features_request", "xid": 4}],
        ]
        def sreq(x, kind, out, mk=None, tid=0):
            return {"k": "stats_request", "xid": x, "st": kind, "mkey": mk, "table_id": tid, "out_port": out}
        filt = [fm(1, 0, 1, 10, acts=[(0, 2)], ck=0xA1), fm(2, 0, 2, 20, acts=[(0, OFPP_CONTROLLER)], ck=0xA2), fm(3, 0, 3, 30, 1, acts=[(0, OFPP_FLOOD), (0, 1)], ck=0xA3)]
        x = 100
        for out in (OFPP_NONE, 2, 1, 3, OFPP_CONTROLLER, OFPP_FLOOD, OFPP_ALL, OFPP_IN_PORT, OFPP_MAX):
            filt += [sreq(x, "flow", out), sreq(x + 1, "aggregate", out, tid=0xff), sreq(x + 2, "flow", out, mk=2), sreq(x + 3, "aggregate", out, tid=9)]; x += 4
        filt += [fm(x, 3, None, 0, out=OFPP_FLOOD), tbl, fl, fm(x + 1, 4, 2, 20, out=OFPP_ALL), tbl, fm(x + 2, 4, 2, 20, out=OFPP_CONTROLLER), tbl, fl]
        seqs.append(filt)
        for st in (S[0], S[1], S[2]):
            for sq in seqs:
                sq2 = [copy.deepcopy(m) for m in sq]
                if st is not S[0]:
                    for m in sq2:
                        if m["k"] == "port_mod": m["hw"] = self.hw_of(st, m["port"]) if m["port"] in st["ports"] else m["hw"]
                one(st, sq2)
        # batch twins of the orderings (unique xids): whole stream at once, and byte by byte
        for sq in seqs[:4]:
            sq2 = [copy.deepcopy(m) for m in sq]
            for i, m in enumerate(sq2): m["xid"] = 1000 + i
            one(S[0], sq2, "batch")
            c = {"state": copy.deepcopy(S[0]), "mode": "batch", "msgs": copy.deepcopy(sq2)}
            total = sum(len(self.to_bytes(m)) for m in sq2)
            c["cuts"] = list(range(1, total))
            cases.append(c)
        # the reply reports the state AT THE MOMENT of the request: same request again after the counters moved
        ps = lambda x, p: {"k": "stats_request", "xid": x, "st": "port", "port": p}
        po = lambda x, p: {"k": "packet_out", "xid": x, "bid": None, "data": True, "in_port": OFPP_NONE, "acts": [[0, p]]}
        tr = lambda port, n=60: {"k": "traffic", "xid": 0, "port": port, "len": n, "src": 3}
        polls = [
            [ps(1, 2), po(2, 2), ps(3, 2), {"k": "barrier_request", "xid": 4}, po(5, 2), po(6, 2), ps(7, 2), ps(8, OFPP_NONE), ps(9, 2)],
            [ps(1, 1), tr(1), ps(2, 1), tr(1, 100), tr(2), ps(3, 1), ps(4, 2), ps(5, 2)],
            [fm(1, 0, 1, 5, acts=[(0, 2)], ck=11), fm(2, 0, None, 1, acts=[(0, OFPP_FLOOD)], ck=12), tbl, fl, ag, tr(1), tbl, fl, ag, tr(3, 200), tr(3), tbl, fl, ag,
             {"k": "stats_request", "xid": 903, "st": "aggregate", "mkey": None, "table_id": 0xff, "out_port": OFPP_NONE}, tr(1), tr(1),
             {"k": "stats_request", "xid": 904, "st": "aggregate", "mkey": None, "table_id": 0xff, "out_port": OFPP_NONE}, ps(905, 2), ps(906, 2)],
        ]
        for sq in polls:
            sq2 = [copy.deepcopy(m) for m in sq]
            for i, m in enumerate(sq2):
                if m["k"] != "traffic": m["xid"] = 2000 + i
            one(S[0], sq2)
        # messages the connection rejects, at every position of one read (and one by one)
        bar = lambda x: {"k": "barrier_request", "xid": x}
        brng = random.Random(131)
        for why in ("type", "len", "len", "len"):
            bad = lambda: self.gen_bad(brng, why)
            for sq in ([bad(), bar(11), ps(12, 1)], [bar(11), bad(), ps(12, 1)], [bar(11), ps(12, 1), bad()], [bar(11), bad(), bad(), ps(12, OFPP_NONE), bad(), bar(13)]):
                one(S[0], [copy.deepcopy(m) for m in sq], "batch")
                one(S[0], [copy.deepcopy(m) for m in sq], "step")
                c = {"state": copy.deepcopy(S[0]), "mode": "batch", "msgs": [copy.deepcopy(m) for m in sq]}
                c["cuts"] = [len(self.to_bytes(sq[0])) + 3]
                cases.append(c)
        one(S[0], [self.gen_bad(brng, "version")], "batch"); one(S[0], [bar(5), self.gen_bad(brng, "version")], "batch")
        one(S[0], [self.gen_bad(brng, "version")], "step"); one(S[0], [bar(5), ps(6, 1), self.gen_bad(brng, "version")], "step")
        # a table too large for one statistics message: 800 flows, then flow / aggregate / table statistics and a barrier
        big = [fm(10 + i, 0, (i % 4) + 1, i, 1 if i % 7 == 0 else 0, acts=[(0, 1 + i % 3)] + ([(4, 5)] if i % 5 == 0 else []), ck=5000 + i) for i in range(800)]
        big += [{"k": "stats_request", "xid": 7001, "st": "flow", "mkey": None, "table_id": 0xff, "out_port": OFPP_NONE},
                {"k": "stats_request", "xid": 7002, "st": "flow", "mkey": 2, "table_id": 0, "out_port": 1},
                {"k": "stats_request", "xid": 7003, "st": "aggregate", "mkey": None, "table_id": 0, "out_port": OFPP_NONE},
                {"k": "stats_request", "xid": 7004, "st": "table"}, bar(7005), tr(1), tr(2),
                {"k": "stats_request", "xid": 7006, "st": "flow", "mkey": None, "table_id": 0, "out_port": OFPP_NONE}, bar(7007)]
        one(S[0], big)
        one(S[0], [m for m in big if m["k"] != "traffic"], "batch")
        for st in S[5:]:               # constructor defaults and explicit feature objects: what features / get-config report
            one(st, [{"k": "features_request", "xid": 1}, {"k": "get_config_request", "xid": 2}, {"k": "stats_request", "xid": 3, "st": "desc"},
                     {"k": "set_config", "xid": 4, "flags": 1, "miss": 0}, {"k": "get_config_request", "xid": 5}, ps(6, OFPP_NONE), tbl, fl, bar(7), {"k": "features_request", "xid": 8}])
            one(st, [{"k": "get_config_request", "xid": 2}, {"k": "features_request", "xid": 1}], "batch")
        cases += self.corpus_hardening(S, fm, bar, ps, po, tr, tbl, fl, ag)
        cases += self.corpus_table_counters(S, fm, bar, tr, tbl, fl)
        for _ in range(40):
            cases.append(self.gen_case(rng, rng.randint(1, 6), "step"))
        return cases

    LIMIT8 = 65520                  # largest body of 8-byte-aligned entries one stats reply can carry (65523 rounded down)
    FAT_PLANS = [[40000, 40000, 30000], [40000, 32760, 32760], [40000, 32760, 32768], [40000, 32760, 32752], [30000, 30000, 30000, 30000],
                 [65520, 65520], [65520, 96, 65424], [50000, 15520, 65520 - 96, 96], [50000, 15528, 65520 - 96, 96, 96],
                 [20000, 20000, 20000, 20000, 20000, 20000, 25520], [88, 65432, 88, 65432, 96]]

    @staticmethod
    def fat_flows(fm, sizes):
        """flows whose statistics entries have exactly the given sizes (88 + 8 per action), in table order"""
        n = len(sizes)
        return [fm(50 + i, 0, 1 + i % 4, 100 + n - i, acts=[(0, 2)] * max(0, (sz - 88) // 8), ck=700 + i) for i, sz in enumerate(sizes)]

    def gen_fat(self, rng, fm, mode):
        """a few flows with long action lists, sized so that some part of the statistics reply ends within 16 bytes of the limit"""
        sizes = []
        for _ in range(rng.choice([1, 2, 2, 3])):                      # parts
            room = self.LIMIT8 + rng.choice([-16, -8, 0, 0, 8, 16])
            k = rng.choice([1, 2, 2, 3])
            cut = sorted(rng.randrange(96, room - 96, 8) for _ in range(k - 1))
            sizes += [b - a for a, b in zip([0] + cut, cut + [room]) if b - a >= 88]
        sizes = [min(sz, self.LIMIT8) for sz in sizes][:7]
        if rng.random() < 0.3: sizes.insert(rng.randint(0, len(sizes)), self.LIMIT8 + rng.choice([8, 16, 24]))      # one entry too long to be reported
        flall = {"k": "stats_request", "xid": 9001, "st": "flow", "mkey": None, "table_id": 0xff, "out_port": OFPP_NONE}
        msgs = self.fat_flows(fm, sizes) + [flall, {"k": "barrier_request", "xid": 9002},
                                           {"k": "stats_request", "xid": 9003, "st": "aggregate", "mkey": None, "table_id": 0, "out_port": OFPP_NONE}]
        c = {"state": copy.deepcopy(self.STATES[0]), "mode": mode, "msgs": msgs}
        if mode == "batch": c["cuts"] = sorted(rng.randint(1, 60000) for _ in range(rng.choice([0, 0, 2])))
        return c

    @staticmethod
    def _fm(x, cmd, mk, prio, flags=0, out=OFPP_NONE, acts=(), ck=None):
        return {"k": "flow_mod", "xid": x, "cmd": cmd, "mkey": mk, "prio": prio, "cookie": ck if ck is not None else x, "flags": flags, "idle": 0, "hard": 0,
                "out_port": out, "bid": None, "acts": [list(a) for a in acts]}

    def corpus_hardening(self, S, fm, bar, ps, po, tr, tbl, fl, ag):
        """families from HARDENING.md: sweeps of every selector byte, boundary sizes, rare values, two switches in one
        process, a message still in flight"""
        cases = []
        def one(st, msgs, mode="step", **kw):
            c = {"state": copy.deepcopy(st), "mode": mode, "msgs": [copy.deepcopy(m) for m in msgs]}
            if mode == "batch": c["cuts"] = []
            c.update(kw); cases.append(c)
        hdr = lambda t, ln, x: struct.pack("!BBHL", 1, t, ln, x)
        # (6) every value of the type octet that has no decoder, between two valid requests in ONE read
        for t in range(22, 256):
            one(S[0], [bar(1), {"k": "bad", "why": "type", "xid": 5000 + t, "raw": (hdr(t, 8 + t % 5, 5000 + t) + bytes(t % 5)).hex()}, ps(2, 1)], "batch")
        # (6) every declared length around the only valid one, for the fixed-size messages
        for t, size in ((5, 8), (7, 8), (18, 8), (9, 12), (15, 32), (20, 12)):
            for ln in range(8, size + 17):
                if ln != size:
                    one(S[0], [bar(1), {"k": "bad", "why": "len", "xid": 6000 + ln, "raw": (hdr(t, ln, 6000 + ln) + bytes(ln - 8)).hex()}, bar(2)], "batch")
        # (6) statistics types, action types, flow-mod commands: every small value and the signed/unsigned boundaries
        edge = [0x7fff, 0x8000, 0xfffe, 0xffff]
        one(S[0], [{"k": "stats_request", "xid": 100 + t, "st": "other", "stype": t, "rawbody": "00002320" if t == 0xffff else ""} for t in list(range(6, 41)) + edge])
        one(S[0], [{"k": "packet_out", "xid": 200 + i, "bid": None, "data": True, "in_port": OFPP_NONE, "acts": [[0, 1], [t, 7], [0, 2]]}
                   for i, t in enumerate(list(range(12, 41)) + edge)])
        one(S[0], [fm(300 + i, c, 1, 5, acts=[(0, 2)]) for i, c in enumerate(list(range(0, 11)) + [255, 256] + edge)] + [tbl, fl])
        # (3) rare values: xid 0 / sign boundaries / all ones on every kind of answer; falsy port, queue, table, buffer, cookie, priority
        for x in (0, 1, 0x7fffffff, 0x80000000, 0xffffffff):
            one(S[0], [{"k": "hello", "xid": x}, {"k": "echo_request", "xid": x, "body": ""}, bar(x), {"k": "features_request", "xid": x}, {"k": "get_config_request", "xid": x},
                       ps(x, 0), {"k": "stats_request", "xid": x, "st": "queue", "port": 0, "queue": 0}, {"k": "queue_get_config_request", "xid": x, "port": 0},
                       {"k": "vendor", "xid": x, "vendor": 0}, fm(x, 9, None, 0), {"k": "packet_out", "xid": x, "bid": 0, "data": False, "in_port": 0, "acts": []},
                       {"k": "port_mod", "xid": x, "port": 0, "hw": 0, "config": 0, "mask": 0}, fm(x, 0, 0, 0, ck=0), fm(x, 0, None, 0xffff, ck=0), fm(x, 0, None, 32768, ck=0),
                       {"k": "stats_request", "xid": x, "st": "flow", "mkey": 0, "table_id": 0, "out_port": 0}, tbl, {"k": "set_config", "xid": x, "flags": 0, "miss": 0},
                       {"k": "get_config_request", "xid": x}])
        for n in (8, 64, 1024, 2040, 2048, 4096, 65527):
            one(S[0], [{"k": "echo_request", "xid": n, "body": (bytes(range(256)) * 257)[:n].hex()}, bar(1)], "batch")
        # (3) dpid 0, no ports, no buffers, no table space
        z = {"dpid": 0, "ports": [], "deleted": [], "max_buffers": 0, "max_entries": 0, "miss": 0}
        one(z, [{"k": "hello", "xid": 1}, {"k": "features_request", "xid": 2}, ps(3, OFPP_NONE), tbl, fm(4, 0, None, 1), po(5, OFPP_CONTROLLER), fl, ag, bar(6),
                {"k": "stats_request", "xid": 7, "st": "desc"}])
        one(dict(S[0], dpid=0), [{"k": "features_request", "xid": 2}, {"k": "stats_request", "xid": 7, "st": "desc"}, fm(4, 0, 1, 1, acts=[(0, 2)]), tr(1), fl])
        # (3) a reply that fills a message exactly / just does not: 682 and 683 flows of 96 bytes; 65528 bytes of entries; 630 and 631 ports
        flall = {"k": "stats_request", "xid": 9001, "st": "flow", "mkey": None, "table_id": 0xff, "out_port": OFPP_NONE}
        for nflows in (682, 683):
            one(S[0], [fm(10 + i, 0, 1 + i % 4, 2000 - i, acts=[(0, 2)], ck=i) for i in range(nflows)] + [flall, ag, bar(9002)])
        one(S[0], [fm(10 + i, 0, 1 + i % 4, 2000 - i, ck=i) for i in range(743)] + [fm(900, 0, None, 1, acts=[(0, 1 + j % 4) for j in range(7)], ck=900), flall, bar(9002)])
        for nports in (630, 631, 1260, 1261):
            big = {"ports": list(range(1, nports + 1)), "deleted": [], "max_buffers": 2, "max_entries": 5, "miss": 128}
            one(big, [ps(1, OFPP_NONE), {"k": "features_request", "xid": 2}, bar(3), ps(4, nports), ps(5, nports + 1)], "batch")
        # multipart replies whose LATER parts are full to within a few bytes: part boundaries at limit-k for small k, by entry count
        # (two full parts of small entries, with 0 / 1 / 2 entries left over) and by entry size (few entries with long action lists)
        for nflows in (1365, 1366):
            one(S[0], [fm(10 + i, 0, 1 + i % 4, 3000 - i, acts=[(0, 2)], ck=i) for i in range(nflows)] + [flall, bar(9002), ag, tbl])
        # flows that are one, two, three actions too long to be reported at all, alone and behind ordinary ones; and requests too long
        # to be quoted in full by the error they provoke
        for plan in ([65520], [65528], [65536], [65544], [168, 168, 65544], [40000, 65528, 30000]):
            one(S[0], self.fat_flows(fm, plan) + [flall, bar(9002), ag, tbl])
            one(S[0], self.fat_flows(fm, plan) + [flall, bar(9002)], "batch")
        huge = [(0, 2)] * 8182
        one(S[0], [fm(1, 9, 1, 5, acts=huge), bar(2), fm(3, 0, 1, 5, 4, acts=huge), bar(4), fm(5, 0, 1, 5, acts=[(0xffff, 7)] + huge[:8180]), bar(6),
                   {"k": "packet_out", "xid": 7, "bid": None, "data": True, "datalen": 65400, "in_port": OFPP_NONE, "acts": [[0xffff, 1]]}, bar(8),
                   {"k": "packet_out", "xid": 9, "bid": 3, "data": False, "in_port": OFPP_NONE, "acts": [list(a) for a in huge[:8189]]}, bar(10)])
        for sizes in self.FAT_PLANS:
            one(S[0], self.fat_flows(fm, sizes) + [flall, bar(9002), {"k": "stats_request", "xid": 9003, "st": "flow", "mkey": None, "table_id": 0, "out_port": 2}, bar(9004), ag], "batch")
            if sizes in self.FAT_PLANS[:4]: one(S[0], self.fat_flows(fm, sizes) + [flall, bar(9002), tr(1), flall, bar(9004)])
        # (5)/(7) the last message of a read has not arrived completely: everything before it is answered, it is not
        tail = [bar(1), ps(2, 1), {"k": "echo_request", "xid": 3, "body": "00" * 24}]
        for k in (1, 8, 24, 31):
            one(S[0], tail, "batch", drop_tail=k)
        one(S[0], [bar(1), fm(2, 0, 1, 5, acts=[(0, 2)]), {"k": "stats_request", "xid": 3, "st": "table"}], "batch", drop_tail=3)
        # (1) two switches with the same dpid in one process, driven alternately: nothing may leak from one to the other
        hw1 = self.hw_of(S[0], 1); hw2 = self.hw_of(S[2], 2)
        a = [{"k": "hello", "xid": 1}, {"k": "features_request", "xid": 2}, {"k": "set_config", "xid": 3, "flags": 1, "miss": 10}, {"k": "get_config_request", "xid": 4},
             {"k": "port_mod", "xid": 5, "port": 1, "hw": hw1, "config": 1, "mask": 1}, {"k": "features_request", "xid": 6}, po(7, OFPP_CONTROLLER), fm(8, 0, 1, 5, acts=[(0, 2)]),
             tbl, fl, ps(9, OFPP_NONE), {"k": "stats_request", "xid": 10, "st": "desc"}, {"k": "queue_get_config_request", "xid": 11, "port": 4}, po(12, 2), ps(13, 2), {"k": "hello", "xid": 14}]
        b = [{"k": "features_request", "xid": 21}, {"k": "get_config_request", "xid": 22}, {"k": "hello", "xid": 23}, {"k": "set_config", "xid": 24, "flags": 2, "miss": 77},
             {"k": "features_request", "xid": 25}, po(26, OFPP_CONTROLLER), po(27, OFPP_CONTROLLER), tbl, fl, {"k": "get_config_request", "xid": 28},
             {"k": "port_mod", "xid": 29, "port": 2, "hw": hw2, "config": 0x40, "mask": 0x40}, ps(30, OFPP_NONE), {"k": "queue_get_config_request", "xid": 31, "port": 4},
             {"k": "features_request", "xid": 32}, ps(33, 2), {"k": "packet_out", "xid": 34, "bid": 1, "data": False, "in_port": OFPP_NONE, "acts": []}]
        one(S[0], a, other={"state": copy.deepcopy(S[2]), "mode": "step", "msgs": copy.deepcopy(b)})
        one(S[2], b, other={"state": copy.deepcopy(S[0]), "mode": "step", "msgs": copy.deepcopy(a)})
        one(S[0], a, other={"state": copy.deepcopy(S[0]), "mode": "step", "msgs": copy.deepcopy(a[4:] + a[:4])})
        return cases

    def corpus_table_counters(self, S, fm, bar, tr, tbl, fl):
        """OFPST_TABLE after every way a packet reaches the table, hitting and missing, and after every way it does not"""
        cases = []
        def one(st, msgs, mode="step"):
            msgs = [copy.deepcopy(m) for m in msgs]
            for i, m in enumerate(msgs):
                if m["k"] != "traffic": m["xid"] = 3000 + i
            c = {"state": copy.deepcopy(st), "mode": mode, "msgs": msgs}
            if mode == "batch": c["cuts"] = []
            cases.append(c)
        T = OFPP_TABLE
        def pt(in_port, acts=((0, T),), bid=None):
            return {"k": "packet_out", "xid": 0, "bid": bid, "data": bid is None, "in_port": in_port, "acts": [list(a) for a in acts]}
        aga = {"k": "stats_request", "xid": 0, "st": "aggregate", "mkey": None, "table_id": 0xff, "out_port": OFPP_NONE}
        hw = lambda st, p: self.hw_of(st, p)
        pm = lambda st, p, config, mask: {"k": "port_mod", "xid": 0, "port": p, "hw": hw(st, p), "config": config, "mask": mask}
        f1 = fm(0, 0, 1, 100, acts=[(0, 2)], ck=0xF1)
        seqs = [
            # frames on ports (hit, miss), then the controller's own packets through the table, then all three statistics
            [f1, tr(1), tr(3), tbl, pt(1), pt(1), pt(1), bar(0), tbl, fl, aga],
            [f1, pt(1), tbl, pt(2), tbl, pt(OFPP_NONE), tbl, pt(99), tbl, fl, aga],
            [tbl, pt(1), tbl, pt(OFPP_NONE), pt(OFPP_NONE), tbl, f1, pt(1), tbl, fm(0, 3, None, 0), pt(1), tbl, fl],
            # several submissions in one action list; other actions around it; a type without handler in front of / behind it
            [f1, pt(1, ((0, T), (0, T))), tbl, pt(1, ((1, 5), (0, T), (0, 3), (0, T), (3, 0))), tbl, pt(1, ((0xffff, 9), (0, T))), tbl,
             pt(1, ((0, T), (12, 0), (0, T))), tbl, pt(1, ()), pt(1, ((0, 2),)), tbl, aga],
            # the packet is in a buffer: a miss on port 3 stores it (id 1, in_port 3); through the table it misses again (id 2), after
            # an entry for port 3 exists it hits; a used or unknown id submits nothing
            [tr(3), tbl, pt(7, bid=1), tbl, fm(0, 0, 3, 5, acts=[(0, 1)], ck=0xF3), pt(7, bid=2), tbl, pt(7, bid=2), pt(7, bid=9), pt(7, bid=0), tbl, fl, aga],
            [pt(2), tbl, pt(1, bid=1), tbl, fm(0, 0, None, 1, acts=[(0, OFPP_CONTROLLER)], ck=0xF4), pt(1, bid=2), tbl, pt(4, bid=1), tbl, fl, aga],
            # a flow_mod naming a buffer applies ITS actions to the stored packet
            [tr(3), tr(4), tbl, fm(0, 0, 3, 5, acts=[(0, 1)], ck=0xF5) | {"bid": 1}, tbl, fl, fm(0, 1, 3, 5, acts=[(0, 2)], ck=0xF5) | {"bid": 2}, tbl,
             fm(0, 3, None, 0) | {"bid": 1}, tbl, tr(3), tbl, fl, aga],
            # what is not looked up: the port does not receive, does not exist (any more)
            [f1, tr(1), tbl, pm(S[0], 1, 4, 4), tr(1), tr(1), tbl, pt(1), tbl, pm(S[0], 1, 0, 4), tr(1), tbl, tr(99), tr(0), tbl, pm(S[0], 2, 64, 64), tr(2), pt(2), tbl, fl, aga],
            # the hit entry sends to the controller / floods; entries of equal priority; an entry for another port only
            [fm(0, 0, None, 7, acts=[(0, OFPP_CONTROLLER)], ck=0xF6), pt(1), tr(2), tbl, pt(3, bid=1), pt(3, bid=2), tbl, fm(0, 0, 2, 7, acts=[(0, OFPP_FLOOD)], ck=0xF7),
             tr(2), pt(2), tbl, fm(0, 4, None, 7), pt(1), pt(2), tr(1), tr(2), tbl, fl, aga],
        ]
        for sq in seqs:
            one(S[0], sq)
            if not any(m["k"] == "traffic" or m.get("bid") is not None for m in sq): one(S[0], sq, "batch")
        # a deleted port (3) and few buffers (2); no buffers at all
        one(S[2], [fm(0, 0, None, 1, acts=[(0, 7)], ck=1), tr(3), tr(2), tbl, pt(3), pt(2), tbl, fm(0, 3, None, 0), tr(2), tr(7), pt(2), pt(7), pt(3), tbl, pt(2, bid=1), pt(2, bid=2), tbl, aga])
        one(dict(S[0], max_buffers=0), [tr(1), pt(1), pt(OFPP_NONE), tbl, pt(1, bid=1), tbl, f1, tr(1), pt(1), tbl, aga])
        return cases

    def generate(self, rng, tier):
        n = 1500 if tier == "quick" else 30000
        for i in range(n):
            L = rng.choice([2, 5, 10, 20, 40, 40, rng.randint(1, 40)])
            r = rng.random()
            if i % 100 == 7: yield self.gen_fat(rng, self._fm, rng.choice(["step", "batch"]))
            elif i % 5 == 0: yield self.gen_case(rng, max(L, 4), rng.choice(["step", "step", "batch"]), focus=True)
            elif i % 5 == 2: yield self.gen_case(rng, max(L, 4), rng.choice(["step", "step", "step", "batch"]), table=True)
            elif r < 0.45: yield self.gen_case(rng, L, "step", buffers=False, unhandled=(rng.random() < 0.3))
            elif r < 0.65:
                c = self.gen_case(rng, L, "step", buffers=True)
                if rng.random() < 0.25: c["other"] = self.gen_case(rng, rng.choice([3, 10, L]), "step", buffers=True)
                yield c
            else: yield self.gen_case(rng, L, "batch", unhandled=(rng.random() < 0.2))

    def search_cases(self, rng, tier):
        # short sequences first (a failing request is found with little context), then the ordinary stream
        for kind in ("stats_request", "flow_mod", "queue_get_config_request", "port_mod", "packet_out", None):
            for _ in range(150):
                st = copy.deepcopy(rng.choice(self.STATES))
                yield {"state": st, "mode": "step", "msgs": [self.gen_msg(rng, st, {"handed": 0}, kind=kind)]}
        yield from self.generate(rng, tier)

    # ------------------------------------------------------------------ implementation

    def snapshot(self, node):
        """the counters the statistics replies report, read off the live switch (port_stats order, table order)"""
        sw = node.sw
        def mkey(m):
            return None if (m.wildcards & 1) else m.in_port
        try:
            return {"ports": [[no, ps.rx_packets, ps.tx_packets, ps.rx_bytes, ps.tx_bytes] for no, ps in sw.port_stats.items()],
                    "flows": [[e.priority, e.cookie, mkey(e.match), e.packet_count, e.byte_count] for e in sw.table.entries],
                    "lookup": sw._lookup_count, "matched": sw._matched_count, "buffers": [0 if b is None else 1 for b in sw._packet_buffer]}
        except (AttributeError, TypeError, KeyError) as e:
            # the private representation changed: no peeking — the run degrades to the wire-only oracle (see extra_evidence)
            self.degraded = "snapshot: %s" % e
            return None

    @staticmethod
    def traffic_frame(op):
        n = max(14, op["len"])
        return (bytes([0, 0, 0, 0, 0, 2, 0, 0, 0, 0, 0, op.get("src", 1) % 250 + 1, 0x88, 0xb5]) + bytes(i & 0xff for i in range(n - 14)))

    class _Run:
        """one real switch driven op by op (so that two of them can be interleaved in one process)"""
        def __init__(self, chk, case):
            self.chk, self.case = chk, case
            self.broken = None
            try:
                node = self.node = chk.make_node(case["state"])
            except Exception as e:                      # the tree could not even build / connect the switch: an observable, not a harness crash
                self.broken = "%s" % type(e).__name__
                self.msgs = case["msgs"]
                return
            self.excs, self.after = [], []
            orig = node.ofc._error_handler
            ERRX = chk.OFConnection.ERR_EXCEPTION
            def eh(reason, info):
                if reason == ERRX: self.excs.append(type(info[0]).__name__)   # a handler raised; protocol-level rejections are answered, not failures
                return orig(reason, info)
            node.ofc._error_handler = eh
            # the state at the moment each message was handled: snapshot after every call of the switch's message handler
            inner = node.ofc.on_message_received
            def handler(con, msg):
                try:
                    return inner(con, msg)
                finally:
                    self.after.append(chk.snapshot(node))
            node.ofc.on_message_received = handler
            self.w = node.w
            self.init = self.cur = chk.snapshot(node)
            self.msgs = case["msgs"]
            self.raws = [chk.to_bytes(m) for m in self.msgs]
            self.groups = []
        def take(self):
            b = bytes(self.w.send_buf); self.w.send_buf = b""
            return b
        def push(self, data):
            try:
                self.w._push_receive_data(data)
                return "ok"
            except Exception as e:
                self.w.receive_buf = b""
                return "raise:" + type(e).__name__
        def dead(self):
            return bool(self.w.closed or self.w._shutdown_send)
        def do(self, i):
            if self.broken: return
            chk, node, m, raw = self.chk, self.node, self.msgs[i], self.raws[i]
            del self.excs[:]; del self.after[:]
            if m["k"] == "traffic":
                fr = chk.traffic_frame(m)
                try:
                    node.sw.rx_packet(chk.ethernet(fr), m["port"], packet_data=fr); st = "ok"
                except Exception as e:
                    st = "raise:" + type(e).__name__
                w_out = self.take()
                self.cur = chk.snapshot(node)
                self.groups.append({"out": decode_stream(w_out), "exc": [], "st": "ok" if st == "ok" else "traffic-" + st, "snap": self.cur, "calls": 0})
                return
            st = self.push(raw)
            if self.dead(): st = "closed"
            if self.after: self.cur = self.after[-1]
            self.groups.append({"out": decode_stream(self.take()), "exc": list(self.excs), "st": st, "snap": self.cur, "calls": len(self.after)})
        def finish_step(self):
            if self.broken: return {"mode": "step", "construct_failure": self.broken, "init": None}
            return {"mode": "step", "init": self.init, "groups": self.groups, "alive": not self.dead(), "left": len(self.w.receive_buf),
                    "final": self.chk.final_state(self.node)}
        def batch(self):
            if self.broken: return {"mode": "batch", "construct_failure": self.broken, "init": None}
            case = self.case
            stream = b"".join(self.raws)
            if case.get("drop_tail"): stream = stream[:len(stream) - case["drop_tail"]]      # the last message has not arrived completely
            cuts = sorted(set(c for c in case.get("cuts", []) if 0 < c < len(stream)))
            out, sts, prev = b"", [], 0
            for c in cuts + [len(stream)]:
                sts.append(self.push(stream[prev:c])); prev = c
                out += self.take()
            return {"mode": "batch", "init": self.init, "snaps": list(self.after), "stream": decode_stream(out), "exc": list(self.excs), "st": sorted(set(sts)),
                    "alive": not self.dead(), "left": len(self.w.receive_buf), "final": self.chk.final_state(self.node)}

    def impl(self, case):
        a = self._Run(self, case)
        if case["mode"] != "step":
            return a.batch()
        other = case.get("other")                 # a second switch in the same process, driven alternately: they must not share anything
        b = self._Run(self, other) if other else None
        for i in range(max(len(a.msgs), len(b.msgs) if b else 0)):
            if i < len(a.msgs): a.do(i)
            if b and i < len(b.msgs): b.do(i)
        obs = a.finish_step()
        if b: obs["other"] = b.finish_step()
        return obs

    def final_state(self, node):
        """abstraction of the real switch object after the sequence (compared with the model's final state)"""
        sw, of = node.sw, self.of
        def mkey(m):
            return None if (m.wildcards & 1) else m.in_port
        try:
            return {"config": [sw.config_flags, sw.miss_send_len], "hello": bool(sw._has_sent_hello),
                    "ports": [[p.port_no, int.from_bytes(p.hw_addr.toRaw(), "big"), p.config, p.state] for p in sw.ports.values()],
                    "table": [[e.priority, e.cookie, mkey(e.match), e.flags, [a.port for a in e.actions if isinstance(a, of.ofp_action_output)]] for e in sw.table.entries],
                    "buffers": [0 if b is None else 1 for b in sw._packet_buffer]}
        except (AttributeError, TypeError, KeyError) as e:
            self.degraded = "final_state: %s" % e
            return None

    degraded = None
    def extra_evidence(self):
        return {"degraded": self.degraded} if self.degraded else {}

    # ------------------------------------------------------------------ model

    _MODEL_KEYS = {"k", "xid", "body", "vendor", "flags", "miss", "port", "hw", "config", "mask", "bid", "data", "acts", "cmd", "mkey", "prio", "cookie", "in_port",
                   "idle", "hard", "out_port", "st", "table_id", "queue", "stype", "ty"}

    def model_request(self, case):
        return None          # see model_request2: the data path is not modelled, its observed counters are fed to the model

    @staticmethod
    def _sync(snap, buffers, flows=True, rx=None):
        """port / per-entry counters and buffer occupancy as the data path left them.  The table counters (lookup_count,
        matched_count) are NOT handed over: the model counts the lookups itself.  rx = in_port: one frame arrived there."""
        e = {"k": "traffic", "xid": 0, "ports": snap["ports"], "flows": [[f[3], f[4]] for f in snap["flows"]] if flows else [],
             "buffers": snap["buffers"] if buffers else None}
        if rx is not None: e.update(k="rx", in_port=rx)
        return e

    @staticmethod
    def _out_groups(case, obs):
        """what was written per op (step mode only)"""
        return [g["out"] for g in obs["groups"]] if obs["mode"] == "step" else None

    def effective(self, case):
        """the history the switch has seen completely: with `drop_tail` the last message is still in flight"""
        if not case.get("drop_tail"): return case
        c = dict(case, msgs=case["msgs"][:-1])
        c["expect_left"] = len(self.to_bytes(case["msgs"][-1])) - case["drop_tail"]
        c.pop("drop_tail")
        return c

    def op_snaps(self, case, obs):
        """snapshot after each op, or None when the handler-call count does not match the decodable messages"""
        msgs = case["msgs"]
        if obs.get("init") is None: return None
        if obs["mode"] == "step":
            l = [g["snap"] for g in obs["groups"]]
            return None if any(x is None for x in l) else l
        out, it, cur = [], iter(obs["snaps"]), obs["init"]
        for m in msgs:
            if m["k"] != "bad":
                cur = next(it, None)
                if cur is None: return None
            out.append(cur)
        return out

    def model_request2(self, case, obs):
        case = self.effective(case)
        snaps = self.op_snaps(case, obs)
        if snaps is None: return None
        evs, starting, prev = [], True, obs["init"]
        outs = self._out_groups(case, obs)
        bufin = {}                                   # buffer id -> in_port of the packet stored under it, as announced in the packet_in
        tot = lambda sn: (sn["ports"], sum(f[3] for f in sn["flows"]), sum(f[4] for f in sn["flows"]))
        prev = tot(prev)
        for i, (m, snap) in enumerate(zip(case["msgs"], snaps)):
            # flow counters move only when packets do: the per-entry list is sent only when port / entry counter totals moved
            cur = tot(snap)
            moved = cur != prev
            prev = cur
            k = m["k"]
            if k == "traffic":
                if obs["mode"] == "step":
                    evs.append(self._sync(snap, True, rx=m["port"]))
                    for r in outs[i]:
                        if r["t"] == "packet_in" and r["bid"] is not None: bufin[r["bid"]] = r.get("inp", OFPP_NONE)
                else: evs.append(self._sync(snap, True))         # batch mode does not run the data plane
                continue
            if k == "bad":
                if m["why"] == "version": evs.append({"k": "bad_version", "xid": m["xid"], "starting": starting})
                else: evs.append({"k": "rejected", "xid": m["xid"], "code": 1 if m["why"] == "type" else 6})
            else:
                e = {kk: v for kk, v in m.items() if kk in self._MODEL_KEYS}
                if "acts" in e: e["acts"] = [[a[0], a[1], self.acts_len([a])] for a in e["acts"]]
                if k == "packet_out":
                    # the in_port the packet is processed with: the message's own, or the one stored with the buffered packet
                    if m["data"] or m["bid"] is None: e["in_port"] = m.get("in_port", OFPP_NONE)
                    elif outs is not None: e["in_port"] = bufin.get(m["bid"], OFPP_NONE)
                    elif any(a[:2] == [0, OFPP_TABLE] for a in m["acts"]): return None      # batch mode: which packet_in handed the id out is not known
                    else: e["in_port"] = OFPP_NONE
                evs.append(e)
                starting = False
            if outs is not None:
                for r in outs[i]:
                    if r["t"] == "packet_in" and r["bid"] is not None: bufin[r["bid"]] = r.get("inp", OFPP_NONE)
            evs.append(self._sync(snap, False, flows=moved))       # counters as the data path left them (packet_out / buffered packets move them)
        try:
            st = self.model_state(case["state"])
        except Exception:
            return None
        return {"state": st, "msgs": evs}

    def model_obs(self, case, resp):
        case = self.effective(case)
        if "groups" not in resp: return resp
        # drop the groups of the counter-sync events inserted after every message
        keep, i = [], 0
        for m in case["msgs"]:
            keep.append(resp["groups"][i] if i < len(resp["groups"]) else {"missing": True})
            i += 1 if m["k"] == "traffic" else 2
        resp = dict(resp, groups=keep)
        if case["mode"] == "step": return {"groups": resp["groups"], "final": resp.get("final")}
        return {"stream": [r for g in resp["groups"] for r in g.get("out", [])], "final": resp.get("final")}

    @staticmethod
    def _strip(r):
        return {k: v for k, v in r.items() if k not in ("data", "inp")}

    def impl_view(self, case, obs):
        case = self.effective(case)
        if obs["mode"] == "step":
            return {"groups": [({"fail": g["exc"][0], "sent": sum(1 for r in g["out"] if r["t"] not in ASYNC)} if g["exc"] else {"out": [self._strip(r) for r in g["out"]]})
                               for m, g in zip(case["msgs"], obs["groups"])], "final": obs["final"]}
        return {"stream": [self._strip(r) for r in obs["stream"]], "final": obs["final"]}

    # ------------------------------------------------------------------ oracle (independent of the model)

    def _check_request(self, m, R, raw, ctx, exc, asyncs=None):
        """m: request spec; R: the non-asynchronous messages written for it; returns failure string or None.
        ctx: what the oracle itself tracks: config set so far, live buffer ids (None = not tracked), hello seen, ports."""
        k, x = m["k"], m["xid"]
        tag = k
        if k in ("unhandled", "traffic"):
            # outside the 13 controller-to-switch types / not a message.  A decodable message of another type has been accepted by
            # the connection all the same: the version negotiation is over (HELLO_FAILED is for a foreign version at the very start)
            if k == "unhandled": ctx["starting"] = False
            return None
        snap = ctx.get("snap")                                          # counters at the moment of this request (None = unknown)
        if k == "bad":
            tag = "bad-message:%s" % m["why"]
            if m["why"] == "version":
                want = [(0, 0)] if ctx["starting"] else []
                got = [(r.get("etype"), r.get("code")) for r in R]
                if got != want: return "%s:%s | expected %s got %s" % (tag, "no-reply" if not got else "wrong-reply", want, got)
                if R and R[0].get("xid") != x: return "%s:reply-xid-differs | sent %d got %s" % (tag, x, R[0].get("xid"))
                return None
            want = (1, 1) if m["why"] == "type" else (1, 6)
            if len(R) == 0: return "%s:no-reply | expected BAD_REQUEST %s for xid %d" % (tag, want, x)
            if len(R) > 1: return "%s:%d-replies | %s" % (tag, len(R), [r["t"] for r in R])
            r = R[0]
            if r["t"] != "error" or (r["etype"], r["code"]) != want: return "%s:wrong-reply | expected error %s got %s" % (tag, want, self._strip(r))
            if r["xid"] != x: return "%s:reply-xid-differs | sent %d got %d" % (tag, x, r["xid"])
            n = min(64, len(raw))
            if bytes.fromhex(r["data"]) != raw[:n]: return "%s:error-data-not-the-offending-message | %s" % (tag, r["data"][:40])
            return None
        ctx["starting"] = False
        if k == "stats_request" and len(R) > 1 and all(r["t"] == "stats_reply" for r in R):
            # a multipart answer: same xid and type on every part, REPLY_MORE on all but the last; checked as one reply
            if any(r["xid"] != x for r in R): return "stats_request:%s:multipart-xid-differs | %s" % (m["st"], [r["xid"] for r in R])
            if len({r["stype"] for r in R}) != 1: return "stats_request:%s:multipart-type-differs | " % m["st"]
            if [r.get("flags", 0) & 1 for r in R] != [1] * (len(R) - 1) + [0]: return "stats_request:%s:multipart-more-flags | %s" % (m["st"], [r.get("flags", 0) for r in R])
            kinds = {r["body"]["k"] for r in R}
            if kinds <= {"flows"} or kinds <= {"ports"}:
                merged = dict(R[-1]); merged["body"] = {"k": R[0]["body"]["k"], "l": [e for r in R for e in r["body"]["l"]]}
                R = [merged]
        elif k == "stats_request" and len(R) == 1 and R[0]["t"] == "stats_reply" and R[0].get("flags", 0) & 1:
            return "stats_request:%s:more-flag-on-last-part | " % m["st"]
        if exc and len(raw) > 65523:
            # the request is longer than an error message can quote in full
            return "%s:oversize-request:internal-failure:%s | %d bytes, xid=%d" % (k, exc[0], len(raw), x)
        if exc:
            what = {"stats_request": lambda: "stats_request:%s" % m["st"], "flow_mod": lambda: "flow_mod:cmd-%s" % ("valid" if m["cmd"] <= 4 else "unknown")}
            return "%s:internal-failure:%s | xid=%d" % (what.get(k, lambda: k)(), exc[0], x)
        for r in R:
            if r["t"] in ("garbage", "undecodable") or "malformed" in r:
                return "%s:undecodable-reply | %s" % (tag, r)
            if r["t"] == "error":
                n = min(64, len(raw))
                if bytes.fromhex(r["data"])[:n] != raw[:n]:
                    return "%s:error-data-not-request | %s" % (tag, r["data"][:40])
        def one(pred, what):
            if len(R) == 0: return "%s:no-reply | expected %s" % (tag, what)
            if len(R) > 1: return "%s:%d-replies | %s" % (tag, len(R), [r["t"] for r in R])
            r = R[0]
            if r.get("xid") != x: return "%s:reply-xid-%s | sent %d got %s" % (tag, "zero" if r.get("xid") == 0 else "differs", x, r.get("xid"))
            why = pred(r)
            if why: return "%s:%s | got %s" % (tag, why, self._strip(r))
            return None
        def is_err(et, code):
            return lambda r: None if (r["t"] == "error" and (r["etype"], r["code"]) == (et, code)) else "expected-error-%d-%d" % (et, code)
        def is_type(t, extra=None):
            def p(r):
                if r["t"] != t: return "wrong-reply-type-%s" % r["t"]
                return extra(r) if extra else None
            return p
        def silent(what="no reply"):
            if R: return "%s:unexpected-reply-%s | %s" % (tag, R[0]["t"], what)
            return None
        live_ports = ctx["ports"]
        if k == "hello":
            if not ctx["hello"]:
                ctx["hello"] = True
                if len(R) != 1 or R[0]["t"] != "hello": return "hello:first-not-answered-by-hello | %s" % [r["t"] for r in R]
                return None
            return silent("second hello")
        if k == "echo_request": return one(is_type("echo_reply", lambda r: None if r["body"] == m["body"] else "echo-body-differs"), "echo_reply")
        if k == "echo_reply": return silent()
        if k == "vendor": return one(is_err(1, 3), "BAD_REQUEST/BAD_VENDOR")
        if k == "features_request":
            def f(r):
                if sorted(p[0] for p in r["ports"]) != sorted(live_ports): return "features-port-set-differs"
                if r["ntab"] < 1 or r["nbuf"] != case_state["max_buffers"]: return "features-capacity-differs"
                if r["dpid"] != case_state.get("dpid", 1): return "features-dpid-differs"
                if r["caps"] != self.spec_caps(case_state): return "features-capabilities-differ | expected %d got %d" % (self.spec_caps(case_state), r["caps"])
                if r["acts"] != self.ALL_ACTIONS: return "features-action-bits-differ | expected %d got %d" % (self.ALL_ACTIONS, r["acts"])
                return None
            case_state = ctx["state"]
            return one(is_type("features_reply", f), "features_reply")
        if k == "get_config_request":
            return one(is_type("get_config_reply", lambda r: None if (r["flags"], r["miss"]) == ctx["config"] else "config-not-the-last-set"), "get_config_reply")
        if k == "set_config":
            ctx["config"] = (m["flags"], m["miss"])
            return silent()
        if k == "barrier_request": return one(is_type("barrier_reply"), "barrier_reply")
        if k == "queue_get_config_request":
            tag = "queue_get_config_request:%s-port" % ("known" if m["port"] in live_ports else "unknown")
            if m["port"] in live_ports:
                return one(is_type("queue_get_config_reply", lambda r: None if r["port"] == m["port"] else "port-not-echoed"), "queue_get_config_reply")
            return one(is_err(5, 0), "QUEUE_OP_FAILED/BAD_PORT")
        if k == "port_mod":
            if m["port"] not in live_ports: tag = "port_mod:unknown-port"; return one(is_err(4, 0), "PORT_MOD_FAILED/BAD_PORT")
            if m["hw"] != ctx["hw"].get(m["port"]): tag = "port_mod:bad-hw"; return one(is_err(4, 1), "PORT_MOD_FAILED/BAD_HW_ADDR")
            if m["mask"] & 4: ctx["norecv"][m["port"]] = bool(m["config"] & 4)      # OFPPC_NO_RECV: "drop all packets received by port"
            return silent("accepted port_mod")
        if k == "stats_request":
            st = m["st"]
            tag = "stats_request:%s" % st
            def body_is(kind, extra=None):
                def p(r):
                    if r["stype"] != (m["stype"] if st == "other" else STATS_CODE[st]): return "stats-type-differs"
                    if r["body"]["k"] != kind: return "body-%s" % r["body"]["k"]
                    return extra(r["body"]) if extra else None
                return is_type("stats_reply", p)
            if st == "desc": return one(body_is("desc"), "desc reply")
            if st == "table":
                return one(body_is("table", lambda b: "max-entries-differs" if b["v"][0] != ctx["state"]["max_entries"] else
                                   ("active-count-differs | installed %d" % len(ctx["table"].flows) if b["v"][1] != len(ctx["table"].flows) else
                                    (self._tc_check_table(ctx, b["v"][2], b["v"][3]) or
                                     ("lookup-matched-counters-stale | switch has %s" % [snap["lookup"], snap["matched"]]
                                      if snap is not None and b["v"][2:] != [snap["lookup"], snap["matched"]] else None)))), "table reply")
            if st in ("flow", "aggregate"):
                foreign = m["table_id"] not in (0, 0xff)
                if foreign: tag += ":foreign-table"
                want = ctx["table"].stats_select(m["mkey"], m["table_id"], m["out_port"])
                flt = "out_port-%s" % ("none" if m["out_port"] == OFPP_NONE else "physical" if m["out_port"] < OFPP_MAX else "virtual")
                key = lambda l: sorted((e[0], e[1], -1 if e[2] is None else e[2]) for e in l)
                exp = [[f["prio"], f["cookie"], f["mkey"]] for f in want]
                # the counters of the selected entries as the switch holds them at this moment
                ctrs = None
                if snap is not None:
                    pool = {}
                    for e in snap["flows"]: pool.setdefault((e[0], e[1], e[2]), []).append((e[3], e[4]))
                    try: ctrs = sorted((f["prio"], f["cookie"], -1 if f["mkey"] is None else f["mkey"]) + pool[(f["prio"], f["cookie"], f["mkey"])].pop(0) for f in want)
                    except (KeyError, IndexError): ctrs = None
                whole = m["mkey"] is None and not foreign and m["out_port"] == OFPP_NONE
                def hits(total):
                    P = ctx["tc"]["P"]
                    if whole and not self._tc_in(P, total):
                        return "packet-counts-differ | the installed entries were hit %d..%s times, reply adds up to %d" % (P[0], "" if P[1] is None else P[1], total)
                    if whole: ctx["tc"]["P"] = [total, total]
                    return None
                if st == "flow":
                    def chk(b):
                        if foreign and b["l"]: return "flows-for-foreign-table"
                        if key(b["l"]) != key(exp): return "flow-list-differs:%s | expected (priority, cookie, in_port) %s" % (flt, exp)
                        h = hits(sum(e[3] for e in b["l"]))
                        if h: return h
                        if ctrs is not None and sorted((e[0], e[1], -1 if e[2] is None else e[2], e[3], e[4]) for e in b["l"]) != ctrs:
                            return "flow-counters-stale | switch has %s" % ctrs
                        return None
                    return one(body_is("flows", chk), "flow reply")
                def chka(b):
                    if foreign and b["n"]: return "nonzero-for-foreign-table"
                    if b["n"] != len(want): return "flow-count-differs:%s | expected %d" % (flt, len(want))
                    h = hits(b["packets"])
                    if h: return h
                    if ctrs is not None and [b["packets"], b["bytes"]] != [sum(c[3] for c in ctrs), sum(c[4] for c in ctrs)]:
                        return "aggregate-counters-stale | switch has %s" % [sum(c[3] for c in ctrs), sum(c[4] for c in ctrs)]
                    return None
                return one(body_is("aggregate", chka), "aggregate reply")
            if st == "port":
                p = m["port"]
                def chkp(wantports):
                    def c(b):
                        if sorted(e[0] for e in b["l"]) != sorted(wantports): return "port-list-differs"
                        if snap is not None:
                            cur = sorted(e for e in snap["ports"] if e[0] in wantports)
                            if sorted(b["l"]) != cur: return "port-counters-stale | switch has %s" % cur
                        return None
                    return c
                if p == OFPP_NONE: return one(body_is("ports", chkp(ctx["stat_ports"])), "port reply")
                if p in ctx["stat_ports"]: return one(body_is("ports", chkp([p])), "port reply")
                tag += ":unknown-port"
                # the standard names no error for this: one (empty) reply or one error
                return one(lambda r: None if (r["t"] == "error" or (r["t"] == "stats_reply" and r["stype"] == 4 and r["body"] == {"k": "ports", "l": []})) else "neither-empty-reply-nor-error", "reply or error")
            if st == "queue":
                badport = m["port"] != OFPP_ALL and m["port"] not in live_ports
                if badport:
                    tag += ":unknown-port"
                    if m["queue"] != OFPQ_ALL:
                        return one(lambda r: None if (r["t"] == "error" and r["etype"] == 5 and r["code"] in (0, 1)) else "expected-error-5-0", "QUEUE_OP_FAILED")
                    return one(is_err(5, 0), "QUEUE_OP_FAILED/BAD_PORT")
                if m["queue"] != OFPQ_ALL: tag += ":unknown-queue"; return one(is_err(5, 1), "QUEUE_OP_FAILED/BAD_QUEUE")
                return one(body_is("queues", lambda b: None if b["n"] == 0 else "queues-listed"), "queue reply")
            tag = "stats_request:unsupported-type"
            if m["stype"] == 0xffff:
                return one(lambda r: None if (r["t"] == "error" and r["etype"] == 1 and r["code"] in (2, 3)) else "expected-error-1-2", "BAD_REQUEST/BAD_STAT")
            return one(is_err(1, 2), "BAD_REQUEST/BAD_STAT")
        if k in ("packet_out", "flow_mod"):
            errs = [r for r in R if r["t"] == "error"]
            if len(errs) != len(R): return "%s:unexpected-reply-%s | " % (k, [r["t"] for r in R if r["t"] != "error"][0])
            for r in errs:
                if r["xid"] != x: return "%s:reply-xid-%s | sent %d got %d" % (k, "zero" if r["xid"] == 0 else "differs", x, r["xid"])
            codes = [(r["etype"], r["code"]) for r in errs]
            if k == "flow_mod":
                if m["cmd"] > 4:
                    tag = "flow_mod:unknown-command"
                    if codes != [(3, 4)]: return "%s:%s | expected FLOW_MOD_FAILED/BAD_COMMAND got %s" % (tag, "no-reply" if not codes else "wrong-error", codes)
                    return None
                fmc = [c for c in codes if c[0] == 3]
                cmdname = ("add", "modify", "modify_strict", "delete", "delete_strict")[m["cmd"]]
                if m["cmd"] <= 2 and any(not (0 <= a[0] <= 11) for a in m["acts"]):
                    # OpenFlow 1.0 §5.4.2 (OFPET_BAD_ACTION): an action type the switch does not implement -> the flow_mod is refused
                    # before anything else is done with it: one error, nothing installed, a named buffer not consumed
                    if codes == [(2, 0)]: return None
                    return "flow_mod:unsupported-action:%s | action types %s, expected BAD_ACTION/BAD_TYPE, got %s" % (
                        "installed-silently" if (2, 0) not in codes else "wrong-error", [a[0] for a in m["acts"] if not (0 <= a[0] <= 11)], codes)
                if m["cmd"] <= 2 and 88 + self.acts_len(m["acts"]) > 65523:
                    # more actions than a flow-statistics entry can ever report: OFPET_BAD_ACTION / OFPBAC_TOO_MANY, nothing installed
                    if codes == [(2, 7)]: return None
                    return "flow_mod:too-many-actions:%s | %d bytes of actions, expected BAD_ACTION/TOO_MANY, got %s" % (
                        "installed-silently" if not codes else "wrong-error", self.acts_len(m["acts"]), codes)
                before = list(ctx["table"].flows)
                ok_codes, notify = ctx["table"].flow_mod(m)
                self._tc_removed(ctx, before)
                name = lambda cs: "none" if not cs else "+".join("%d-%d" % c for c in sorted(cs))
                if ok_codes is None:
                    if fmc: return "flow_mod:%s:refused-%s | the standard accepts this flow_mod; installed now %d of %d" % (cmdname, name(fmc), len(ctx["table"].flows), ctx["table"].capacity)
                elif len(fmc) != 1 or fmc[0] not in ok_codes:
                    return "flow_mod:%s:expected-error-%s:got-%s | " % (cmdname, name(ok_codes), name(fmc))
                if asyncs is not None:
                    got = sorted((r["prio"], r["cookie"], r["reason"]) for r in asyncs if r["t"] == "flow_removed")
                    exp = sorted((f["prio"], f["cookie"], 2) for f in notify)
                    if got != exp: return "flow_mod:%s:flow-removed-notifications-differ | expected %s got %s" % (cmdname, exp, got)
                codes = [c for c in codes if c[0] != 3]
            # action / buffer part
            unsupported = [a for a in m["acts"] if not (0 <= a[0] <= 11)]
            executed = None                                              # are the actions run?  None = unknown (batch mode)
            if k == "packet_out" and m["data"]: executed = True
            elif m["bid"] is None: executed = False
            elif ctx["live"] is not None:
                executed = m["bid"] in ctx["live"]
                if executed:
                    self._tc_actions(ctx, m, True)
                    ctx["live"].discard(m["bid"]); ctx.setdefault("used", set()).add(m["bid"])
                else:
                    # already used ↦ BUFFER_EMPTY (1/7), never handed out ↦ BUFFER_UNKNOWN (1/8)
                    want = (1, 7) if m["bid"] in ctx.get("used", ()) else (1, 8)
                    if codes != [want]:
                        return "%s:unknown-buffer:%s | buffer_id=%d, expected BAD_REQUEST/%s, got %s" % (
                            k, "silent" if not codes else "wrong-error", m["bid"], "BUFFER_EMPTY" if want[1] == 7 else "BUFFER_UNKNOWN", codes)
                    return None
            if not (executed and m["bid"] is not None and not (k == "packet_out" and m["data"])): self._tc_actions(ctx, m, executed)
            if executed is False and codes: return "%s:unexpected-error | %s" % (k, codes)
            if executed and unsupported and codes != [(2, 0)]:
                return "%s:unsupported-action:%s | expected BAD_ACTION/BAD_TYPE got %s" % (k, "no-reply" if not codes else "wrong-error", codes)
            if executed and not unsupported and codes: return "%s:unexpected-error | %s" % (k, codes)
            return None
        return "harness: unknown kind %s" % k

    # -- the oracle's own OFPST_TABLE counters (OpenFlow 1.0 ofp_table_stats: lookup_count = "number of packets looked up in
    #    table", matched_count = "number of packets that hit table"), kept as ranges [lo, hi] (hi None = no upper bound) so that
    #    only what the standard fixes is demanded; "P" = sum of the packet counts of the installed entries

    @staticmethod
    def _tc_add(T, key, lo, hi):
        T[key][0] += lo
        T[key][1] = None if (T[key][1] is None or hi is None) else T[key][1] + hi

    def _tc_lookup(self, ctx, in_port, lo=1, hi=1):
        """between lo and hi packets that came in on in_port (None = not known) are looked up in the table now"""
        flows = ctx["table"].flows
        cand = flows if in_port is None else [f for f in flows if f["mkey"] is None or f["mkey"] == in_port]
        hit_sure = in_port is not None and bool(cand)
        if any(OFPP_TABLE in f["outs"] for f in cand): hi = None               # an entry that re-submits: no bound from the standard
        T = ctx["tc"]
        self._tc_add(T, "L", lo, hi)
        for key in ("M", "P"):
            self._tc_add(T, key, lo if hit_sure else 0, hi if cand else 0)

    def _tc_actions(self, ctx, m, executed):
        """table submissions of a packet_out / flow_mod whose actions are (True) / may be (None) carried out"""
        if executed is False: return
        n = 0
        stopped = False
        for a in m["acts"]:
            if not (0 <= a[0] <= 11): stopped = True; break                     # processing ends at an action type without handler
            if a[0] == 0 and a[1] == OFPP_TABLE: n += 1
        if m["k"] == "packet_out" and m["data"]: in_port = m.get("in_port", OFPP_NONE)
        else: in_port = ctx["bufin"].get(m["bid"]) if ctx["live"] is not None else None
        sure = executed is True and not stopped and m["k"] == "packet_out"       # (whether the actions in front of an unsupported one are carried out is not fixed)
        if n: self._tc_lookup(ctx, in_port, n if sure else 0, n)
        if m["k"] == "flow_mod":
            # the standard says the buffered packet is what the flow_mod "applies to"; whether that counts as a table lookup it leaves open
            self._tc_lookup(ctx, in_port, 0, 1)

    def _tc_removed(self, ctx, before):
        """entries left the table (deleted or replaced by an ADD): their packet counts are gone from the sum"""
        now = {id(g) for g in ctx["table"].flows}
        if any(id(f) not in now for f in before): ctx["tc"]["P"][0] = 0

    @staticmethod
    def _tc_in(rng, v):
        return rng[0] <= v and (rng[1] is None or v <= rng[1])

    def _tc_check_table(self, ctx, lookup, matched):
        T = ctx["tc"]
        say = lambda r: "%d" % r[0] if r[0] == r[1] else "%d..%s" % (r[0], "" if r[1] is None else r[1])
        if not self._tc_in(T["L"], lookup):
            return "lookup-count-differs | %s packets were looked up in the table (frames on receiving ports + output:TABLE submissions), reply says %d" % (say(T["L"]), lookup)
        if not self._tc_in(T["M"], matched):
            return "matched-count-differs | %s packets hit an entry, reply says %d" % (say(T["M"]), matched)
        if matched > lookup: return "matched-exceeds-lookup | lookup_count=%d matched_count=%d" % (lookup, matched)
        T["L"], T["M"] = [lookup, lookup], [matched, matched]
        return None

    def oracle(self, case, obs):
        f = self._oracle_one(self.effective(case), obs)
        if f is None and case.get("other"):
            f = self._oracle_one(case["other"], obs["other"])
            if f: f = "second-switch:" + f
        return f

    def _oracle_one(self, case, obs):
        st = case["state"]
        if obs.get("construct_failure"):
            return "switch-construction:internal-failure:%s | state %s" % (obs["construct_failure"], {k: v for k, v in st.items() if k != "ports"})
        live_ports = [p for p in st["ports"] if p not in st["deleted"]]
        ctx = {"hello": False, "config": (0, self.spec_miss(st)), "ports": live_ports, "stat_ports": list(st["ports"]), "state": st, "table": SpecTable(st["max_entries"]),
               "hw": self._hw_cache(st), "live": set() if case["mode"] == "step" else None, "starting": True, "snap": obs.get("init"),
               "tc": {"L": [0, 0], "M": [0, 0], "P": [0, 0]}, "bufin": {}, "norecv": {p: bool(c & 4) for p, c in self._cfg_cache(st).items()}}
        raws = [self.to_bytes(m) for m in case["msgs"]]
        closing = bool(case["msgs"]) and case["msgs"][-1]["k"] == "bad" and case["msgs"][-1].get("why") == "version"
        if closing:
            if obs["alive"]: return "bad-message:version:connection-left-open"
        elif not obs["alive"]: return "connection-closed"
        if obs.get("left", 0) != case.get("expect_left", 0) and not closing: return "input-not-consumed | %d bytes" % obs["left"]
        if case["mode"] == "step":
            if len(obs["groups"]) != len(case["msgs"]): return "harness: group count"
            for m, g, raw in zip(case["msgs"], obs["groups"], raws):
                if m["k"] == "traffic":
                    # a frame on a port the switch has and that receives is looked up once; on any other port not at all
                    if m["port"] in live_ports and not ctx["norecv"].get(m["port"]): self._tc_lookup(ctx, m["port"])
                    for r in g["out"]:
                        if r["t"] == "packet_in" and r["bid"] is not None: ctx["live"].add(r["bid"]); ctx["bufin"][r["bid"]] = r.get("inp")
                    ctx["snap"] = g["snap"]
                    continue
                if g["st"] != "ok" and not (closing and m is case["msgs"][-1] and g["st"] == "closed"): return "%s:connection-%s" % (m["k"], g["st"])
                if m["k"] not in ("bad", "unhandled") and g["calls"] != 1: return "%s:handler-called-%d-times | " % (m["k"], g["calls"])
                R = [r for r in g["out"] if r["t"] not in ASYNC]
                f = self._check_request(m, R, raw, ctx, g["exc"], asyncs=[r for r in g["out"] if r["t"] in ASYNC])
                for r in g["out"]:
                    if r["t"] == "packet_in" and r["bid"] is not None: ctx["live"].add(r["bid"]); ctx["bufin"][r["bid"]] = r.get("inp")
                ctx["snap"] = g["snap"]
                if f: return f
            return None
        # batch: pair by xid, check order, then the same per-request checks
        if obs["st"] != ["ok"] and not closing: return "connection-%s" % obs["st"]
        snaps = self.op_snaps(case, obs)
        if snaps is None and not closing and obs.get("init") is not None: return "batch:handler-call-count | %d calls for %d messages" % (len(obs["snaps"]), sum(1 for m in case["msgs"] if m["k"] != "bad"))
        reqs = [(i, m) for i, m in enumerate(case["msgs"]) if m["k"] != "unhandled"]
        byxid = {m["xid"]: i for i, m in reqs}
        groups = {i: [] for i, _ in reqs}
        last = -1
        first_hello = next((i for i, m in reqs if m["k"] == "hello"), None)
        for r in obs["stream"]:
            if r["t"] in ASYNC: continue
            if r["t"] == "hello" and first_hello is not None and not groups[first_hello]: i = first_hello
            else:
                i = byxid.get(r.get("xid"))
                if i is None: return "batch:reply-with-foreign-xid | %s" % self._strip(r)
            if i < last: return "batch:replies-out-of-order | reply to request %d after reply to request %d" % (i, last)
            last = i
            groups[i].append(r)
        n_unh = sum(1 for m in case["msgs"] if m["k"] == "unhandled")
        exc = [e for e in obs["exc"] if e != "RuntimeError"] if n_unh else obs["exc"]
        for i, m in enumerate(case["msgs"]):
            if m["k"] == "unhandled":
                ctx["starting"] = False; continue
            ctx["snap"] = (obs["init"] if i == 0 else snaps[i - 1]) if snaps is not None else None
            f = self._check_request(m, groups[i], raws[i], ctx, [])
            if f:
                # a logged handler exception is attributed to the first request whose answer is missing or wrong
                if exc and ":no-reply" in f: return self._check_request(m, groups[i], raws[i], copy.deepcopy(ctx), exc[:1])
                return f
        if exc: return "batch:internal-failure:%s" % exc[0]
        return None

    def _hw_cache(self, st):
        key = (st.get("dpid", 1), tuple(st["ports"]))
        c = self.__dict__.setdefault("_hwc", {})
        if key not in c:
            try:
                node = self.make_node({**st, "deleted": [], "features": None})
                c[key] = {p.port_no: int.from_bytes(p.hw_addr.toRaw(), "big") for p in node.sw.ports.values()}
            except Exception:
                c[key] = {}
        return c[key]

    def _cfg_cache(self, st):
        """initial config bits of the ports, read off a freshly built switch"""
        key = (st.get("dpid", 1), tuple(st["ports"]))
        c = self.__dict__.setdefault("_cfgc", {})
        if key not in c:
            try:
                node = self.make_node({**st, "deleted": [], "features": None})
                c[key] = {p.port_no: int(p.config) for p in node.sw.ports.values()}
            except Exception:
                c[key] = {}
        return c[key]

    def finding_key(self, case, obs, failure):
        k = failure.split(" | ")[0]
        return k[len("second-switch:"):] if k.startswith("second-switch:") else k

    def nontrivial(self, case, obs):
        rs = [r for g in obs["groups"] for r in g["out"]] if obs["mode"] == "step" else obs["stream"]
        kinds = {r["t"] for r in rs}
        return len(kinds) >= 2 or "error" in kinds

    def shrink_candidates(self, case):
        msgs = case["msgs"]
        def without(lo, hi):
            c = copy.deepcopy(case); del c["msgs"][lo:hi]
            if c["mode"] == "batch": c["cuts"] = []
            return c
        n = len(msgs)
        # long histories (the pre-filled table): cut away large blocks first, single messages only once it is short
        size = n // 2
        while size >= max(8, n // 8):
            for lo in range(0, n, size):
                if 0 < n - min(size, n - lo): yield without(lo, lo + size)
            size //= 2
        if n <= 80:
            for i in range(n):
                if n > 1: yield without(i, i + 1)
        if case.get("other"):
            c = copy.deepcopy(case); c.pop("other"); yield c
        if case["mode"] == "batch" and not case.get("drop_tail"):
            c = copy.deepcopy(case); c["mode"] = "step"; c.pop("cuts", None); yield c
        if case["state"] != self.STATES[0]:
            c = copy.deepcopy(case); c["state"] = copy.deepcopy(self.STATES[0]); yield c

CHECK = C13
