"""C01 — OpenFlow 1.0 wire codec is lossless and matches the specified layout (DESIGN §5 C01).

translate : harness/translate/codec_layouts.py regenerates lean/PoxModel/Generated/Layouts.lean from $POX_REPO.
model     : drv_c01 executes `Layout.encode/decode` over those generated layouts (and over Spec/OF10Layouts) plus the
            hand models of ofp_packet_out, ofp_match and the NXM TLVs.
impl      : the real classes: pack(), len(), header length field, unpack of pack()+trailer, ==, re-pack().
oracle    : the property on the implementation's observables only.
"""
import os, sys, struct, random, copy
import common, poxenv, ofgen
from common import Check
from ofgen import rint, rbytes, rmac, rname, U8, U16, U32, U64

sys.path.insert(0, os.path.join(os.path.dirname(os.path.abspath(__file__)), "translate"))
import codec_layouts, spec_parser

TRAILER = b"\xa5\x5a\xa5"
MAXLEN = 65535

# type codes of the standard (enum ofp_type / ofp_action_type of openflow.h 1.0), per library class — an independent
# Python table for the oracle (the Lean side has its own transcription in Spec/OF10Layouts.lean)
SPEC_MSG_CODE = {"ofp_hello": 0, "ofp_error": 1, "ofp_echo_request": 2, "ofp_echo_reply": 3, "ofp_vendor_generic": 4,
                 "ofp_features_request": 5, "ofp_features_reply": 6, "ofp_get_config_request": 7, "ofp_get_config_reply": 8,
                 "ofp_set_config": 9, "ofp_packet_in": 10, "ofp_flow_removed": 11, "ofp_port_status": 12, "ofp_packet_out": 13,
                 "ofp_flow_mod": 14, "ofp_port_mod": 15, "ofp_stats_request": 16, "ofp_stats_reply": 17, "ofp_barrier_request": 18,
                 "ofp_barrier_reply": 19, "ofp_queue_get_config_request": 20, "ofp_queue_get_config_reply": 21}
SPEC_ACTION_CODES = {"ofp_action_output": {0}, "ofp_action_vlan_vid": {1}, "ofp_action_vlan_pcp": {2}, "ofp_action_strip_vlan": {3},
                     "ofp_action_dl_addr": {4, 5}, "ofp_action_nw_addr": {6, 7}, "ofp_action_nw_tos": {8}, "ofp_action_tp_port": {9, 10},
                     "ofp_action_enqueue": {11}, "ofp_action_vendor_generic": {0xffff}}
SPEC_STATS_CODE = {"ofp_desc_stats_request": 0, "ofp_flow_stats_request": 1, "ofp_aggregate_stats_request": 2, "ofp_table_stats_request": 3,
                   "ofp_port_stats_request": 4, "ofp_queue_stats_request": 5, "ofp_desc_stats": 0, "ofp_flow_stats": 1,
                   "ofp_aggregate_stats": 2, "ofp_table_stats": 3, "ofp_port_stats": 4, "ofp_queue_stats": 5}

# classes the translator names as outside its vocabulary on the unchanged tree (hand models / oracle cover them).  A class
# that is untranslated on the tree under test and is NOT in this list is *untied*: no layout theorem speaks about it on
# this run; it is reported in the evidence and on stderr, and its bytes are still compared with the standard's structure
# by the oracle (spec_bytes) and its round trip by running the real code.
EXPECTED_UNTRANSLATED = {"ofp_header", "ofp_packet_out", "ofp_flow_mod_table_id", "nx_flow_mod", "nx_action_bundle",
                         "nx_action_learn", "flow_mod_spec", "nxm_entry", "nxt_packet_in", "nx_match"}

# classes for which a pack() that raises is what the code is meant to do (abstract)
ABSTRACT = {"ofp_header"}


# ------------------------------------------------------------------------------------------------ spec -> object

# string fields of the standard's structures (checked against the zstr fields of Spec/OF10Layouts.lean in setup)
ZS_FIELDS = {"name": None, "mfr_desc": None, "hw_desc": None, "sw_desc": None, "serial_num": None, "dp_desc": None}
ZS_WIDTH = {}         # class -> {field: width}, filled in setup from the parsed spec text


class Builder:
    def __init__(self, of, nx, addresses):
        self.of, self.nx = of, nx
        self.EthAddr, self.IPAddr, self.IPAddr6 = addresses.EthAddr, addresses.IPAddr, addresses.IPAddr6
        self.refs = {}
        self.alt = False
        self.zs_bytes = False          # hand the string fields to the library as bytes (latin-1: one byte per character)

    def cls(self, name):
        c = getattr(self.of, name, None)
        if c is None: c = getattr(self.nx, name)
        return c

    def nxm_value(self, c, v):
        nx = self.nx
        if v is None: return None
        if issubclass(c, nx._nxm_ip): return self.IPAddr(bytes.fromhex(v)) if isinstance(v, str) else v
        if issubclass(c, nx._nxm_ipv6): return self.IPAddr6(bytes.fromhex(v), raw=True) if isinstance(v, str) else v
        if issubclass(c, nx._nxm_ether): return self.EthAddr(bytes.fromhex(v))
        if issubclass(c, nx._nxm_raw): return bytes.fromhex(v)
        return v

    def kwargs(self, s):
        """constructor / attribute values of a spec.  Integers above 256 are made at run time (`int(str(v))`) so that they
        are never the same object as a module constant of the library (`x is OFPP_CONTROLLER` must not pass by accident);
        with `self.alt` the alternative calling conventions the library documents are used: Ethernet addresses as 6 raw
        bytes, action lists as tuples."""
        kw = {}
        for k, v in s.get("kw", {}).items():
            if isinstance(v, (dict, list)) and (isinstance(v, dict) or (v and isinstance(v[0], dict))):
                v = self.build(v)
                if self.alt and k == "actions" and isinstance(v, list): v = tuple(v)
            elif k in ("hw_addr", "dl_addr", "dl_src", "dl_dst") and isinstance(v, str):
                v = bytes.fromhex(v) if self.alt else self.EthAddr(bytes.fromhex(v))
            elif k == "nw_addr": v = self.IPAddr(bytes.fromhex(v))
            elif k in ("nw_src", "nw_dst") and isinstance(v, list): v = (self.IPAddr(bytes.fromhex(v[0])), v[1])
            elif k in ("data", "body") and isinstance(v, str): v = bytes.fromhex(v)
            elif k in ZS_FIELDS and isinstance(v, str) and self.zs_bytes and all(ord(ch) < 256 for ch in v): v = bytes(ord(ch) for ch in v)
            elif isinstance(v, int) and not isinstance(v, bool) and v > 256: v = int(str(v))
            elif isinstance(v, list): v = list(v)              # never hand the spec's own (empty) list to the library
            kw[k] = v
        return kw

    def learn_spec(self, d):
        """a flow_mod_spec from its description {src: [field, NXM, ofs] | [imm, value], dst: [match|load, NXM, ofs] | [output],
        n_bits, route}: through the keyword front end `flow_mod_spec.new` (route "kw"), or from the part classes."""
        nx = self.nx
        n = d["n_bits"]; src, dst = d["src"], d["dst"]
        imm = None if src[0] != "imm" else int(src[1]).to_bytes(((n + 15) // 16) * 2, "big")
        if d.get("route") == "kw":
            kw = {"n_bits": n}
            if src[0] == "field": kw.update(field=getattr(nx, src[1]), src_ofs=src[2], src_n_bits=n)
            else: kw.update(immediate=imm, src_n_bits=n)
            if dst[0] == "output": kw["output"] = True
            else: kw.update({dst[0]: getattr(nx, dst[1]), "dst_ofs": dst[2], "dst_n_bits": n})
            return nx.flow_mod_spec.new(**kw)
        so = nx.nx_learn_src_field(getattr(nx, src[1]), src[2], n) if src[0] == "field" else nx.nx_learn_src_immediate(imm, n)
        if dst[0] == "output": do = nx.nx_learn_dst_output()
        else: do = {"match": nx.nx_learn_dst_match, "load": nx.nx_learn_dst_load}[dst[0]](getattr(nx, dst[1]), dst[2], n)
        if d.get("route") == "infer": return nx.flow_mod_spec(so, do)          # n_bits taken from the parts
        return nx.flow_mod_spec(so, do, n)

    def build(self, s):
        if isinstance(s, list): return [self.build(x) for x in s]
        if not isinstance(s, dict): return s
        if "ref" in s: return self.refs[s["ref"]]            # a shared component object (kind "reuse")
        if "nxmcls" in s: return getattr(self.nx, s["nxmcls"])
        if "nxm" in s:
            c = getattr(self.nx, s["nxm"])
            return c(self.nxm_value(c, s.get("value")), self.nxm_value(c, s.get("mask")))
        if "nx_match" in s:
            m = self.nx.nx_match()
            for p in s["nx_match"]: m.append(self.build(p))
            return m
        if "lspec" in s: return self.learn_spec(s["lspec"])
        if "fms" in s:                                   # flow_mod_spec.new(**kw)
            return self.nx.flow_mod_spec.new(**{k: self.build(v) for k, v in s["fms"].items()})
        if "eth" in s: return self.EthAddr(bytes.fromhex(s["eth"]))
        if "ip" in s: return self.IPAddr(bytes.fromhex(s["ip"]))
        if "bytes" in s: return bytes.fromhex(s["bytes"])
        if "cls" not in s: return {k: self.build(v) for k, v in s.items()}
        c = self.cls(s["cls"])
        kw = self.kwargs(s)
        if "factory" in s:
            o = getattr(c, s["factory"])(**kw)
        elif "args" in s:
            o = c(*[self.build(a) for a in s["args"]], **kw)
        else:
            o = c(**kw)
        for k, v in s.get("set", {}).items():            # attributes assigned after construction
            setattr(o, k, self.build(v))
        for k, v in s.get("append", {}).items():
            for x in v: getattr(o, k).append(self.build(x))
        return o


# ------------------------------------------------------------------------------------------------ generators

def g_action_generic(rng):
    return {"cls": "ofp_action_generic", "kw": dict(type=rng.choice([12, 0x7ffe, 0xfffe, rng.randint(12, 0xfffe)]), data=rbytes(rng, 4 + 8 * rng.randint(0, 4)).hex())}

def g_prop(rng):
    k = rng.randint(0, 3)
    if k == 0: return {"cls": "ofp_queue_prop_min_rate", "kw": dict(rate=rint(rng, U16))}
    if k == 1: return {"cls": "ofp_queue_prop_none", "kw": {}}
    if k == 2: return {"cls": "ofp_queue_prop_none", "kw": dict(property=0)}
    return {"cls": "ofp_queue_prop_generic", "kw": dict(property=rng.choice([2, 0xffff, rng.randint(2, 0xffff)]), data=rbytes(rng, 4 + 8 * rng.randint(0, 3)).hex())}

def g_queue(rng, n=None):
    return {"cls": "ofp_packet_queue", "kw": dict(queue_id=rint(rng, U32), properties=[g_prop(rng) for _ in range(rng.randint(0, 4) if n is None else n)])}

def g_any_action(rng):
    if rng.random() < 0.1: return g_action_generic(rng)
    return ofgen.action(rng)

def g_vendor_stats(rng):
    return {"cls": "ofp_vendor_stats_generic", "kw": dict(vendor=rint(rng, U32), data=rbytes(rng, rng.choice([0, 1, 8, rng.randint(0, 64)])).hex())}

def g_generic_stats(rng):
    return {"cls": "ofp_generic_stats_body", "kw": dict(data=rbytes(rng, rng.choice([0, 1, 8, rng.randint(0, 64)])).hex())}

STRUCT_GEN = {
    "ofp_phy_port": ofgen.phy_port, "ofp_packet_queue": g_queue, "ofp_queue_prop": g_prop, "ofp_match": ofgen.match,
    "ofp_action": g_any_action, "ofp_desc_stats": ofgen.desc_stats, "ofp_flow_stats": ofgen.flow_stats,
    "ofp_table_stats": ofgen.table_stats, "ofp_port_stats": ofgen.port_stats, "ofp_queue_stats": ofgen.queue_stats,
    "ofp_vendor_stats_generic": g_vendor_stats, "ofp_generic_stats_body": g_generic_stats,
    "ofp_aggregate_stats": lambda rng: {"cls": "ofp_aggregate_stats", "kw": dict(packet_count=rint(rng, U64), byte_count=rint(rng, U64), flow_count=rint(rng, U32))},
    "ofp_flow_stats_request": lambda rng: {"cls": "ofp_flow_stats_request", "kw": dict(match=ofgen.match(rng), table_id=rint(rng, U8), out_port=rint(rng, U16))},
    "ofp_aggregate_stats_request": lambda rng: {"cls": "ofp_aggregate_stats_request", "kw": dict(match=ofgen.match(rng), table_id=rint(rng, U8), out_port=rint(rng, U16))},
    "ofp_port_stats_request": lambda rng: {"cls": "ofp_port_stats_request", "kw": dict(port_no=rint(rng, U16))},
    "ofp_queue_stats_request": lambda rng: {"cls": "ofp_queue_stats_request", "kw": dict(port_no=rint(rng, U16), queue_id=rint(rng, U32))},
    "ofp_desc_stats_request": lambda rng: {"cls": "ofp_desc_stats_request", "kw": {}},
    "ofp_table_stats_request": lambda rng: {"cls": "ofp_table_stats_request", "kw": {}},
}

NXM_NUMERIC = ["NXM_OF_IN_PORT", "NXM_OF_ETH_TYPE", "NXM_OF_VLAN_TCI", "NXM_OF_IP_TOS", "NXM_OF_IP_PROTO", "NXM_OF_TCP_SRC",
               "NXM_OF_TCP_DST", "NXM_OF_UDP_SRC", "NXM_OF_UDP_DST", "NXM_OF_ICMP_TYPE", "NXM_OF_ICMP_CODE", "NXM_OF_ARP_OP",
               "NXM_NX_TUN_ID", "NXM_NX_ICMPV6_TYPE", "NXM_NX_ICMPV6_CODE", "NXM_NX_IP_FRAG", "NXM_NX_IPV6_LABEL", "NXM_NX_IP_ECN",
               "NXM_NX_IP_TTL", "NXM_NX_COOKIE", "NXM_NX_TCP_FLAGS", "OXM_OF_MPLS_LABEL", "OXM_OF_MPLS_TC", "OXM_OF_MPLS_BOS"] + \
              ["NXM_NX_REG%d" % i for i in range(16)]
NXM_ETHER = ["NXM_OF_ETH_DST", "NXM_OF_ETH_SRC", "NXM_NX_ARP_SHA", "NXM_NX_ARP_THA", "NXM_NX_ND_SLL", "NXM_NX_ND_TLL"]
NXM_IP = ["NXM_OF_IP_SRC", "NXM_OF_IP_DST", "NXM_OF_ARP_SPA", "NXM_OF_ARP_TPA", "NXM_NX_TUN_IPV4_SRC", "NXM_NX_TUN_IPV4_DST"]
NXM_IP6 = ["NXM_NX_IPV6_SRC", "NXM_NX_IPV6_DST", "NXM_NX_ND_TARGET"]
NXM_ALL = NXM_NUMERIC + NXM_ETHER + NXM_IP + NXM_IP6
NXM_LEN = {}    # filled in setup from the library's own classes: name -> (length, maskable)


def g_nxm(rng, name=None, masked=None, canonical=False):
    """an nxm entry spec; value bits outside the mask are zero (the library asserts that).  `canonical`: never an
    all-ones mask (which the wire format cannot tell from no mask)"""
    name = name or rng.choice(NXM_ALL)
    ln, maskable = NXM_LEN[name]
    if masked is None: masked = maskable and rng.random() < 0.5
    if not maskable: masked = False
    mx = (1 << (8 * ln)) - 1
    m = rng.choice(([] if canonical else [mx]) + [0, (mx >> 1) + 1, rng.randint(0, mx - 1)]) if masked else None
    if name == "NXM_NX_TCP_FLAGS" and m is not None: m &= 0x0fff
    v = rint(rng, mx)
    if m is not None: v &= m
    if name in NXM_NUMERIC:
        return {"nxm": name, "value": v, "mask": m}
    return {"nxm": name, "value": v.to_bytes(ln, "big").hex(), "mask": None if m is None else m.to_bytes(ln, "big").hex()}


def g_nx_match(rng, n=None, canonical=False):
    names = rng.sample(NXM_ALL, rng.randint(0, 6) if n is None else n)
    return {"nx_match": [g_nxm(rng, nm, canonical=canonical) for nm in names]}


# ---- string fields: every class of character, as str and as bytes
ZS_ASCII = "abcxyz019-_ ~"
ZS_LATIN = "\u0080\u009f\u00a0\u00e9\u00fc\u00df\u00f1\u00ff\u00c0\u00b5"      # U+0080..U+00FF: one byte each in the field
ZS_WIDE = "\u0100\u0142\u03a9\u20ac\u65e5\U0001f600\ufeff"                       # beyond U+00FF: no one-byte form
ZS_MODES = ["ascii", "latin", "latin1", "fill_latin", "fill_ascii", "wide", "wide_fill", "nul", "nul_end", "nul_start", "long", "long_latin"]


def g_zs(rng, n, mode=None):
    """a value for a zero-padded string field of n bytes.  The field holds one byte per character (the reader decodes
    latin-1), so a string is representable iff every character is U+0001..U+00FF and there are at most n of them."""
    mode = mode or rng.choice(ZS_MODES)
    body = lambda k, alpha: "".join(rng.choice(alpha) for _ in range(k))
    if mode == "ascii": return body(rng.randint(0, n), ZS_ASCII)
    if mode == "latin": return body(rng.randint(1, n), ZS_ASCII + ZS_LATIN + ZS_LATIN)
    if mode == "latin1": return body(rng.randint(0, n - 1), ZS_ASCII) + rng.choice(ZS_LATIN)
    if mode == "fill_latin": return body(n - 1, ZS_ASCII + ZS_LATIN) + rng.choice(ZS_LATIN)
    if mode == "fill_ascii": return body(n, ZS_ASCII)
    if mode == "wide":
        k = rng.randint(0, max(0, n // 2 - 2)); return body(k, ZS_ASCII + ZS_LATIN) + rng.choice(ZS_WIDE) + body(rng.randint(0, 1), ZS_ASCII)
    if mode == "wide_fill": return body(n - 1, ZS_ASCII) + rng.choice(ZS_WIDE)
    if mode == "nul": return body(rng.randint(1, n // 2), ZS_ASCII + ZS_LATIN) + "\0" + body(rng.randint(1, n // 2 - 1), ZS_ASCII + ZS_LATIN)
    if mode == "nul_end": return body(rng.randint(0, n - 1), ZS_ASCII) + "\0"
    if mode == "nul_start": return "\0" + body(rng.randint(1, n - 1), ZS_ASCII)
    if mode == "long": return body(n + rng.choice([1, 1, 2, 17]), ZS_ASCII)
    if mode == "long_latin": return body(n, ZS_ASCII) + rng.choice(ZS_LATIN)
    raise KeyError(mode)


def zs_unfit(spec):
    """why a spec's string field has no representation in its field (None: all representable)"""
    if isinstance(spec, list):
        for x in spec:
            r = zs_unfit(x)
            if r: return r
        return None
    if not isinstance(spec, dict): return None
    w = ZS_WIDTH.get(spec.get("cls"), {})
    for part in ("kw", "set"):
        for k, v in spec.get(part, {}).items():
            if k in w and isinstance(v, str):
                if any(ord(ch) > 255 for ch in v): return "%s has a character beyond U+00FF" % k
                if "\0" in v: return "%s contains a NUL" % k
                if len(v) > w[k]: return "%s has %d characters, the field has %d bytes" % (k, len(v), w[k])
            else:
                r = zs_unfit(v)
                if r: return r
    for k in ("append",):
        for v in spec.get(k, {}).values():
            r = zs_unfit(v)
            if r: return r
    return None


def spice_strings(rng, spec, p=0.35):
    """replace string fields anywhere inside a spec by richer ones"""
    if isinstance(spec, list):
        for x in spec: spice_strings(rng, x, p)
    elif isinstance(spec, dict):
        w = ZS_WIDTH.get(spec.get("cls"), {})
        for k, v in spec.get("kw", {}).items():
            if k in w and isinstance(v, str):
                if rng.random() < p: spec["kw"][k] = g_zs(rng, w[k])
            else: spice_strings(rng, v, p)
    return spec


def zs_case(rng, spec):
    """an obj case over a spec with string fields: as str or as bytes; unrepresentable strings must be refused"""
    c = {"kind": "obj", "spec": spec}
    if rng.random() < 0.4: c["zs"] = "bytes"
    why = zs_unfit(spec)
    if why: c["expect"] = "raise"; c["why"] = why
    return c


# ---- nx_action_learn: flow_mod_specs from a description (what the oracle lays out independently)
LEARN_FIELDS = ["NXM_OF_VLAN_TCI", "NXM_OF_ETH_SRC", "NXM_OF_ETH_DST", "NXM_OF_IN_PORT", "NXM_NX_TUN_ID", "NXM_OF_IP_SRC", "NXM_NX_IPV6_SRC"] + \
               ["NXM_NX_REG%d" % i for i in range(8)]


# nicira-ext.h: NXM_HEADER(vendor, field, length) = vendor << 16 | field << 9 | hasmask << 8 | length
NXM_SPEC = {"NXM_OF_IN_PORT": (0, 0, 2), "NXM_OF_ETH_DST": (0, 1, 6), "NXM_OF_ETH_SRC": (0, 2, 6), "NXM_OF_VLAN_TCI": (0, 4, 2),
            "NXM_OF_IP_SRC": (0, 7, 4), "NXM_NX_TUN_ID": (1, 16, 8), "NXM_NX_IPV6_SRC": (1, 19, 16)}
NXM_SPEC.update({"NXM_NX_REG%d" % i: (1, i, 4) for i in range(16)})


def g_lspec(rng, n_bits=None, src=None, dst=None, route=None):
    src = src or rng.choice(["field", "imm", "imm"])
    dst = dst or rng.choice(["match", "load", "output"])
    n = n_bits if n_bits is not None else rng.choice([rng.randint(1, 64), rng.randint(1, 64), rng.randint(1, 128), rng.choice([1, 8, 9, 16, 17, 1023])])
    ofs = lambda: rng.choice([0, 0, 1, rng.randint(0, 127), 0xffff])
    s = ["field", rng.choice(LEARN_FIELDS), ofs()] if src == "field" else ["imm", rng.choice([0, 1, (1 << n) - 1, rng.getrandbits(n)])]
    d = ["output"] if dst == "output" else [dst, rng.choice(LEARN_FIELDS), ofs()]
    return {"lspec": {"src": s, "dst": d, "n_bits": n, "route": route or rng.choice(["kw", "parts", "parts", "infer"])}}


def g_learn(rng, specs=None):
    if specs is None: specs = [g_lspec(rng) for _ in range(rng.randint(0, 5))]
    return {"cls": "nx_action_learn", "kw": dict(table_id=rint(rng, U8), hard_timeout=rint(rng, U16), idle_timeout=rint(rng, U16), priority=rint(rng, U16),
            cookie=rint(rng, U64), flags=rint(rng, U16), fin_idle_timeout=rint(rng, U16), fin_hard_timeout=rint(rng, U16)), "append": {"spec": specs}}


def g_nx_action(rng, kind=None):
    kinds = ["controller", "push_mpls", "pop_mpls", "mpls_label", "mpls_tc", "resubmit", "resubmit_table", "set_tunnel",
             "set_tunnel64", "fin_timeout", "exit", "dec_ttl", "reg_move", "reg_load", "reg_load_entry", "output_reg",
             "bundle", "bundle_load", "learn"]
    k = kind or rng.choice(kinds)
    reg = lambda: {"nxmcls": "NXM_NX_REG%d" % rng.randint(0, 15)}
    if k == "controller": return {"cls": "nx_action_controller", "kw": dict(max_len=rint(rng, U16), controller_id=rint(rng, U16), reason=rint(rng, U8))}
    if k == "push_mpls": return {"cls": "nx_action_push_mpls", "kw": dict(ethertype=rng.choice([0x8847, 0x8848, rint(rng, U16)]))}
    if k == "pop_mpls": return {"cls": "nx_action_pop_mpls", "kw": dict(ethertype=rint(rng, U16))}
    if k == "mpls_label": return {"cls": "nx_action_mpls_label", "kw": dict(label=rint(rng, U32))}
    if k == "mpls_tc": return {"cls": "nx_action_mpls_tc", "kw": dict(tc=rint(rng, U8))}
    if k == "resubmit": return {"cls": "nx_action_resubmit", "factory": "resubmit", "kw": dict(in_port=rint(rng, U16))}
    if k == "resubmit_table": return {"cls": "nx_action_resubmit", "factory": "resubmit_table", "kw": dict(table=rint(rng, U8), in_port=rint(rng, U16))}
    if k == "set_tunnel": return {"cls": "nx_action_set_tunnel", "kw": dict(tun_id=rint(rng, U32))}
    if k == "set_tunnel64": return {"cls": "nx_action_set_tunnel64", "kw": dict(tun_id=rint(rng, U64))}
    if k == "fin_timeout": return {"cls": "nx_action_fin_timeout", "kw": dict(fin_idle_timeout=rint(rng, U16), fin_hard_timeout=rint(rng, U16))}
    if k == "exit": return {"cls": "nx_action_exit", "kw": {}}
    if k == "dec_ttl": return {"cls": "nx_action_dec_ttl", "kw": {}}
    if k == "reg_move": return {"cls": "nx_reg_move", "kw": dict(dst=reg(), src=reg(), nbits=rng.randint(1, 16), src_ofs=rng.randint(0, 16), dst_ofs=rng.randint(0, 16))}
    if k == "reg_load": return {"cls": "nx_reg_load", "kw": dict(dst=reg(), value=rint(rng, U32), nbits=rng.randint(1, 32), offset=rng.choice([0, 0, rng.randint(0, 31)]))}
    if k == "reg_load_entry": return {"cls": "nx_reg_load", "kw": dict(dst={"nxm": "NXM_NX_REG%d" % rng.randint(0, 15), "value": rint(rng, U32), "mask": None})}
    if k == "output_reg": return {"cls": "nx_output_reg", "kw": dict(reg=reg(), nbits=rng.randint(1, 32), offset=rng.choice([0, rng.randint(0, 31)]), max_len=rint(rng, U16))}
    if k == "bundle": return {"cls": "nx_action_bundle", "kw": dict(algorithm=rng.randint(0, 1), fields=rng.randint(0, 1), basis=rint(rng, U16), slaves=[rng.randint(1, 100) for _ in range(rng.randint(0, 5))])}
    if k == "bundle_load": return {"cls": "nx_action_bundle", "kw": dict(load=True, dst=reg(), nbits=rng.randint(1, 32), slaves=[rng.randint(1, 100) for _ in range(rng.randint(0, 5))])}
    if k == "learn" and rng.random() < 0.7: return g_learn(rng)
    if k == "learn":
        specs = []
        for _ in range(rng.randint(0, 4)):
            j = rng.randint(0, 3)
            if j == 0: specs.append({"fms": {"field": {"nxmcls": "NXM_OF_VLAN_TCI"}, "n_bits": rng.randint(1, 12)}})
            elif j == 1: specs.append({"fms": {"field": {"nxmcls": "NXM_OF_ETH_SRC"}, "match": {"nxmcls": "NXM_OF_ETH_DST"}}})
            elif j == 2: specs.append({"fms": {"field": {"nxmcls": "NXM_OF_IN_PORT"}, "output": True}})
            else: specs.append({"fms": {"field": {"nxmcls": "NXM_NX_REG%d" % rng.randint(0, 3)}, "load": {"nxmcls": "NXM_NX_REG%d" % rng.randint(4, 7)}}})
        return {"cls": "nx_action_learn", "kw": dict(table_id=rint(rng, U8), hard_timeout=rint(rng, U16), idle_timeout=rint(rng, U16), priority=rint(rng, U16),
                cookie=rint(rng, U64), flags=rint(rng, U16), fin_idle_timeout=rint(rng, U16), fin_hard_timeout=rint(rng, U16)), "append": {"spec": specs}}
    raise KeyError(k)

NX_ACTION_KINDS = ["controller", "push_mpls", "pop_mpls", "mpls_label", "mpls_tc", "resubmit", "resubmit_table", "set_tunnel", "set_tunnel64",
                   "fin_timeout", "exit", "dec_ttl", "reg_move", "reg_load", "reg_load_entry", "output_reg", "bundle", "bundle_load", "learn"]


def g_nx_message(rng, kind=None):
    kinds = ["flow_mod_table_id", "packet_in_format", "role_request", "role_reply", "async_config", "nx_flow_mod", "nxt_packet_in", "ofp_flow_mod_table_id"]
    k = kind or rng.choice(kinds)
    xid = rint(rng, U32)
    if k == "flow_mod_table_id": return {"cls": "nx_flow_mod_table_id", "kw": dict(xid=xid, enable=rng.choice([True, False]))}
    if k == "packet_in_format": return {"cls": "nx_packet_in_format", "kw": dict(xid=xid, format=rint(rng, U32))}
    if k == "role_request": return {"cls": "nx_role_request", "kw": dict(xid=xid, role=rint(rng, U32))}
    if k == "role_reply": return {"cls": "nx_role_reply", "kw": dict(xid=xid, role=rint(rng, U32))}
    if k == "async_config":
        return {"cls": "nx_async_config", "kw": dict(xid=xid, packet_in_mask=rint(rng, U32), packet_in_mask_slave=rint(rng, U32), port_status_mask=rint(rng, U32),
                port_status_mask_slave=rint(rng, U32), flow_removed_mask=rint(rng, U32), flow_removed_mask_slave=rint(rng, U32))}
    if k == "nx_flow_mod":
        return {"cls": "nx_flow_mod", "kw": dict(xid=xid, match=g_nx_match(rng, canonical=True), cookie=rint(rng, U64), command=rng.randint(0, 4), table_id=rint(rng, U8), idle_timeout=rint(rng, U16),
                hard_timeout=rint(rng, U16), priority=rint(rng, U16), out_port=rint(rng, U16), flags=rng.randint(0, 7), actions=ofgen.actions(rng))}
    if k == "nxt_packet_in":
        return {"cls": "nxt_packet_in", "kw": dict(xid=xid, buffer_id=rint(rng, U32 - 1), reason=rng.randint(0, 2), table_id=rint(rng, U8), cookie=rint(rng, U64),
                data=rbytes(rng, rng.choice([0, 1, 60, rng.randint(0, 200)])).hex()), "set": {"match": g_nx_match(rng, canonical=True)}}
    if k == "ofp_flow_mod_table_id":
        s = ofgen.message(rng, "flow_mod"); s["cls"] = "ofp_flow_mod_table_id"; s["kw"]["table_id"] = rint(rng, U8); s["kw"]["command"] = rng.randint(0, 4)
        return s
    raise KeyError(k)

NX_MESSAGE_KINDS = ["flow_mod_table_id", "packet_in_format", "role_request", "role_reply", "async_config", "nx_flow_mod", "nxt_packet_in", "ofp_flow_mod_table_id"]


def g_fm_data(rng, variant=None):
    """a flow-mod whose `data` is a packet-in: buffered / unbuffered complete / incomplete"""
    fm = ofgen.message(rng, "flow_mod")
    v = variant or rng.choice(["buffered", "unbuffered", "unbuffered", "incomplete"])
    n = rng.choice([0, 1, 60, rng.randint(0, 300)])
    kw = dict(xid=rint(rng, U32), in_port=rint(rng, U16), reason=rng.randint(0, 1), data=rbytes(rng, n).hex())
    if v == "buffered": kw["buffer_id"] = rint(rng, U32 - 1); kw["total_len"] = n + rng.choice([0, 40])
    elif v == "unbuffered": kw["buffer_id"] = None
    else: kw["buffer_id"] = None; kw["total_len"] = n + rng.randint(1, 100)
    return {"kind": "fm_data", "spec": fm, "data": {"cls": "ofp_packet_in", "kw": kw}}


def reuse_match_ops(m_ref, rng, order=None, hash_at=0):
    """messages that carry the same match object, in the given order, with hash() (which locks the match) at `hash_at`"""
    fs = lambda: {"cls": "ofp_flow_stats", "kw": dict(table_id=1, match=m_ref, priority=7, cookie=9, actions=[])}
    msgs = {
        "flow_mod": {"cls": "ofp_flow_mod", "kw": dict(xid=34, match=m_ref, cookie=1, command=0, priority=32768, buffer_id=None, out_port=65535, flags=0,
                                                      actions=[{"cls": "ofp_action_output", "kw": dict(port=1)}])},
        "flow_req": {"cls": "ofp_stats_request", "kw": dict(xid=35, flags=0, body={"cls": "ofp_flow_stats_request", "kw": dict(match=m_ref, table_id=255, out_port=65535)})},
        "aggr_req": {"cls": "ofp_stats_request", "kw": dict(xid=36, flags=0, body={"cls": "ofp_aggregate_stats_request", "kw": dict(match=m_ref, table_id=255, out_port=65535)})},
        "flow_rep": {"cls": "ofp_stats_reply", "kw": dict(xid=37, type=1, flags=0, body=[fs()])},
        "removed": {"cls": "ofp_flow_removed", "kw": dict(xid=38, match=m_ref, cookie=1, priority=5, reason=0, duration_sec=1, duration_nsec=2, idle_timeout=3, packet_count=4, byte_count=5)},
    }
    order = order or rng.sample(sorted(msgs), rng.randint(2, 5))
    ops = [{"op": "pack", "spec": msgs[k]} for k in order]
    extra = [{"op": "hash", "ref": "c"}]
    if rng is not None:
        extra += rng.sample([{"op": "show", "ref": "c"}, {"op": "eq", "ref": "c"}, {"op": "cpack", "ref": "c", "kw": {"flow_mod": True}},
                             {"op": "cpack", "ref": "c", "kw": {"flow_mod": False}}, {"op": "len", "ref": "c"}], rng.randint(0, 3))
    for i, e in enumerate(extra):
        pos = hash_at if i == 0 else rng.randint(0, len(ops))
        ops.insert(min(pos, len(ops)), e)
    return ops


# ---- mutate-after-measure: edits that apply to a spec (to build the fresh twin) and to the live object alike
SKIP_SET = {"type", "property", "header_type", "version", "subtype", "vendor", "xid", "load", "enable"}
MEASURES = ["len", "pack", "show", "eq", "hash", "pack_twice"]


def spec_at(spec, path):
    node = spec
    for st in path:
        if isinstance(st, int): node = node[st]
        elif "nx_match" in node and st == "nx_match": node = node["nx_match"]
        elif st in node.get("kw", {}): node = node["kw"][st]
        else: node = node["set"][st]
    return node


def apply_edit_spec(spec, e):
    """the spec of the value the object has after the edit"""
    s = copy.deepcopy(spec)
    t = spec_at(s, e["path"])
    op = e["op"]
    if op == "set":
        (t["set"] if e["attr"] in t.get("set", {}) else t["kw"])[e["attr"]] = copy.deepcopy(e["value"])
    elif op == "append": t.append(copy.deepcopy(e["value"]))
    elif op == "insert": t.insert(e["index"], copy.deepcopy(e["value"]))
    elif op == "replace": t[e["index"]] = copy.deepcopy(e["value"])
    elif op == "pop": t.pop(e["index"])
    elif op == "clear": del t[:]
    elif op in ("mask", "entry_mask"): t["nx_match"][e["index"]]["mask"] = e["mask"]
    elif op == "value": t["nx_match"][e["index"]]["value"] = e["value"]
    elif op == "with_mask": t["nx_match"][e["index"]]["value"] = e["value"]; t["nx_match"][e["index"]]["mask"] = e["mask"]
    else: raise KeyError(op)
    return s


def edit_sites(rng, spec, path=()):
    """every place of a spec where the object can be changed in place: scalar attributes, payloads, strings, element lists
    (append / insert / replace / pop / clear and the elements themselves), sub-objects, masks and values of nx_match entries"""
    out = []; path = list(path)
    if not isinstance(spec, dict): return out
    if "nx_match" in spec:
        for i, ent in enumerate(spec["nx_match"]):
            name = ent["nxm"]; ln, maskable = NXM_LEN[name]; mx = (1 << (8 * ln)) - 1
            lim = 0x0fff if name == "NXM_NX_TCP_FLAGS" else mx
            num = name in NXM_NUMERIC
            enc = (lambda x: x) if num else (lambda x: x.to_bytes(ln, "big").hex())
            v = ent["value"] if num else int(ent["value"], 16)
            if maskable and ent.get("mask") is None:
                m = (v | (lim & ~(lim >> 1)) | rng.getrandbits(8 * ln)) & lim
                if m == mx: m = (mx - 1) | v if v != mx else mx
                out.append({"path": path, "op": rng.choice(["mask", "mask", "entry_mask"]), "index": i, "mask": enc(m)})
                v2 = rng.getrandbits(8 * ln) & m
                out.append({"path": path, "op": "with_mask", "index": i, "value": enc(v2), "mask": enc(m)})
            elif maskable:
                out.append({"path": path, "op": rng.choice(["mask", "entry_mask"]), "index": i, "mask": None})
                out.append({"path": path, "op": "mask", "index": i, "mask": enc(mx)})          # all ones: the entry shrinks again
            else:
                out.append({"path": path, "op": "value", "index": i, "value": enc((v ^ 1) & lim)})
        return out
    if "cls" not in spec: return out
    cls = spec["cls"]
    for part in ("kw", "set"):
        for k, v in spec.get(part, {}).items():
            if k in SKIP_SET or isinstance(v, bool) or v is None: continue
            if cls == "ofp_match":
                if isinstance(v, int) and k in ("in_port", "tp_src", "tp_dst", "dl_vlan"): out.append({"path": path, "op": "set", "attr": k, "value": (v + 1) & 0xfff})
                continue
            if isinstance(v, int):
                out.append({"path": path, "op": "set", "attr": k, "value": rng.choice([v ^ 1, v // 2, 0])})
            elif isinstance(v, str) and k in ("data", "body"):
                if cls == "ofp_packet_out" and spec["kw"].get("buffer_id") is not None: continue     # a buffered packet-out carries no data
                out.append({"path": path, "op": "set", "attr": k, "value": rng.choice([v + "5a", v + "00" * 7, v[:-2], ""])})
            elif isinstance(v, str) and k in ZS_FIELDS:
                out.append({"path": path, "op": "set", "attr": k, "value": (v[:-1] if v else "q") if rng.random() < 0.5 else (v + "\u00e9")[:8]})
            elif isinstance(v, dict) and ("cls" in v or "nx_match" in v):
                out += edit_sites(rng, v, path + [k])
            elif isinstance(v, list) and (not v or (isinstance(v[0], dict) and "cls" in v[0])) and k in ("actions", "ports", "queues", "properties", "body"):
                lp = path + [k]
                new = copy.deepcopy(v[0]) if v else ({"cls": "ofp_action_output", "kw": dict(port=2)} if k == "actions" else None)
                if new is not None:
                    out.append({"path": lp, "op": "append", "value": new})
                    out.append({"path": lp, "op": "insert", "index": 0, "value": new})
                if v:
                    out.append({"path": lp, "op": "pop", "index": len(v) - 1})
                    out.append({"path": lp, "op": "pop", "index": 0})
                    out.append({"path": lp, "op": "clear"})
                    out.append({"path": lp, "op": "replace", "index": 0, "value": perturb(rng, v[0])})
                    i = rng.randrange(len(v))
                    out += edit_sites(rng, v[i], lp + [i])
    return out


def g_mutate(rng, spec, n=None):
    """mutate-after-measure cases over one spec: one per edit site (or n of them), the measure taken before the edit rotating"""
    sites = edit_sites(rng, spec)
    if n is not None:                  # structural edits (lists, masks) all, scalar assignments sampled
        sets = [e for e in sites if e["op"] == "set"]; rest = [e for e in sites if e["op"] != "set"]
        if len(rest) > 3 * n: rest = rng.sample(rest, 3 * n)
        sites = rest + (rng.sample(sets, n) if len(sets) > n else sets)
    return [{"kind": "seq", "mode": "mutate", "measure": rng.choice(MEASURES), "spec": spec, "edit": e} for e in sites]


# ---- fault, then reuse: an operation on an object RAISES part way, the caller repairs the object and uses it again
# where the fault is put (kinds of place in a spec) and what is put there (spellings of "a value this place cannot hold")
FAULT_BAD = {"int": ["none", "big", "neg", "str", "obj"],            # a number is needed
             "mint": ["big", "neg", "str", "obj"],                             # a number is needed, in a match field
             "payload": ["int", "obj", "wide"],                        # bytes are needed
             "zs": ["none", "wide", "long", "int"],                    # a representable string is needed
             "addr": ["none", "short", "int"],                         # an address is needed
             "sub": ["none", "int", "obj"],                            # a codec object is needed
             "elem": ["none", "int", "unset", "obj"]}                  # an element of the list's kind is needed
FAULT_OPS = ["pack", "len", "pack_twice", "pack"]                     # the call that meets the fault
FAULT_AFTER = [["pack", "len", "unpack"], ["unpack", "len", "pack"], ["len", "pack", "unpack"], ["pack", "unpack", "pack"]]
FAULT_AFTER_TRUNC = [["unpack", "pack", "len"], ["unpack", "len", "pack"], ["unpack", "unpack", "pack"]]   # (what a half-read object packs to is open)
FAULT_CUTS = [["end", 1], ["end", 4], ["end", 8], ["half"], ["abs", 9], ["abs", 8], ["abs", 4], ["abs", 0], ["end", 12], ["abs", 58]]
# elements with a field that is left unset on purpose by the constructor (the caller is to fill it in before packing)
UNSET_ELEMS = {"actions": [{"cls": "ofp_action_output", "kw": {}}, {"cls": "ofp_action_enqueue", "kw": {}, "set": {"port": None}},
                           {"cls": "ofp_action_dl_addr", "kw": {}}, {"cls": "ofp_action_nw_addr", "kw": {}}, {"cls": "ofp_action_vlan_vid", "kw": {}, "set": {"vlan_vid": None}}]}


def fault_sites(spec, path=()):
    """every place of a spec where a fault can be put and taken away again: scalar attributes, payloads, strings, addresses,
    sub-objects (replaced as a whole, and faults inside them), element lists (a bad element first / in the middle / last,
    and faults inside elements)"""
    out = []; path = list(path)
    if not isinstance(spec, dict) or "cls" not in spec: return out
    if spec["cls"] == "ofp_match":                   # (None in a match field is a wildcard, not a fault)
        return [{"path": path, "via": "attr", "attr": k, "what": "mint"} for k, v in spec.get("kw", {}).items() if isinstance(v, int) and not isinstance(v, bool)]
    for part in ("kw", "set"):
        for k, v in spec.get(part, {}).items():
            if isinstance(v, bool) or k in ("load", "enable"): continue
            # (reading already recorded for this class: pack() sets max_len to 0 whenever port is not OFPP_CONTROLLER — also
            #  when port is not a port at all; so the port of an output-to-controller action is not a place for a fault)
            if spec["cls"] == "ofp_action_output" and k == "port" and v == 0xfffd: continue
            if isinstance(v, int): out.append({"path": path, "via": "attr", "attr": k, "what": "int"})
            elif isinstance(v, str) and k in ("data", "body"): out.append({"path": path, "via": "attr", "attr": k, "what": "payload"})
            elif isinstance(v, str) and k in ZS_FIELDS: out.append({"path": path, "via": "attr", "attr": k, "what": "zs"})
            elif isinstance(v, str) and k in ("hw_addr", "dl_addr", "dl_src", "dl_dst", "nw_addr"): out.append({"path": path, "via": "attr", "attr": k, "what": "addr"})
            elif isinstance(v, dict) and ("cls" in v or "nx_match" in v):
                out.append({"path": path, "via": "attr", "attr": k, "what": "sub"})
                out += fault_sites(v, path + [k])
            elif isinstance(v, list) and k in ("actions", "ports", "queues", "properties", "body") and (not v or (isinstance(v[0], dict) and "cls" in v[0])):
                for i in sorted({0, len(v) // 2, len(v)}):
                    out.append({"path": path + [k], "via": "elem", "index": i, "what": "elem", "list": k, "like": copy.deepcopy(v[0]) if v else None})
                for i in sorted({0, len(v) - 1}):
                    if 0 <= i < len(v): out += fault_sites(v[i], path + [k, i])
    return out


def nonzero(rng, spec):
    """the spec with every number that is 0 made 1..3 (what a failed call leaves behind often only shows next to a value
    that is not the default); type codes and matches stay"""
    if isinstance(spec, list): return [nonzero(rng, x) for x in spec]
    if not isinstance(spec, dict): return spec
    if "cls" not in spec or spec["cls"] == "ofp_match": return copy.deepcopy(spec)
    s = copy.deepcopy(spec)
    for part in ("kw", "set"):
        for k, v in s.get(part, {}).items():
            if isinstance(v, bool) or k in SKIP_SET: continue
            if isinstance(v, int) and v == 0: s[part][k] = rng.randint(1, 3)
            elif isinstance(v, (dict, list)) and k != "slaves": s[part][k] = nonzero(rng, v)
    return s


def g_fault(rng, spec, n=None, k0=0, every=False):
    """fault-then-reuse cases over one spec: one per fault site (or n sampled attribute sites + every element site), the
    spelling of the bad value, the call that meets it and the order of the calls after the repair rotating"""
    sites = fault_sites(spec)
    if n is not None:
        at = [s for s in sites if s["via"] == "attr"]; el = [s for s in sites if s["via"] != "attr"]
        if len(at) > n: at = [at[i] for i in sorted(rng.sample(range(len(at)), n))]
        if len(el) > n: el = [el[i] for i in sorted(rng.sample(range(len(el)), n))]
        sites = at + el
    out = []
    if every:                                     # every spelling at every site
        sites = [dict(s, bad=b) for s in sites for b in FAULT_BAD[s["what"]]]
    for i, s in enumerate(sites):
        bads = FAULT_BAD[s["what"]]
        f = dict(s); f["bad"] = s.get("bad") or bads[(i + k0) % len(bads)]
        if f["bad"] == "unset":
            pool = UNSET_ELEMS.get(s.get("list"))
            if pool: f["elem"] = copy.deepcopy(pool[(i + k0) % len(pool)])
            elif s.get("like") is not None:                       # a copy of a sibling with one of its numbers taken out
                e = copy.deepcopy(s["like"]); nums = sorted(k for k, v in e.get("kw", {}).items() if isinstance(v, int) and not isinstance(v, bool))
                if not nums: f["bad"] = "none"
                else: e.setdefault("set", {})[nums[(i + k0) % len(nums)]] = None; f["elem"] = e
            else: f["bad"] = "none"
        f.pop("like", None); f.pop("list", None)
        out.append({"kind": "fault", "spec": spec, "fault": f, "op": FAULT_OPS[(i + k0) % len(FAULT_OPS)], "after": FAULT_AFTER[(i + k0) % len(FAULT_AFTER)]})
    return out


def g_fault_trunc(rng, spec, spec0=None, cuts=None, k0=0):
    """a buffer that ends too early offered to unpack() of an object (default-constructed, or holding another value), then
    the whole buffer offered to the same object"""
    out = []
    for i, cut in enumerate(cuts or FAULT_CUTS):
        c = {"kind": "fault", "spec": spec, "fault": {"via": "trunc", "cut": cut, "what": "trunc", "twice": (i + k0) % 3 == 2}, "op": "unpack",
             "after": FAULT_AFTER_TRUNC[(i + k0) % len(FAULT_AFTER_TRUNC)]}
        if spec0 is not None and (i + k0) % 2 == 0: c["spec0"] = spec0
        out.append(c)
    return out


def g_mask_after_measure(rng, name, holder, measure):
    """an nx_match (on its own / in an nx_flow_mod / in an nxt_packet_in) whose entry of type `name` gets a mask after `measure`"""
    ln, _ = NXM_LEN[name]; mx = (1 << (8 * ln)) - 1
    lim = 0x0ffe if name == "NXM_NX_TCP_FLAGS" else mx - 1
    v = rng.getrandbits(8 * ln) & lim
    enc = (lambda x: x) if name in NXM_NUMERIC else (lambda x: x.to_bytes(ln, "big").hex())
    ents = [{"nxm": name, "value": enc(v), "mask": None}]
    if name != "NXM_OF_IN_PORT": ents.insert(0, {"nxm": "NXM_OF_IN_PORT", "value": 1, "mask": None})
    m = {"nx_match": ents}; idx = len(ents) - 1
    if holder == "nx_match": spec, path = m, []
    elif holder == "nx_flow_mod":
        spec = g_nx_message(rng, "nx_flow_mod"); spec["kw"]["match"] = m; path = ["match"]
    else:
        spec = g_nx_message(rng, "nxt_packet_in"); spec["set"]["match"] = m; path = ["match"]
    return {"kind": "seq", "mode": "mutate", "measure": measure, "spec": spec, "edit": {"path": path, "op": rng.choice(["mask", "entry_mask", "with_mask"]), "index": idx, "value": enc(v), "mask": enc(lim)}}


def g_reuse(rng, scenario=None):
    """the same component object placed in several messages / packed several times, after hash / == / show — every pack
    must give what a fresh equal object gives (pack is a function of the object's value, not of its history)"""
    sc = scenario or rng.choice(["match", "match", "match", "action", "port", "queue", "entry"])
    ref = {"ref": "c"}
    if sc == "match":
        comp = rng.choice([ofgen.match, ofgen.match, abnormal_match])(rng)
        ops = reuse_match_ops(ref, rng, hash_at=rng.randint(0, 3))
    elif sc == "action":
        comp = g_any_action(rng) if rng.random() < 0.7 else {"cls": "ofp_action_output", "kw": dict(port=rng.choice([1, 0xfffd]), max_len=rint(rng, U16))}
        msgs = [{"cls": "ofp_flow_mod", "kw": dict(xid=1, match=ofgen.match(rng), actions=[ref, ref])},
                {"cls": "ofp_packet_out", "kw": dict(xid=2, buffer_id=None, in_port=1, actions=[ref], data="00")},
                {"cls": "ofp_flow_stats", "kw": dict(table_id=0, match=ofgen.match(rng), actions=[ref])}]
        rng.shuffle(msgs)
        ops = [{"op": "pack", "spec": m} for m in msgs]
        for e in rng.sample([{"op": "hash", "ref": "c"}, {"op": "show", "ref": "c"}, {"op": "eq", "ref": "c"}, {"op": "cpack", "ref": "c", "kw": {}}], 2):
            ops.insert(rng.randint(0, len(ops)), e)
    elif sc == "port":
        comp = ofgen.phy_port(rng)
        msgs = [{"cls": "ofp_features_reply", "kw": dict(xid=1, datapath_id=1, ports=[ref, ref])}, {"cls": "ofp_port_status", "kw": dict(xid=2, reason=1, desc=ref)},
                {"cls": "ofp_features_reply", "kw": dict(xid=3, datapath_id=2, ports=[ref])}]
        rng.shuffle(msgs)
        ops = [{"op": "pack", "spec": m} for m in msgs]
        for e in rng.sample([{"op": "hash", "ref": "c"}, {"op": "show", "ref": "c"}, {"op": "eq", "ref": "c"}, {"op": "cpack", "ref": "c", "kw": {}}], 2):
            ops.insert(rng.randint(0, len(ops)), e)
    elif sc == "queue":
        comp = g_queue(rng)
        ops = [{"op": "pack", "spec": {"cls": "ofp_queue_get_config_reply", "kw": dict(xid=1, port=1, queues=[ref])}}, {"op": "show", "ref": "c"},
               {"op": "pack", "spec": {"cls": "ofp_queue_get_config_reply", "kw": dict(xid=2, port=2, queues=[ref, ref])}}, {"op": "cpack", "ref": "c", "kw": {}}]
    else:
        t, g = rng.choice([(1, ofgen.flow_stats), (3, ofgen.table_stats), (4, ofgen.port_stats), (5, ofgen.queue_stats)])
        comp = g(rng)
        ops = [{"op": "pack", "spec": {"cls": "ofp_stats_reply", "kw": dict(xid=1, type=t, flags=1, body=[ref])}}, {"op": "eq", "ref": "c"}, {"op": "show", "ref": "c"},
               {"op": "pack", "spec": {"cls": "ofp_stats_reply", "kw": dict(xid=2, type=t, flags=0, body=[ref, ref])}}, {"op": "cpack", "ref": "c", "kw": {}}]
    return {"kind": "reuse", "components": {"c": comp}, "ops": ops}


NXM_SIZES = None


def nx_match_of_length(rng, total):
    """an nx_match spec whose packed length is exactly `total` bytes (distinct entry types; None if not reachable)"""
    global NXM_SIZES
    if NXM_SIZES is None:
        NXM_SIZES = {}
        for name in NXM_ALL:
            ln, maskable = NXM_LEN[name]
            NXM_SIZES.setdefault(4 + ln, []).append((name, False))
            if maskable: NXM_SIZES.setdefault(4 + 2 * ln, []).append((name, True))
    sizes = sorted(NXM_SIZES)
    def search(rem, start, used):
        if rem == 0: return []
        for i in range(start, len(sizes)):
            sz = sizes[i]
            if sz > rem: break
            for name, masked in NXM_SIZES[sz]:
                if name in used: continue
                r = search(rem - sz, i, used | {name})
                if r is not None: return [(name, masked)] + r
                break
        return None
    pick = search(total, 0, frozenset())
    if pick is None: return None
    return {"nx_match": [g_nxm(rng, n, masked=m, canonical=True) for n, m in pick]}


def perturb(rng, spec):
    """another value of the same class and shape: integers, payloads, names and list contents changed"""
    s = copy.deepcopy(spec)
    kw = s.get("kw", {})
    for k, v in list(kw.items()):
        if k == "type" and s.get("cls") != "ofp_error": continue
        if k == "property": continue                   # a queue property's type code selects its class, like `type`
        if isinstance(v, bool) or v is None: continue
        if isinstance(v, int): kw[k] = rng.choice([0, v ^ 1, v // 2, v])
        elif isinstance(v, str) and k in ("data", "body"): kw[k] = v[:-2] if (v and rng.random() < 0.5) else v + "5a"
        elif isinstance(v, str) and k in ("name", "mfr_desc", "hw_desc", "sw_desc", "serial_num", "dp_desc"): kw[k] = v[:-1] if v else "q"
        elif isinstance(v, dict) and "cls" in v and v["cls"] != "ofp_match": kw[k] = perturb(rng, v)
        elif isinstance(v, list) and v and isinstance(v[0], dict) and "cls" in v[0]:
            r = rng.random()
            if r < 0.4: kw[k] = v + [copy.deepcopy(v[0])]
            elif r < 0.6: kw[k] = v[:-1]
            else: kw[k] = [perturb(rng, v[0])] + v[1:]
        elif isinstance(v, list) and not v and k in ("actions",) and rng.random() < 0.7:
            kw[k] = [{"cls": "ofp_action_output", "kw": dict(port=2)}]
    if s.get("cls") == "ofp_packet_out" and kw.get("buffer_id") is not None: kw["data"] = ""
    return s


def abnormal_match(rng):
    """a match that sets fields whose protocol prerequisites are absent (the library warns and normalises)"""
    kw = {"dl_type": rng.choice([0x88cc, 0x806, 0x800, None])}
    if kw["dl_type"] is None: del kw["dl_type"]
    if rng.random() < 0.6: kw["nw_tos"] = rng.randint(0, 63) << 2
    if rng.random() < 0.6: kw["nw_proto"] = rng.choice([1, 6, 17, 47, 255])
    if rng.random() < 0.6: kw["tp_src"] = rint(rng, U16)
    if rng.random() < 0.6: kw["tp_dst"] = rint(rng, U16)
    if rng.random() < 0.5: kw["nw_src"] = [rbytes(rng, 4).hex(), rng.randint(1, 32)]
    if rng.random() < 0.5: kw["nw_dst"] = [rbytes(rng, 4).hex(), rng.randint(1, 32)]
    return {"cls": "ofp_match", "kw": kw}


# ------------------------------------------------------------------------------------------------ the check

class C01(Check):
    id = "C01"
    prop_module = "PoxModel.Properties.C01"
    extra_modules = ["PoxModel.Properties.C01Framing"]      # C01 ∘ C02: the generated decoders satisfy the framing theorems' decoder hypothesis
    lean_targets = ["drv_c01"]
    driver = "drv_c01"
    theorems = ["Pox.C01F.messages_ok", "Pox.C01F.codec_message_wf", "Pox.C01F.codec_stream_framing",
                "Pox.C01F.packet_out_wf", "Pox.C01F.stats_reply_list_wf", "Pox.C01F.nxt_packet_in_wf", "Pox.C01F.nx_flow_mod_wf",
                "Pox.FramingCodec.wf_via",
                "Pox.C01.pack_eq_unpack", "Pox.C01.pack_eq_spec", "Pox.C01.len_eq",
                "Pox.C01.registry_messages", "Pox.C01.registry_actions", "Pox.C01.registry_stats",
                "Pox.C01.registry_queue_props", "Pox.C01.registry_total", "Pox.C01.roundtrip", "Pox.C01.roundtrip_regular",
                "Pox.C01.vendor_action_in_list", "Pox.Layout.vendor_as_generic", "Pox.Spec.NX.sizes_ok", "Pox.Spec.NX.matchPad_law",
                "Pox.Spec.NX.action_sizes_ok", "Pox.Spec.NX.immBytes_law", "Pox.Spec.NX.learnSpecHeader_inj", "Pox.C01.actions_stream",
                "Pox.C01.packet_out_roundtrip", "Pox.C01.flow_mod_data_roundtrip",
                "Pox.C01.stats_reply_list_roundtrip", "Pox.C01.stats_body_roundtrip", "Pox.C01.nx_flow_mod_roundtrip",
                "Pox.C01.nxt_packet_in_roundtrip", "Pox.C01.match_roundtrip", "Pox.C01.match_roundtrip_fm", "Pox.C01.match_nonnormal_witness", "Pox.C01.nxm_roundtrip", "Pox.C01.nx_match_roundtrip",
                "Pox.Layout.decode_encode", "Pox.Layout.encode_length", "Pox.Layout.lenfield_exact", "Pox.Layout.codecAt_good",
                "Pox.Spec.OF10.sizes_ok"]
    anchors = [("pox/openflow/libopenflow_01.py", 102, 142), ("pox/openflow/libopenflow_01.py", 194, 203),
               ("pox/openflow/libopenflow_01.py", 549, 4388), ("pox/openflow/nicira.py", 116, 210),
               ("pox/openflow/nicira.py", 561, 1262), ("pox/openflow/nicira.py", 1870, 2070), ("pox/openflow/nicira.py", 2509, 2610)]
    coverage_cases = 1300
    search_budget = {"quick": 4000, "thorough": 40000}
    design_ref = "DESIGN.md §5 C01"
    technique = ("Lean 4 proof: generic Layout round trip (decode∘encode = id, length-field exactness) proved once for every layout and nesting depth; "
                 "per-class layouts regenerated from the source by an ast translator on every run and compared by `decide` with pack-vs-unpack, with the "
                 "transcribed openflow.h structures and with the decorator registries; differential correspondence of the compiled model against pack()/unpack()")
    trusted_base = ["Spec/OF10Layouts.lean: hand transcription of openflow.h 1.0 (checked against the standard's own OFP_ASSERT sizes)",
                    "harness/translate/codec_layouts.py decides which layout stands for a pack/unpack method; every layout it emits is executed against the real pack()/unpack() bytes on every run",
                    "hand models Model/CodecOF.lean (ofp_packet_out), Model/CodecMatch.lean (ofp_match), Model/CodecNXM.lean (NXM TLVs): tied to the code by the correspondence run only",
                    "Spec/NXLayouts.lean: hand transcription of nicira-ext.h (nx_flow_mod, nx_packet_in, nx_action_learn, nx_action_bundle, flow_mod_spec header/immediate sizes); the NXM header numbers used for learn specs are a table in the harness",
                    "_packzs/_readzs are read as the zstr field by name; their behaviour (one byte per character = latin-1, NUL/over-long refused) is tied to the code by the correspondence run and the string cases",
                    "Python __eq__ methods are exercised through the harness, not modelled"]
    assumptions = ["struct.pack/unpack_from behave as documented (big-endian, range-checked)", "assert statements are live (no -O)",
                   "field values are in their wire ranges (Fits); out-of-range values make pack() raise struct.error in the code and encode = none in the model"]
    level_text = ("Theorems: for every translated codec class (63 regular + 6 irregular of libopenflow_01/nicira, regenerated each run) pack layout = unpack layout = "
                  "openflow.h layout (decide), __len__ = size of the layout, all 22 message / 13 action / 7 stats / 2 queue-property codes registered to the class with the "
                  "standard's structure; generic theorem roundtrip: for all field values, list lengths, nesting depths and trailing bytes decode(encode r ++ tl) = (r, tl), "
                  "len = __len__, header length field = byte count, re-encode reproduces the bytes. Irregular/untranslated classes are pinned by name.")
    level_note = ("pack() is modelled as a FUNCTION of the object's value (the model has no state): the `reuse` cases check exactly that on the real code — the same "
                  "component object (match, action, port, queue, stats entry) through hash()/==/show() and several messages in several orders must pack like a fresh equal "
                  "object every time; the `fault` cases check that a pack()/len()/unpack() that RAISED leaves nothing behind (object and class), the results after the repair being "
                  "compared with the model's answer for the repaired value (ofp_flow_mod_table_id, nx_action_learn/bundle: oracle only, as for their plain cases). roundtrip_regular is the statement about pack()/unpack() for classes with no flags; `roundtrip` is the same fact about the layout "
                  "interpreter for every translated class. Nicira actions inside action lists decode to ofp_action_vendor_generic (vendor_action_in_list: same bytes, "
                  "re-encodes identically; equality with the original needs fixes/C01-K4). nx_flow_mod / nxt_packet_in are compared by the oracle with the nicira-ext.h layout "
                  "(Spec/NXLayouts.lean, pad to 8 computed in the oracle) for nx_match lengths covering every residue mod 8. "
                  "Proved for ALL inputs: generic Layout round trip + length-field exactness at any nesting depth (roundtrip, actions_stream); "
                  "packet_out_roundtrip; flow_mod_data_roundtrip (the `data` magic: 1 or 3 framed messages, buffer_id taken from the packet-in, barrier + re-injecting packet-out); "
                  "stats_reply_list_roundtrip / stats_body_roundtrip (body dispatch by type code, list bodies with nested actions); match_roundtrip (both modes, normal matches) and "
                  "match_roundtrip_fm (flow_mod mode, EVERY in-range match decodes to fix(m)); NXM TLV framing (nxm_roundtrip, nx_match_roundtrip); nx_flow_mod_roundtrip, "
                  "nxt_packet_in_roundtrip. By `decide` over data regenerated from the source on every run: pack layout = unpack layout = openflow.h layout, __len__, registries, "
                  "(each Spec-table class: translated with the standard's layout, or named by the translator as not read = untied, reported in evidence, still compared "
                  "with the standard's layout by the oracle on the real code); the pins over today's classes (untranslated / irregular / uncovered lists, instances, "
                  "examples) are in Properties/C01Pins.lean, built separately and reported as pins_ok. NOT proved, tested only by the correspondence run and the oracle: NXM field semantics (value/mask conversions, "
                  "prerequisites), the classes of uncovered_pinned (nx_output_reg, nx_reg_move, nx_reg_load: layout checked and bytes compared through the model, values computed from NXM "
                  "classes; nx_action_bundle, nx_action_learn/flow_mod_spec, ofp_flow_mod_table_id: oracle only), nx_flow_mod's own `data` magic, Python __eq__. "
                  "Readings recorded: plain-mode matches are read over Normal ones; an all-ones NXM mask is the same entry as no mask; ofp_action_output is read after pack() has "
                  "normalised max_len. The property oracle (incl. the comparison with the openflow.h layout) is pure Python over the parsed text of Spec/OF10Layouts.lean and works "
                  "when the Lean build is broken. Trusted: Lean kernel, Spec/OF10Layouts.lean transcription, the translator's canonicalisation (checked by bytes on every run), hand models.")
    rule = ("case = one codec object described as a JSON spec built from the library's own classes; corpus = per-field boundary sweep {0,1,max,sign bit} of every translated class, "
            "strings of every length and every class of character (ASCII, U+0080..U+00FF incl. as last byte of a full field, beyond U+00FF, NUL inside/at either end, one too long; as str and as bytes; unrepresentable ones must be refused), "
            "every message/action/struct class decoded behind 8, 12, 24, 64, 780 bytes inside a larger buffer; mutate-after-measure histories (len/pack/show/==/hash, then one in-place change of a scalar, payload, string, "
            "action/port/queue/property/stats list or element, nx_match mask or value, then pack == pack of a fresh object of the new value), "
            "fault-then-reuse histories for every class (a scalar / payload / string / address / sub-object / list element made invalid as None, out of range, negative, wrong type, "
            "an element with an unset field — first, middle, last — so that pack()/len() raises, once or twice; or a buffer cut at ten places offered to unpack() of a default-constructed or a used object; "
            "the value put back; then pack / len / unpack of the whole message into the same object in every order, another instance, unpack_new: each result equal to that of an object "
            "with the same life but for the failed call, and the final pack/len/length field/decoded record equal to the model's answer for that value), "
            "nx_action_learn with immediates of 1..64 and wider bits x every source/destination kind laid out from nicira-ext.h's description, spec lists of every size mod 8, bundles with 0..12 slaves, action lists 0..8183, payloads 0..1500, stats replies with 0..40 entries, every NXM type with/without mask; "
            "non-trivial = pack() produced bytes and the object has at least one non-default field")

    # ------------------------------------------------------------------ setup / translate
    def setup(self):
        poxenv.boot()
        import pox.openflow.libopenflow_01 as of
        import pox.openflow.nicira as nx
        import pox.lib.addresses as addresses
        self.of, self.nx = of, nx
        self.B = Builder(of, nx, addresses)
        self.IPAddr, self.EthAddr, self.IPAddr6 = addresses.IPAddr, addresses.EthAddr, addresses.IPAddr6
        for name in NXM_ALL:
            c = getattr(nx, name)
            NXM_LEN[name] = (c._nxm_length, bool(c().allow_mask))
        self._load_layouts()
        self.spec = spec_parser.load(os.path.join(common.LEAN, "PoxModel", "Spec", "OF10Layouts.lean"))
        self.nxspec = spec_parser.load(os.path.join(common.LEAN, "PoxModel", "Spec", "NXLayouts.lean"), base=self.spec)
        self._rec_cache = {}
        # the stream reader's dispatch (of_01.Connection.read: `unpackers[type](buf, offset)`): a table made the way of_01 makes
        # its own, with the Nicira vendor unpacker in the vendor slot as nicira.launch() puts it there
        from pox.openflow.util import make_type_to_unpacker_table
        self.unpackers = make_type_to_unpacker_table()
        if nx._old_unpacker is None: nx._old_unpacker = self.unpackers[of.OFPT_VENDOR]
        self.unpackers[of.OFPT_VENDOR] = nx._unpack_nx_vendor
        for cname, (fixed, _) in self.spec["table"].items():          # string fields and their widths: from the standard's structures
            w = {f[1]: f[2] for f in fixed if f[0] == "zstr"}
            if w: ZS_WIDTH[cname] = w
        assert {k for w in ZS_WIDTH.values() for k in w} == set(ZS_FIELDS), ZS_WIDTH
        self.anchors = self.compute_anchors()

    CODEC_METHODS = {"pack", "unpack", "_pack_body", "_unpack_body", "__len__", "_body_length", "unpack_new", "_unpack_header",
                     "unpack_header", "unpack_body", "_wire_wildcards", "_unwire_wildcards", "_normalize_wildcards", "fix",
                     "get_length", "body_data", "packed_data", "_pack_value", "_unpack_value", "_pack_mask"}
    CODEC_FUNCS = {"_read", "_unpack", "_skip", "_readzs", "_readether", "_readip", "_packzs", "_unpack_actions", "_unpack_queue_props"}

    def compute_anchors(self):
        """name-based anchors ("path", "Class.method" | "function"): the codec methods (pack/unpack/__len__ triples and
        their helpers) of every class of both files and the module-level read helpers.  The names are discovered with ast
        on the current tree and resolved by common.AnchorCoverage on every run, so they do not go stale with line shifts."""
        import ast
        out = []
        for rel in ("pox/openflow/libopenflow_01.py", "pox/openflow/nicira.py"):
            tree = ast.parse(open(os.path.join(common.REPO, rel)).read())
            for node in tree.body:
                if isinstance(node, ast.FunctionDef) and (node.name in self.CODEC_FUNCS or node.name.startswith("_unpack")):
                    out.append((rel, node.name))
                elif isinstance(node, ast.ClassDef):
                    for f in node.body:
                        if isinstance(f, ast.FunctionDef) and f.name in self.CODEC_METHODS:
                            out.append((rel, "%s.%s" % (node.name, f.name)))
        return out

    def _load_layouts(self):
        classes, untranslated, regs = codec_layouts.run(common.REPO)
        self.lay = {c["name"]: c for c in classes}
        self.untranslated = dict(untranslated)
        self.regs = regs
        self.reply_list = {code: cls for code, cls, is_list in regs["statsReplies"] if is_list}
        self.reply_single = {code: cls for code, cls, is_list in regs["statsReplies"] if not is_list}
        self.request_cls = dict(regs["statsRequests"])

    PIN_MODULE = "PoxModel.Properties.C01Pins"
    PIN_THEOREMS = ["Pox.C01.untranslated_pinned", "Pox.C01.irregular_pinned", "Pox.C01.uncovered_pinned", "Pox.C01.spec_table_tied",
                    "Pox.C01.outL_is", "Pox.C01.vendorGenericTied", "Pox.C01.outAction_ok", "Pox.C01.psElem_ok", "Pox.C01.codec_message_nonvacuous"]

    def translate(self):
        text, classes, untranslated, regs = codec_layouts.render(common.REPO)
        path = os.path.join(common.LEAN, "PoxModel", "Generated", "Layouts.lean")
        changed = common.write_if_changed(path, text)
        # the pins / instances over today's classes: when they build on this tree they are part of the audited obligations
        # (built with the property module, `#print axioms` of every pin); when they do not, the property theorems still
        # stand on their own and the failure is reported in the evidence (pins_failed, untied_classes) — never silently
        self._pins = self.pins()
        # (another process — a tool resetting lean/PoxModel/Generated with `git checkout` — may have replaced the file while
        #  the pins were building; write it again so that the property build sees this tree's layouts, and build the pins
        #  again: they must be judged against THIS tree's layouts, or the property build that follows fails on them)
        for _ in range(3):
            if not common.write_if_changed(path, text): break
            changed = True
            self._pins = self.pins()
        if self._pins.get("pins_ok"):
            self.extra_modules = list(type(self).extra_modules) + [self.PIN_MODULE]
            self.theorems = list(type(self).theorems) + self.PIN_THEOREMS
        return [(path, changed)]

    # ------------------------------------------------------------------ object -> record (by translated layout)
    def kind(self, obj):
        of = self.of
        if isinstance(obj, of.ofp_header): return "message"
        if isinstance(obj, of.ofp_action_base): return "action"
        if isinstance(obj, of.ofp_stats_body_base): return "stats"
        return "struct"

    def nxm_header(self, c):
        """the 4-byte NXM header of an entry class without mask (`cls().pack(header_only=True)` with `_force_mask = False`)"""
        if not isinstance(c, type): c = type(c)
        return struct.pack("!L", (c._nxm_type << 9) | c._nxm_length)

    def val_num(self, v):
        if isinstance(v, bool): return int(v)
        if isinstance(v, int): return v
        if isinstance(v, self.IPAddr): return v.toUnsigned()
        raise ValueError("not a number: %r" % (v,))

    def val_bytes(self, v, obj, name, flags):
        if isinstance(v, bytes): return v
        if isinstance(v, self.nx.nxm_entry) or (isinstance(v, type) and issubclass(v, self.nx.nxm_entry)): return self.nxm_header(v)
        if isinstance(v, self.EthAddr): return v.toRaw()
        if isinstance(v, str): return v.encode("latin-1")
        if hasattr(v, "pack"):
            if name == "match" and any(f.startswith("substructure-option:match(flow_mod)") for f in flags): return v.pack(flow_mod=True)
            return v.pack()
        raise ValueError("not bytes: %r" % (v,))

    def attr(self, obj, name):
        if name == "ofs_nbits":                      # nx_reg_load / nx_output_reg: `self.offset << 6 | (self.nbits - 1)`
            return (obj.offset << 6) | (obj.nbits - 1)
        if name == "value" and type(obj).__name__ == "nx_reg_load" and obj.value is None:
            return int.from_bytes(obj.dst._value, "big")         # dst given as an entry instance: its value is loaded
        if name != "xid" and getattr(obj, "_" + name, None) is not None: return getattr(obj, "_" + name)
        return getattr(obj, name)

    def rec_of(self, obj, cname=None):
        cname = cname or type(obj).__name__
        L = self.lay.get(cname)
        if L is None: raise ValueError("class %s is not translated" % cname)
        fixed, tail = L["pack"]
        vals = {}
        for f in fixed:
            if f[0] == "uint": vals[f[1]] = self.val_num(self.attr(obj, f[1]))
            elif f[0] in ("blob", "zstr"): vals[f[1]] = self.val_bytes(self.attr(obj, f[1]), obj, f[1], L["flags"]).hex()
        t = None
        if tail is not None and tail[0] == "rest":
            if cname == "ofp_stats_request": b = obj._pack_body()
            elif cname == "ofp_stats_reply": b = obj.body_data
            else:
                v = getattr(obj, tail[1])
                b = b"" if v is None else (v.pack() if hasattr(v, "pack") else bytes(v))
            t = b.hex()
        elif tail is not None:
            t = []
            for e in getattr(obj, tail[1]):
                r = self.rec_of(e)
                r["cls"] = type(e).__name__
                t.append(r)
        return {"vals": vals, "tail": t}

    def packet_out_rec(self, obj):
        acts = []
        for e in obj.actions:
            r = self.rec_of(e); r["cls"] = type(e).__name__; acts.append(r)
        return {"vals": dict(version=obj.version, header_type=obj.header_type, xid=obj.xid, buffer_id=obj._buffer_id, in_port=obj.in_port),
                "actions": acts, "data": (obj.data or b"").hex()}

    # ------------------------------------------------------------------ implementation
    def do_unpack(self, obj, raw, n, offset=0):
        cls = type(obj)
        k = self.kind(obj)
        if k == "message" or k == "action":
            return cls.unpack_new(raw, offset)
        o = cls()
        if k == "stats":
            return o.unpack(raw, offset, n), o
        return o.unpack(raw, offset), o

    def unpack_into(self, o, raw, n):
        """`o.unpack(...)` on an object that already exists (possibly already unpacked into)"""
        k = self.kind(o)
        if k == "stats": return o.unpack(raw, 0, n)
        r = o.unpack(raw, 0)
        return r[0] if isinstance(r, tuple) else r

    def hdr_field(self, obj, b):
        of = self.of
        k = self.kind(obj)
        if k in ("message", "action") or isinstance(obj, (of.ofp_queue_prop_generic, of.ofp_queue_prop_min_rate)):
            return struct.unpack_from("!H", b, 2)[0] if len(b) >= 4 else None
        if isinstance(obj, of.ofp_packet_queue): return struct.unpack_from("!H", b, 4)[0]
        if isinstance(obj, of.ofp_flow_stats): return struct.unpack_from("!H", b, 0)[0]
        return None

    def impl(self, case):
        kind = case.get("kind", "obj")
        if kind == "match": return self.impl_match(case)
        if kind == "nxm": return self.impl_nxm(case)
        if kind == "stale": return self.impl_stale(case)
        if kind == "fm_data": return self.impl_fm_data(case)
        if kind == "reuse": return self.impl_reuse(case)
        if kind == "seq": return self.impl_seq(case)
        if kind == "fault": return self.impl_fault(case)
        if kind == "conv": return self.impl_conv(case)
        if kind == "nxm_form": return self.impl_nxm_form(case)
        self.B.zs_bytes = case.get("zs") == "bytes"
        try: return self.impl_obj(case)
        finally: self.B.zs_bytes = False

    def impl_obj(self, case):
        obj = self.B.build(case["spec"])
        out = {"cls": type(obj).__name__}
        want = obj
        if self.B.zs_bytes:              # string fields given as bytes: the decoded object is compared with the str form
            self.B.zs_bytes = False
            try:
                want = self.B.build(case["spec"])
                try: want.pack()                      # the same life as obj: packed once
                except Exception: pass
            finally: self.B.zs_bytes = True
        # the standard's layout of the object AS CONSTRUCTED, from a twin that is never packed (pack() may rewrite attributes;
        # the only rewrite the property allows is listed in spec_bytes: ofp_action_output.max_len for ports other than CONTROLLER)
        try: out["spec_pre"] = self.spec_bytes(self.B.build(case["spec"]), constructed=True, desc=case["spec"])
        except Exception: out["spec_pre"] = None
        try:
            b = obj.pack()
        except Exception as e:
            out["pack"] = None; out["outcome"] = "raise:" + type(e).__name__; out["where"] = "pack"; out["msg"] = str(e)[:120]
            try: out["rec"] = self.rec_for_model(obj)
            except Exception: out["rec"] = None
            if self.B.zs_bytes and "is not string" in out["msg"]: out["rec"] = None     # a refusal by type: the model has values, not types
            self._rec_cache[id(case)] = out["rec"]
            return out
        out["pack"] = b.hex()
        try: out["len"] = len(obj)
        except Exception as e: out["len"] = "raise:" + type(e).__name__
        try: out["hdr"] = self.hdr_field(obj, b)
        except Exception as e: out["hdr"] = "raise:" + type(e).__name__
        try: out["rec"] = self.rec_for_model(obj)
        except Exception as e: out["rec"] = None; out["rec_error"] = "%s: %s" % (type(e).__name__, e)
        out["spec"] = self.spec_bytes(obj, desc=case["spec"])
        self._rec_cache[id(case)] = out["rec"]
        try:
            off, o2 = self.do_unpack(obj, b + TRAILER, len(b))
            out["consumed"] = off
            try: out["eq"] = bool(o2 == want)
            except Exception as e: out["eq"] = "raise:" + type(e).__name__
            if out["cls"] == "nx_action_learn":
                out["specs_want"] = self.learn_want(case["spec"])
                try: out["specs2"] = self.learn_view(o2)
                except Exception as e: out["specs2"] = "raise:%s: %s" % (type(e).__name__, str(e)[:80])
                if len(obj.spec) > 0:             # == must see the specs: the same action without its last spec is another action
                    try:
                        o3 = self.B.build(case["spec"]); o3.spec.pop()
                        out["eq_less"] = bool(o3 == obj) if o3.pack() != b else None
                    except Exception as e: out["eq_less"] = None
            zs = self.zs_view(case["spec"], o2)
            if zs: out["zs"] = zs
            try: out["repack"] = o2.pack().hex()
            except Exception as e: out["repack"] = "raise:" + type(e).__name__
            try: out["rec2"] = self.nx_dec_view(o2) if out["cls"] in ("nx_flow_mod", "nxt_packet_in") else self.rec_for_model(o2)
            except Exception as e: out["rec2"] = None
            if out["cls"] in ("ofp_stats_reply", "ofp_stats_request"):
                try: out["body2"] = self.stats_body_view(o2)
                except Exception as e: out["body2"] = "raise:%s" % type(e).__name__
        except Exception as e:
            out["outcome"] = "raise:" + type(e).__name__; out["where"] = "unpack"; out["msg"] = str(e)[:120]
        return out

    # -- string fields: what the decoded object must hold
    def zs_view(self, spec, o2):
        """[field, wanted str, decoded value] for the string fields of a top-level struct (the decoded value must be the
        very string, as str)"""
        w = ZS_WIDTH.get(spec.get("cls"))
        if not w: return None
        return [[k, v, getattr(o2, k, None)] for k, v in spec.get("kw", {}).items() if k in w and isinstance(v, str)]

    # -- nx_action_learn: the flow_mod_specs as NXAST_LEARN lays them out, from the description alone
    def learn_nxm_header(self, name):
        vendor, field, ln = NXM_SPEC[name]
        return struct.pack("!L", (vendor << 16) | (field << 9) | ln)

    def learn_spec_parts(self, d):
        """(header word, source bytes, destination bytes) of one flow_mod_spec description"""
        n = d["n_bits"]; src, dst = d["src"], d["dst"]
        sk = {"field": 0, "imm": 1}[src[0]]; dk = {"match": 0, "load": 1, "output": 2}[dst[0]]
        if sk == 1: sb = int(src[1]).to_bytes(((n + 15) // 16) * 2, "big")          # whole 16-bit words, value right-aligned
        else: sb = self.learn_nxm_header(src[1]) + struct.pack("!H", src[2])
        db = b"" if dk == 2 else self.learn_nxm_header(dst[1]) + struct.pack("!H", dst[2])
        return (sk << 13) | (dk << 11) | n, sb, db

    def learn_descs(self, spec):
        ds = [x.get("lspec") if isinstance(x, dict) else None for x in spec.get("append", {}).get("spec", [])]
        return None if any(d is None for d in ds) else ds

    def learn_want(self, spec):
        ds = self.learn_descs(spec)
        if ds is None: return None
        out = []
        for d in ds:
            h, sb, db = self.learn_spec_parts(d)
            out.append([h >> 13, (h >> 11) & 3, h & 1023, sb.hex(), db.hex()])
        return out

    def learn_view(self, o):
        return [[f.src.value, f.dst.value, f.n_bits, (f.src.data or b"").hex(), (f.dst.data or b"").hex()] for f in o.spec]

    def nxm_entries(self, match):
        return [{"type": e._nxm_type, "value": e._value.hex(), "mask": None if e._mask is None else e._mask.hex(),
                 "force": bool(e._force_mask)} for e in match._parts]

    def nx_rec(self, obj):
        """records for the hand models of nx_flow_mod / nxt_packet_in (Model/CodecNX.lean)"""
        n = type(obj).__name__
        vals = dict(version=obj.version, header_type=obj.header_type, xid=obj.xid, vendor=obj.vendor, subtype=obj.subtype,
                    cookie=obj.cookie, table_id=obj.table_id, buffer_id=obj._buffer_id)
        if n == "nx_flow_mod":
            for a in ("command", "idle_timeout", "hard_timeout", "priority", "out_port", "flags"): vals[a] = getattr(obj, a)
            acts = []
            for e in obj.actions:
                r = self.rec_of(e); r["cls"] = type(e).__name__; acts.append(r)
            return {"nx": n, "vals": vals, "match": self.nxm_entries(obj.match), "actions": acts}
        vals.update(total_len=obj.total_len, reason=obj.reason)
        return {"nx": n, "vals": vals, "match": self.nxm_entries(obj.match), "data": obj.packed_data.hex()}

    def nx_dec_view(self, obj):
        n = type(obj).__name__
        ents = [[e._nxm_type, e._value.hex(), None if e._mask is None else e._mask.hex()] for e in obj.match._parts]
        if n == "nx_flow_mod":
            acts = []
            for e in obj.actions:
                r = self.rec_of(e); r["cls"] = type(e).__name__; acts.append(r)
            return {"command": obj.command, "table_id": obj.table_id, "cookie": obj.cookie, "buffer_id": obj._buffer_id,
                    "flags": obj.flags, "match": ents, "actions": acts, "rest": TRAILER.hex()}
        return {"buffer_id": obj._buffer_id, "total_len": obj.total_len, "reason": obj.reason, "table_id": obj.table_id,
                "cookie": obj.cookie, "match": ents, "data": obj.packed_data.hex(), "rest": TRAILER.hex()}

    def rec_for_model(self, obj):
        n = type(obj).__name__
        if n in ("nx_flow_mod", "nxt_packet_in"): return self.nx_rec(obj)
        if n == "ofp_packet_out": return self.packet_out_rec(obj)
        if n in ("ofp_stats_reply", "ofp_stats_request"): return self.stats_rec(obj)
        return self.rec_of(obj)

    def stats_rec(self, obj):
        """record for the dispatch model (`CodecOF.encStats`): a reply of a list type carries its entries as records"""
        r = self.rec_of(obj)
        if type(obj).__name__ == "ofp_stats_reply" and obj.type in self.reply_list and isinstance(obj.body, (list, tuple)):
            items = []
            for e in obj.body:
                x = self.rec_of(e); x["cls"] = type(e).__name__; items.append(x)
            r["tail"] = items
        elif type(obj).__name__ == "ofp_stats_reply" and obj.type in self.reply_list:
            raise ValueError("list-type reply with a non-list body")
        return r

    def stats_body_view(self, obj):
        """what `decBody` should give: the single body object as a record of its registered class"""
        reply = type(obj).__name__ == "ofp_stats_reply"
        if reply:
            c = self.reply_single.get(obj.type)
            if c is None: return None
        else:
            c = self.request_cls.get(obj.type, "ofp_generic_stats_body")
        if c not in self.lay: return "untranslated-body-class"
        b = obj.body
        if type(b).__name__ != c: return {"cls": type(b).__name__, "rec": None, "left": ""}
        return {"cls": c, "rec": self.rec_of(b), "left": ""}

    # -- ofp_match hand model: raw object state in, bytes + unpacked state out
    MATCH_FIELDS = ["in_port", "dl_src", "dl_dst", "dl_vlan", "dl_vlan_pcp", "dl_type", "nw_tos", "nw_proto", "nw_src", "nw_dst", "tp_src", "tp_dst"]

    def match_state(self, m):
        st = {"wildcards": m.wildcards}
        for f in self.MATCH_FIELDS:
            try: v = m.__dict__["_" + f]
            except KeyError:                      # private storage renamed: the public attribute (None when wildcarded)
                v = getattr(m, f)
                if isinstance(v, tuple): v = v[0]
            if isinstance(v, self.EthAddr): v = int.from_bytes(v.toRaw(), "big")
            elif isinstance(v, bytes): v = int.from_bytes(v, "big")
            elif isinstance(v, self.IPAddr): v = v.toUnsigned()
            elif v is None: v = 0
            st[f] = v
        return st

    def impl_match(self, case):
        m = self.B.build(case["spec"])
        if "wildcards" in case: m.wildcards = case["wildcards"]
        fm = bool(case.get("flow_mod"))
        out = {"cls": "ofp_match", "state": self.match_state(m), "flow_mod": fm}
        try:
            b = m.pack(flow_mod=fm)
        except Exception as e:
            out["pack"] = None; out["outcome"] = "raise:" + type(e).__name__; out["where"] = "pack"; return out
        out["pack"] = b.hex(); out["len"] = len(m)
        try:
            m2 = self.of.ofp_match()
            off = m2.unpack(b + TRAILER, 0, flow_mod=fm)
            out["consumed"] = off
            out["state2"] = self.match_state(m2)
            out["eq"] = bool(m2 == m)
            fixed = m.clone(); fixed.fix()
            out["eq_fixed"] = bool(m2 == fixed)
            out["normal_fix"] = bool(fixed == m)
            out["normal"] = out["normal_fix"] and m._normalize_wildcards(m.wildcards) == m.wildcards
            out["repack"] = m2.pack(flow_mod=fm).hex()
        except Exception as e:
            out["outcome"] = "raise:" + type(e).__name__; out["where"] = "unpack"; out["msg"] = str(e)[:120]
        return out

    # -- NXM entries / nx_match
    def impl_nxm(self, case):
        nx = self.nx
        out = {"cls": "nx_match" if "nx_match" in case["spec"] else "nxm_entry"}
        try:
            o = self.B.build(case["spec"])
            parts = o._parts if "nx_match" in case["spec"] else [o]
            full = lambda e: e._mask is not None and e._mask == b"\xff" * e._nxm_length
            # canonical form: an all-ones mask says the same as no mask (has_mask = 0 on the wire)
            out["normal"] = not any(full(e) for e in parts)
            out["entries_in"] = [[e._nxm_type, e._value.hex(), None if (e._mask is None or full(e)) else e._mask.hex()] for e in parts]
            b = o.pack()
        except Exception as e:
            out["pack"] = None; out["outcome"] = "raise:" + type(e).__name__; out["where"] = "pack"; out["msg"] = str(e)[:120]; return out
        out["pack"] = b.hex()
        try: out["len"] = len(o)
        except Exception as e: out["len"] = "raise:" + type(e).__name__
        try:
            if "nx_match" in case["spec"]:
                o2 = nx.nx_match(); off = o2.unpack(b + TRAILER, 0, len(b))
                out["entries"] = [[e._nxm_type, e._value.hex(), None if e._mask is None else e._mask.hex()] for e in o2._parts]
            else:
                off, o2 = nx.nxm_entry.unpack_new(b + TRAILER, 0)
                out["entries"] = [[o2._nxm_type, o2._value.hex(), None if o2._mask is None else o2._mask.hex()]]
            out["consumed"] = off
            out["eq"] = bool(o2 == o)
            out["repack"] = o2.pack().hex()
        except Exception as e:
            out["outcome"] = "raise:" + type(e).__name__; out["where"] = "unpack"; out["msg"] = str(e)[:120]
        return out

    def split_messages(self, b):
        out, p = [], 0
        while p < len(b):
            if len(b) - p < 8: raise ValueError("trailing bytes that are not a message")
            l = struct.unpack_from("!H", b, p + 2)[0]
            if l < 8 or p + l > len(b): raise ValueError("header length %d does not frame the remaining %d bytes" % (l, len(b) - p))
            out.append(b[p:p + l]); p += l
        return out

    def impl_fm_data(self, case):
        """ofp_flow_mod with `data` = a packet-in (libopenflow_01.py:2322-2354): what goes on the wire"""
        of = self.of
        fm = self.B.build(case["spec"])
        pi = self.B.build(case["data"])
        own = fm._buffer_id
        fm.data = pi
        out = {"cls": "ofp_flow_mod", "own_buffer": own,
               "pi": {"buffer_id": pi._buffer_id, "in_port": pi.in_port, "total_len": pi.total_len, "data": (pi.data or b"").hex()},
               "complete": bool(pi.is_complete)}
        try:
            b = fm.pack()
        except Exception as e:
            out["pack"] = None; out["outcome"] = "raise:" + type(e).__name__; out["where"] = "pack"; out["msg"] = str(e)[:120]; return out
        out["pack"] = b.hex()
        try:
            msgs = self.split_messages(b)
        except Exception as e:
            out["frames"] = "!%s" % e; return out
        out["frames"] = [m.hex() for m in msgs]
        try:
            rec = self.rec_of(fm); rec["vals"]["buffer_id"] = own
        except Exception:
            rec = None                      # ofp_flow_mod (or an action class) is not translated on this tree: oracle only
        out["rec"] = rec
        out["xb"] = struct.unpack_from("!L", msgs[1], 4)[0] if len(msgs) > 1 else 0
        out["xp"] = struct.unpack_from("!L", msgs[2], 4)[0] if len(msgs) > 2 else 0
        self._rec_cache[id(case)] = out
        try:
            off, f2 = of.ofp_flow_mod.unpack_new(msgs[0])
            out["fm_buffer"] = f2._buffer_id
            f2.data = None
            fm_cmp = of.ofp_flow_mod.unpack_new(msgs[0])[1]
            out["fm_rest_equal"] = all(getattr(f2, a) == getattr(fm, a) for a in
                                       ("match", "cookie", "command", "idle_timeout", "hard_timeout", "priority", "out_port", "flags", "actions", "xid"))
            if len(msgs) == 3:
                out["types"] = [m[1] for m in msgs]
                off, po = of.ofp_packet_out.unpack_new(msgs[2])
                out["po"] = {"buffer_id": po._buffer_id, "in_port": po.in_port, "data": (po.data or b"").hex(),
                             "actions": [[type(a).__name__, getattr(a, "port", None)] for a in po.actions]}
        except Exception as e:
            out["outcome"] = "raise:" + type(e).__name__; out["where"] = "unpack"; out["msg"] = str(e)[:120]
        return out

    def oracle_fm_data(self, case, obs):
        if obs.get("pack") is None: return "pack raises %s" % obs.get("outcome", "?")[6:]
        if isinstance(obs.get("frames"), str): return "the bytes are not a sequence of framed messages: %s" % obs["frames"][1:]
        if obs.get("where") == "unpack": return "unpack raises %s" % obs.get("outcome", "?")[6:]
        pi = obs["pi"]
        unbuffered = pi["buffer_id"] == 0xffffffff
        want_n = 3 if (obs["complete"] and unbuffered) else 1
        if len(obs["frames"]) != want_n: return "%d messages on the wire, expected %d" % (len(obs["frames"]), want_n)
        want_buf = pi["buffer_id"] if obs["complete"] else obs["own_buffer"]
        if obs.get("fm_buffer") != want_buf: return "flow-mod carries buffer_id %s, expected %s" % (obs.get("fm_buffer"), want_buf)
        if not obs.get("fm_rest_equal"): return "flow-mod fields changed on the wire"
        if want_n == 3:
            if obs["types"] != [14, 18, 13]: return "message types %s, expected flow-mod, barrier-request, packet-out" % obs["types"]
            po = obs["po"]
            if po["data"] != pi["data"] or po["in_port"] != pi["in_port"] or po["buffer_id"] != 0xffffffff \
                    or po["actions"] != [["ofp_action_output", 0xfff9]]:
                return "packet-out does not re-inject the packet-in (data / in_port / no buffer / output:TABLE)"
        return None

    def impl_reuse(self, case):
        """shared component objects through a history of hash / == / show / pack-in-different-messages; next to every pack
        the same message is built from fresh equal components and packed: `steps` = [op, bytes with history, bytes fresh]"""
        B = self.B
        def fresh(): return {k: Builder.build(B, v) for k, v in case["components"].items()}
        def packed(f):
            try: return f().hex()
            except Exception as e: return "raise:%s" % type(e).__name__
        try:
            B.refs = {}
            shared = fresh()
            if case.get("via_unpack"):            # the shared component is one that came out of unpack()
                for k, comp in list(shared.items()):
                    try:
                        b0 = comp.pack(); shared[k] = self.do_unpack(comp, b0, len(b0))[1]
                    except Exception: pass
            steps = []
            for op in case["ops"]:
                k = op["op"]
                if k == "pack":
                    B.refs = shared; a = packed(lambda: B.build(op["spec"]).pack())
                    B.refs = fresh(); b = packed(lambda: B.build(op["spec"]).pack())
                    steps.append(["pack " + op["spec"]["cls"], a, b])
                elif k == "cpack":
                    kw = op.get("kw", {})
                    if kw and not hasattr(shared[op["ref"]], "_wire_wildcards"): kw = {}
                    a = packed(lambda: shared[op["ref"]].pack(**kw)); b = packed(lambda: fresh()[op["ref"]].pack(**kw))
                    steps.append(["cpack %s" % sorted(kw.items()), a, b])
                elif k == "hash":
                    try: hash(shared[op["ref"]])
                    except TypeError: pass
                elif k == "show":
                    try: shared[op["ref"]].show(); str(shared[op["ref"]])
                    except Exception: pass
                elif k == "eq":
                    shared[op["ref"]] == fresh()[op["ref"]]
                elif k == "len":
                    len(shared[op["ref"]])
        finally:
            B.refs = {}
        return {"cls": type(shared["c"]).__name__ if "c" in shared else "?", "steps": steps, "pack": "".join(x[1] for x in steps if not x[1].startswith("raise"))}

    def oracle_reuse(self, case, obs):
        for i, (what, a, b) in enumerate(obs["steps"]):
            if a != b:
                return "pack depends on the object's history: step %d (%s) gives %s… with the re-used component, %s… with a fresh equal one" % (i, what, a[:24], b[:24])
        return None

    LISTS = ("actions", "body", "ports", "queues", "properties")

    def mutate_to(self, o, s2, inplace):
        """bring object `o` (built from another spec of the same class) to the value of spec `s2`: by assigning attributes,
        or — `inplace` — by changing the list / sub-object it already holds (same object identity, new content)"""
        for k, v in self.B.kwargs(s2).items():
            cur = getattr(o, k, None)
            if inplace and isinstance(cur, list) and isinstance(v, list):
                cur[:] = v
            elif inplace and isinstance(v, self.of.ofp_base) and type(cur) is type(v) and isinstance(s2["kw"][k], dict) \
                    and type(v).__name__ != "ofp_match":
                self.mutate_to(cur, s2["kw"][k], True)
            else:
                setattr(o, k, v)

    def live_at(self, obj, path):
        t = obj
        for st in path: t = t[st] if isinstance(st, int) else getattr(t, st)
        return t

    def apply_edit_live(self, obj, spec, e):
        """the edit of apply_edit_spec, done to the live object in place (attribute assignment on the object that is already
        there, list methods on the list it already holds, the nx_match attribute interface / the entry itself)"""
        B = self.B
        t = self.live_at(obj, e["path"]); op = e["op"]
        if op == "set": setattr(t, e["attr"], B.kwargs({"kw": {e["attr"]: copy.deepcopy(e["value"])}})[e["attr"]])
        elif op == "append": t.append(B.build(copy.deepcopy(e["value"])))
        elif op == "insert": t.insert(e["index"], B.build(copy.deepcopy(e["value"])))
        elif op == "replace": t[e["index"]] = B.build(copy.deepcopy(e["value"]))
        elif op == "pop": t.pop(e["index"])
        elif op == "clear": del t[:]
        else:
            name = spec_at(spec, e["path"])["nx_match"][e["index"]]["nxm"]
            c = getattr(self.nx, name)
            mask = B.nxm_value(c, e.get("mask")); val = B.nxm_value(c, e.get("value"))
            if op == "mask": setattr(t, name + "_mask", mask)
            elif op == "entry_mask": t[e["index"]].mask = mask
            elif op == "value": setattr(t, name, val)
            elif op == "with_mask": setattr(t, name + "_with_mask", (val, mask))
            else: raise KeyError(op)
        return t

    def measure(self, o, how, spec):
        """look at an object the ways a program does between building and sending it"""
        if how == "len": len(o)
        elif how == "pack": o.pack()
        elif how == "pack_twice": o.pack(); o.pack()
        elif how == "show": (o.show() if hasattr(o, "show") else str(o)); repr(o)
        elif how == "eq": o == self.B.build(spec); o != self.B.build(spec)
        elif how == "hash":
            try: hash(o)
            except TypeError: len(o)

    def impl_seq(self, case):
        """histories on ONE object, each step compared with a fresh object of the final value:
           repack   : build(S1).pack(); change it into S2 (assigning / in place); pack()      == build(S2).pack()
           reunpack : o = cls(); o.unpack(pack(S1)); o.unpack(pack(S2)); o.pack()              == pack(S2)
           isolation: d0 = pack(S2); a = build(S1) mutated in place (lists appended to); pack(S2) again == d0"""
        B = self.B
        mode, s1 = case["mode"], case["spec"]
        s2 = apply_edit_spec(s1, case["edit"]) if mode == "mutate" else case["spec2"]
        out = {"cls": s1.get("cls", "nx_match"), "steps": []}
        def packed(f):
            try: return f().hex()
            except Exception as e: return "raise:%s" % type(e).__name__
        fresh = packed(lambda: B.build(s2).pack())
        if fresh.startswith("raise"):
            out["pack"] = None; out["skip"] = "the final value does not pack: " + fresh; return out
        if mode == "repack":
            o = B.build(s1)
            first = packed(o.pack)
            def again():
                self.mutate_to(o, s2, case.get("inplace", False)); return o.pack()
            out["steps"].append(["pack after the object was changed", packed(again), fresh])
            out["steps"].append(["len after the object was changed", packed(lambda: len(o).to_bytes(4, "big")), (len(fresh) // 2).to_bytes(4, "big").hex()])
        elif mode == "mutate":
            # build, look at it (len / pack / show / == / hash: of the whole object and of the part about to change), change
            # one thing in place, pack: must be what a fresh object of the new value packs to
            o = B.build(s1); e = case["edit"]; how = case.get("measure", "pack")
            part = self.live_at(o, e["path"])
            for x, h in ((o, how), (part, "len" if how == "eq" else how)):
                try: self.measure(x, h, s1)            # (a show() that raises is not this property's business: go on)
                except Exception as ex: out.setdefault("measure_raises", []).append(type(ex).__name__)
                if part is o: break
            what = "%s, then %s at %s" % (how, e["op"], "/".join(map(str, e["path"])) or "the object")
            try: self.apply_edit_live(o, s1, e)
            except AttributeError as ex:
                if "locked" not in str(ex): raise
                out["pack"] = None; out["skip"] = "the library refuses the change: a hashed ofp_match is locked"; return out
            out["steps"].append(["pack after " + what, packed(o.pack), fresh])
            out["steps"].append(["len after " + what, packed(lambda: len(o).to_bytes(4, "big")), (len(fresh) // 2).to_bytes(4, "big").hex()])
        elif mode == "reunpack":
            b1 = B.build(s1).pack(); b2 = bytes.fromhex(fresh)
            o = B.cls(s1["cls"])()
            def twice():
                self.unpack_into(o, b1 + TRAILER, len(b1)); self.unpack_into(o, b2 + TRAILER, len(b2)); return o.pack()
            out["steps"].append(["pack after unpacking twice into one object", packed(twice), fresh])
        elif mode == "coexist":
            # two decoded objects alive at the same time must not share state (a list returned by reference, a reused buffer)
            b1 = B.build(s1).pack(); b2 = bytes.fromhex(fresh)
            def first_after_second():
                o1 = self.do_unpack(B.build(s1), b1 + TRAILER, len(b1))[1]
                o2 = self.do_unpack(B.build(s2), b2 + TRAILER, len(b2))[1]
                return o1.pack() + o2.pack()
            out["steps"].append(["pack of two decoded objects, the first decoded before the second", packed(first_after_second), (b1 + b2).hex()])
        elif mode == "isolation":
            dflt = lambda: B.cls(s1["cls"])(**({"xid": 1} if "xid" in s1.get("kw", {}) else {})).pack()
            d0 = packed(dflt)
            a = B.build(s1); a.pack()
            for k in self.LISTS:
                cur = getattr(a, k, None)
                if isinstance(cur, list) and cur: cur.extend(list(cur))
            out["steps"].append(["pack of an equal object built after another instance was changed", packed(lambda: B.build(s2).pack()), fresh])
            out["steps"].append(["pack of a default-constructed object", packed(dflt), d0])
        out["pack"] = fresh
        return out

    def bad_value(self, f):
        b = f["bad"]
        if b == "unset": return self.B.build(copy.deepcopy(f["elem"]))
        return {"none": None, "big": 1 << 80, "neg": -1, "str": "zz", "obj": object(), "int": 5, "wide": "ł€",
                "long": "x" * 300, "short": b"\x01\x02"}[b]

    def impl_fault(self, case):
        """fault, then reuse.  Two objects live the same life — built from the same spec, the same assignments in the same
        order — except that one of them (`o`) is also taken through an operation that RAISES while the fault is in place
        (pack / len with a value the field cannot hold or a nested object with an unset field; unpack of a buffer that ends
        too early).  After the repair both are packed, measured and unpacked into, in the order the case gives; every
        result of `o` must be the result of the other (a failed operation leaves nothing behind), which in turn is
        compared with the model's answer for an object of that value."""
        B = self.B
        s, f, op = case["spec"], case["fault"], case.get("op", "pack")
        out = {"cls": s.get("cls", "?"), "steps": [], "pack": None}
        def packed(g):
            try: return g().hex()
            except Exception as e: return "raise:%s" % type(e).__name__
        try:
            want = B.build(s); raw = B.build(s).pack()
        except Exception as e:
            out["skip"] = "the value does not pack: raise:%s" % type(e).__name__; return out
        trunc = f["via"] == "trunc"
        try:
            if trunc:
                s0 = case.get("spec0")
                try: o, ref = ((B.build(s0), B.build(s0)) if s0 is not None else (B.cls(s["cls"])(), B.cls(s["cls"])()))
                except Exception: o, ref = B.cls(s["cls"])(), B.cls(s["cls"])()          # (the other value cannot be built: start from a new object)
                cut = f["cut"]; n = len(raw)
                at = {"abs": lambda: cut[1], "end": lambda: n - cut[1], "half": lambda: n // 2}[cut[0]]()
                at = max(0, min(n - 1, at))
                put = lambda x: None; take = lambda x: None
                how = "unpack() of the first %d of %d bytes" % (at, n)
                def meet(x):
                    for _ in range(2 if f.get("twice") else 1):
                        try: self.unpack_into(x, raw[:at], at); r = None
                        except Exception as e: r = type(e).__name__
                    return r
            else:
                o, ref = B.build(s), B.build(s)
                to, tr = self.live_at(o, f["path"]), self.live_at(ref, f["path"])
                where = "/".join(map(str, f["path"])) or "the object"
                if f["via"] == "attr":
                    old = {id(to): getattr(to, f["attr"]), id(tr): getattr(tr, f["attr"])}
                    put = lambda t: setattr(t, f["attr"], self.bad_value(f))
                    take = lambda t: setattr(t, f["attr"], old[id(t)])
                    how = "%s() with %s of %s set to %s" % (op, f["attr"], where, f["bad"])
                else:
                    if not isinstance(to, list): raise TypeError("not a list")
                    put = lambda t: t.insert(f["index"], self.bad_value(f))
                    take = lambda t: t.pop(f["index"])
                    how = "%s() with an element (%s) at %d of %s" % (op, f["bad"], f["index"], where)
                def meet(x):
                    r = None
                    for _ in range(2 if op == "pack_twice" else 1):
                        try: (len(x) if op == "len" else x.pack())
                        except Exception as e: r = type(e).__name__
                    return r
                try:
                    put(to); put(tr)
                except Exception as e:
                    out["skip"] = "the library refuses the value when it is assigned: %s" % type(e).__name__; return out
        except (AttributeError, IndexError, KeyError, TypeError) as e:
            out["skip"] = "no such place in this object: %s" % type(e).__name__; return out
        raised = meet(o)                                   # only `o` meets the fault
        if not trunc: take(self.live_at(o, f["path"])); take(self.live_at(ref, f["path"]))
        out["fault_raised"] = raised
        what = "after %s %s and the value was put back" % (how, ("raised " + raised) if raised else "(which did not raise)")
        if trunc: what = "after %s %s" % (how, ("raised " + raised) if raised else "(which did not raise)")
        def life(x):
            res = []
            for a in case.get("after", ["pack", "len", "unpack"]):
                if a == "pack": res.append(["pack", packed(x.pack)])
                elif a == "len": res.append(["len", packed(lambda: len(x).to_bytes(4, "big"))])
                else:
                    res.append(["unpack of the whole message into the object: bytes consumed", packed(lambda: self.unpack_into(x, raw + TRAILER, len(raw)).to_bytes(4, "big"))])
                    try: e = str(bool(x == want))
                    except Exception as ex: e = "raise:%s" % type(ex).__name__
                    res.append(["== with the original after that unpack", e])
            b = packed(x.pack); res.append(["pack at the end", b])
            return res, b
        ro, bo = life(o); rr, br = life(ref)
        for (w, a), (_, b) in zip(ro, rr): out["steps"].append(["%s %s" % (w, what), a, b])
        # other instances must not notice either (class-level state left behind by the failed call)
        out["steps"].append(["pack of another equal object built %s" % what, packed(lambda: B.build(s).pack()), raw.hex()])
        def new():
            r, o2 = self.do_unpack(want, raw + TRAILER, len(raw)); return r.to_bytes(4, "big") + o2.pack()
        out["steps"].append(["unpack_new / re-pack of the message %s" % what, packed(new), (len(raw).to_bytes(4, "big") + raw).hex()])
        out["pack"] = br if not br.startswith("raise") else None
        # for the model: the value the two objects have now (read from the one that never met the fault), and what `o` gives
        hist = {"pack": None if bo.startswith("raise") else bo}
        if hist["pack"] is not None:
            bb = bytes.fromhex(bo)
            try: hist["len"] = len(o)
            except Exception as e: hist["len"] = "raise:" + type(e).__name__
            try: hist["hdr"] = self.hdr_field(o, bb)
            except Exception as e: hist["hdr"] = "raise:" + type(e).__name__
            try:
                self.unpack_into(o, bb + TRAILER, len(bb))
                hist["rec2"] = self.nx_dec_view(o) if out["cls"] in ("nx_flow_mod", "nxt_packet_in") else self.rec_for_model(o)
            except Exception as e: hist["rec2"] = None
        out["hist"] = hist
        try: out["rec"] = self.rec_for_model(ref) if out["pack"] is not None else None
        except Exception: out["rec"] = None
        self._rec_cache[id(case)] = out["rec"]
        return out

    def oracle_fault(self, case, obs):
        if obs.get("skip") or obs.get("pack") is None: return None
        for i, (what, a, b) in enumerate(obs["steps"]):
            if a != b:
                return "a failed operation leaves something behind: %s gives %s…, an object with the same life but for the failed call gives %s…" % (what, a[:28], b[:28])
        return None

    def oracle_seq(self, case, obs):
        if obs.get("pack") is None: return None
        for i, (what, a, b) in enumerate(obs["steps"]):
            if a != b:
                return "result depends on the object's history: %s gives %s…, a fresh object of that value gives %s…" % (what, a[:28], b[:28])
        return None

    def default_offset_calls(self, o, b):
        """every decode entry point that has a default for `offset`, called without it: must be the call with offset 0
        (unpack / unpack_new of the class, ofp_header.unpack on a message, the module's _unpack_* list helpers)"""
        import inspect
        of = self.of
        out = []
        def has_default(f):
            try: p = inspect.signature(f).parameters.get("offset")
            except (TypeError, ValueError): return False
            return p is not None and p.default is not inspect.Parameter.empty
        def both(what, f0, f1, view):
            try: a = view(f0())
            except Exception as e: a = "raise:" + type(e).__name__
            try: c = view(f1())
            except Exception as e: c = "raise:" + type(e).__name__
            out.append([what, a, c])
        raw = b + TRAILER
        cls = type(o)
        if self.kind(o) != "stats":
            def inst(offset_given):
                x = cls(); r = x.unpack(raw, 0) if offset_given else x.unpack(raw)
                return [r[0] if isinstance(r, tuple) else r, x.pack().hex()]
            if has_default(cls.unpack): both("%s().unpack(raw)" % cls.__name__, lambda: inst(False), lambda: inst(True), lambda v: v)
            un = getattr(cls, "unpack_new", None)
            if un is not None and has_default(un):
                both("%s.unpack_new(raw)" % cls.__name__, lambda: un(raw), lambda: un(raw, 0), lambda r: [r[0], r[1].pack().hex()])
        if isinstance(o, of.ofp_header) and has_default(of.ofp_header.unpack):
            both("ofp_header.unpack(raw)", lambda: of.ofp_header.unpack(of.ofp_header(), raw), lambda: of.ofp_header.unpack(of.ofp_header(), raw, 0), lambda r: list(r))
        for attr, fname in (("actions", "_unpack_actions"), ("properties", "_unpack_queue_props")):
            lst = getattr(o, attr, None); f = getattr(of, fname, None)
            if isinstance(lst, (list, tuple)) and f is not None and has_default(f):
                eb = b"".join(e.pack() for e in lst)
                both("%s(raw, length)" % fname, lambda: f(eb + TRAILER, len(eb)), lambda: f(eb + TRAILER, len(eb), 0), lambda r: [r[0], [e.pack().hex() for e in r[1]]])
        return out

    def dispatch_calls(self, o, b, off):
        """the message decoded the way the connection does it: by the unpacker registered for its header type, at offset 0 and
        inside a larger buffer"""
        import io, contextlib
        t = b[1]; res = []
        for n in (0, off):
            pre = bytes((5 * i + 3) & 0xff for i in range(n))
            try:
                with contextlib.redirect_stdout(io.StringIO()):
                    new, m = self.unpackers[t](pre + b + TRAILER, n)
                res.append({"cls": type(m).__name__, "consumed": new - n, "repack": m.pack().hex() == b.hex(),
                            "eq": bool(m == o) if type(m) is type(o) else None})
            except Exception as e:
                res.append({"raise": type(e).__name__})
        return res

    # classes the switch sends and the connection must hand to the application as themselves
    NX_DISPATCHED = {"nxt_packet_in", "nx_role_reply"}

    def impl_conv(self, case):
        """calling conventions: unpack at a non-zero offset behind other bytes, from a bytearray; Ethernet addresses given as
        6 raw bytes and action lists as tuples — each must give what the plain call gives"""
        B = self.B
        o = B.build(case["spec"])
        out = {"cls": type(o).__name__}
        try:
            b = o.pack()
        except Exception as e:
            out["pack"] = None; out["skip"] = "raise:" + type(e).__name__; return out
        out["pack"] = b.hex(); res = {}
        offs = case.get("offsets") or [case.get("offset", 5)]
        def rt(raw, off):
            try:
                r, o2 = self.do_unpack(o, raw, len(b), off)
                return {"consumed": r - off, "eq": bool(o2 == o), "repack": o2.pack().hex() == b.hex()}
            except Exception as e:
                return {"raise": type(e).__name__}
        # as a stream reader does (of_01.Connection.read): the message is decoded where the previous one ended, inside a larger buffer
        res["offset"] = {}
        for n in offs:
            pre = bytes((7 * i + 1) & 0xff for i in range(n))
            res["offset"][str(n)] = rt(pre + b + TRAILER, n)
        res["bytearray"] = rt(bytearray(b + TRAILER), 0)
        res["default_offset"] = self.default_offset_calls(o, b)
        if isinstance(o, self.of.ofp_header): res["dispatch"] = self.dispatch_calls(o, b, offs[-1])
        try:
            B.alt = True
            res["alt_forms"] = B.build(case["spec"]).pack().hex() == b.hex()
        except Exception as e:
            res["alt_forms"] = "raise:" + type(e).__name__
        finally:
            B.alt = False
        out["conv"] = res
        return out

    def oracle_conv(self, case, obs):
        if obs.get("pack") is None: return None
        n = len(obs["pack"]) // 2
        for off, r in obs["conv"]["offset"].items():
            k = "offset"
            if "raise" in r: return "unpack (%s) raises %s behind %s bytes where the plain call succeeds" % (k, r["raise"], off)
            if r["consumed"] != n: return "unpack (%s) behind %s bytes consumed %s of %d bytes" % (k, off, r["consumed"], n)
            if not r["eq"] or not r["repack"]: return "unpack (%s) behind %s bytes yields a different object than the plain call" % (k, off)
        for what, a, c in obs["conv"].get("default_offset", []):
            if a != c: return "unpack (default-offset) %s gives %s, with offset 0 given it gives %s" % (what, str(a)[:60], str(c)[:60])
        cls = obs["cls"]; code = int(obs["pack"][2:4] or "0", 16)
        for r in obs["conv"].get("dispatch", []):
            if "raise" in r: return "unpack (dispatch) by the unpacker of header type %d raises %s" % (code, r["raise"])
            want = cls if (code == 4 and cls in self.NX_DISPATCHED) else self.spec["messageClass"].get(code)
            if r["cls"] != want: return "unpack (dispatch) by the unpacker of header type %d yields a %s, the registered class is %s" % (code, r["cls"], want)
            if r["consumed"] != n or not r["repack"] or r["eq"] is False:
                return "unpack (dispatch) by the unpacker of header type %d yields a different message (consumed %s of %d)" % (code, r["consumed"], n)
        if obs["conv"]["alt_forms"] is not True:
            return "pack differs when Ethernet addresses are given as raw bytes / actions as a tuple (%s)" % obs["conv"]["alt_forms"]
        return None

    def impl_stale(self, case):
        """ofp_stats_request packed, its body replaced, packed again: the second pack must carry the new body"""
        o = self.B.build(case["spec"])
        out = {"cls": type(o).__name__}
        try:
            o.pack()
            o.body = self.B.build(case["body2"])
            b = o.pack()
            want = self.B.build(case["body2"]).pack()
            out["pack"] = b.hex(); out["body_on_wire"] = b[12:].hex(); out["body_set"] = want.hex()
        except Exception as e:
            out["pack"] = None; out["outcome"] = "raise:" + type(e).__name__
        return out

    # ------------------------------------------------------------------ model
    def model_request(self, case):
        kind = case.get("kind", "obj")
        if kind == "match":
            try:
                m = self.B.build(case["spec"])
                if "wildcards" in case: m.wildcards = case["wildcards"]
                return {"op": "match", "state": self.match_state(m), "flow_mod": bool(case.get("flow_mod")), "trailer": TRAILER.hex()}
            except Exception:
                return None
        if kind == "nxm":
            try:
                o = self.B.build(case["spec"])
                parts = o._parts if "nx_match" in case["spec"] else [o]
                ents = [{"type": e._nxm_type, "len": e._nxm_length, "value": e._value.hex(), "mask": None if e._mask is None else e._mask.hex(),
                         "force": bool(e._force_mask)} for e in parts]
                return {"op": "nxm", "entries": ents, "trailer": TRAILER.hex()}
            except Exception:
                return None
        if kind == "fm_data":
            o = self._rec_cache.get(id(case))
            if not isinstance(o, dict) or "frames" not in o: o = self.impl(case)
            if not isinstance(o.get("frames"), list) or o.get("rec") is None: return None
            return {"op": "fm_data", "rec": o["rec"], "data": o["pi"], "xb": o["xb"], "xp": o["xp"]}
        if kind not in ("obj", "fault"): return None
        cname = case["spec"]["cls"]
        rec = self._rec_cache.get(id(case), "?")
        if rec == "?":
            obs = self.impl(case); rec = obs.get("rec")
        if rec is None: return None
        if cname in ("nx_flow_mod", "nxt_packet_in"):
            r = {"op": cname, "vals": rec["vals"], "match": rec["match"], "trailer": TRAILER.hex()}
            if cname == "nx_flow_mod": r["actions"] = rec["actions"]
            else: r["data"] = rec["data"]
            return r
        if cname == "ofp_packet_out":
            return {"op": "packet_out", "rec": rec, "trailer": TRAILER.hex()}
        if cname in ("ofp_stats_reply", "ofp_stats_request") and cname in self.lay:
            return {"op": "stats", "reply": cname == "ofp_stats_reply", "rec": rec, "trailer": TRAILER.hex()}
        if cname not in self.lay or cname == "ofp_match": return None
        cls = self.B.cls(cname)
        return {"op": "codec", "cls": cname, "rec": rec, "avail": issubclass(cls, self.of.ofp_stats_body_base), "trailer": TRAILER.hex()}

    def impl_view(self, case, obs):
        kind = case.get("kind", "obj")
        if kind == "match":
            return {"pack": obs.get("pack"), "state2": obs.get("state2"), "consumed": obs.get("consumed"),
                    "normal": obs.get("normal_fix"), "eqv": obs.get("eq"), "eqv_fixed": obs.get("eq_fixed")}
        if kind == "nxm":
            return {"pack": obs.get("pack"), "entries": obs.get("entries"), "consumed": obs.get("consumed")}
        if kind == "fm_data":
            return {"msgs": obs.get("frames")}
        if kind == "fault":                     # what the object that met the fault gives at the end of its history
            h = obs.get("hist") or {}
            v = {"pack": h.get("pack")}
            if h.get("pack") is not None: v.update(len=h.get("len"), hdr=h.get("hdr"), dec=h.get("rec2"), rest=TRAILER.hex())
            return v
        v = {"pack": obs.get("pack")}
        if obs.get("pack") is not None:
            v["len"] = obs.get("len"); v["hdr"] = obs.get("hdr")
            v["spec"] = obs.get("pack")
            v["dec"] = obs.get("rec2"); v["rest"] = TRAILER.hex()
            if obs.get("cls") in ("ofp_stats_reply", "ofp_stats_request"): v["body"] = obs.get("body2")
        return v

    def model_obs(self, case, resp):
        if "error" in resp: return resp
        kind = case.get("kind", "obj")
        if kind == "match":
            return {"pack": resp.get("pack"), "state2": resp.get("state2"), "consumed": resp.get("consumed"),
                    "normal": resp.get("normal"), "eqv": resp.get("eqv"), "eqv_fixed": resp.get("eqv_fixed")}
        if kind == "nxm":
            return {"pack": resp.get("pack"), "entries": resp.get("entries"), "consumed": resp.get("consumed")}
        if kind == "fm_data":
            return {"msgs": resp.get("msgs")}
        v = {"pack": resp.get("pack")}
        if resp.get("pack") is not None:
            v["len"] = resp.get("len"); v["hdr"] = resp.get("hdr")
            sp = resp.get("spec", "no-spec")
            v["spec"] = resp.get("pack") if sp == "no-spec" else sp
            d = resp.get("dec")
            if isinstance(d, dict) and case.get("spec", {}).get("cls") in ("nx_flow_mod", "nxt_packet_in"):
                v["dec"] = d; v["rest"] = d.get("rest")
            elif isinstance(d, dict):
                v["dec"] = d.get("rec"); v["rest"] = d.get("rest")
            else:
                v["dec"] = d; v["rest"] = None
            if case.get("spec", {}).get("cls") in ("ofp_stats_reply", "ofp_stats_request"): v["body"] = resp.get("body")
            if kind == "fault": v.pop("spec", None); v.pop("body", None)
        return v

    # ------------------------------------------------------------------ the property on the implementation's observables
    def oracle(self, case, obs):
        kind = case.get("kind", "obj")
        if kind == "fm_data": return self.oracle_fm_data(case, obs)
        if kind == "reuse": return self.oracle_reuse(case, obs)
        if kind == "seq": return self.oracle_seq(case, obs)
        if kind == "fault": return self.oracle_fault(case, obs)
        if kind == "conv": return self.oracle_conv(case, obs)
        if kind == "nxm_form": return self.oracle_nxm_form(case, obs)
        if kind == "stale":
            if obs.get("pack") is None: return "pack raises %s" % obs.get("outcome")
            if obs["body_on_wire"] != obs["body_set"]: return "stale body: pack() after assigning a new body still sends the old one"
            return None
        expect_raise = case.get("expect") == "raise"
        if obs.get("pack") is None:
            if expect_raise: return None
            if obs.get("cls") in ABSTRACT: return None
            # strings handed over as bytes: ofp_phy_port takes them, the stats structures say "… is not string" — a refusal is fine
            if case.get("zs") == "bytes" and obs.get("outcome") == "raise:RuntimeError" and "is not string" in obs.get("msg", ""): return None
            return "pack raises %s" % obs.get("outcome", "?")[6:]
        if expect_raise and case.get("why"):
            return "pack accepts a string its field cannot represent (%s): it must refuse, as it does for an out-of-range integer" % case["why"]
        if expect_raise:
            return "pack succeeds on an object longer than the length field can express"
        n = len(obs["pack"]) // 2
        if isinstance(obs.get("len"), str): return "len(obj) raises %s" % obs["len"][6:]
        if obs.get("len") is not None and obs["len"] != n: return "len(obj) = %s but pack() gave %d bytes" % (obs["len"], n)
        if isinstance(obs.get("hdr"), str): return "header read raises"
        if obs.get("hdr") is not None and obs["hdr"] != n: return "length field on the wire = %s but pack() gave %d bytes" % (obs["hdr"], n)
        if kind == "obj":
            f = self.spec_check(case, obs)
            if f: return f
        if obs.get("where") == "unpack": return "unpack raises %s" % obs.get("outcome", "?")[6:]
        if obs.get("consumed") != n: return "unpack consumed %s of %d bytes" % (obs.get("consumed"), n)
        if kind == "match":
            # what the code guarantees for every match: the decoded object is the original with prerequisite-less
            # fields removed (fix()); for normal matches that is the original itself
            w0 = obs["state"]["wildcards"]; in_range = ((w0 >> 8) & 63) <= 32 and ((w0 >> 14) & 63) <= 32
            # address wildcard counts: 32..63 all mean "ignore"; whatever is on the wire reads back as min(32, count) (plain mode)
            ww = int(obs["pack"][0:8], 16); w2 = (obs.get("state2") or {}).get("wildcards")
            if isinstance(w2, int):
                for sh, nm in ((8, "nw_src"), (14, "nw_dst")):
                    got = (w2 >> sh) & 63; sent = (ww >> sh) & 63
                    if got > 32 or (not case.get("flow_mod") and got != min(32, sent)):
                        return "match read back with %s wildcard count %d where the wire says %d (counts above 32 read as 32)" % (nm, got, sent)
            if case.get("flow_mod"):
                if not in_range: return None               # match_roundtrip_fm speaks about counts <= 32 (InRange)
                if obs.get("eq_fixed") is not True: return "flow_mod match: unpack(pack(m)) != fix(m)"
                if obs.get("normal") and obs.get("eq") is not True: return "normal match: unpack(pack(m)) != m"
            elif obs.get("normal") and obs.get("eq") is not True: return "normal match: unpack(pack(m)) != m"
            if obs.get("normal") and obs.get("repack") != obs["pack"]: return "re-pack of the decoded match differs"
            return None
        if kind == "nxm":
            if obs.get("repack") != obs["pack"]: return "re-pack of the decoded entry differs from the original bytes"
            if obs.get("normal") and obs.get("eq") is not True: return "unpack(pack(x)) != x"
            if obs.get("entries") != obs.get("entries_in"): return "decoded (type, value, mask) differ from the canonical form of the original"
            return None
        for k, want, got in obs.get("zs") or []:
            if got != want: return "string field %s decodes to %r, the original is %r" % (k, got, want)
        if isinstance(obs.get("eq"), str): return "== raises %s" % obs["eq"][6:]
        if obs.get("eq") is not True: return "unpack(pack(x)) != x"
        if obs.get("eq_less") is True: return "== holds between two nx_action_learn whose flow_mod_specs (and bytes) differ"
        if obs.get("specs_want") is not None and obs.get("specs2") != obs["specs_want"]:
            return "decoded flow_mod_specs differ from the original: %s" % (obs.get("specs2") if isinstance(obs.get("specs2"), str) else "(src, dst, n_bits, data)")
        if isinstance(obs.get("repack"), str) and obs["repack"].startswith("raise:"): return "re-pack raises %s" % obs["repack"][6:]
        if obs.get("repack") != obs["pack"]: return "re-pack of the decoded object differs from the original bytes"
        return None

    def spec_check(self, case, obs):
        """the bytes have the layout (and type code) the OpenFlow 1.0 standard gives this class: type codes from the Python
        tables above, layout by asking the driver to encode the same field values with Spec/OF10Layouts (the driver's
        `spec` op does not involve the generated layout of the class under test)"""
        cls = obs.get("cls"); b = bytes.fromhex(obs["pack"])
        if cls in SPEC_MSG_CODE and (len(b) < 2 or b[1] != SPEC_MSG_CODE[cls] or b[0] != 1):
            return "message type/version on the wire is %s/%s, the standard says %d/1" % (b[1] if len(b) > 1 else None, b[0] if b else None, SPEC_MSG_CODE[cls])
        if cls in SPEC_ACTION_CODES and struct.unpack_from("!H", b, 0)[0] not in SPEC_ACTION_CODES[cls]:
            return "action type on the wire is %d, the standard says %s" % (struct.unpack_from("!H", b, 0)[0], sorted(SPEC_ACTION_CODES[cls]))
        if cls in SPEC_STATS_CODE:
            t = getattr(self.B.cls(cls), "_type", None)
            if t != SPEC_STATS_CODE[cls]: return "stats type of the class is %s, the standard says %d" % (t, SPEC_STATS_CODE[cls])
        sp = obs.get("spec")
        if sp is None: sp = obs["pack"]
        if sp.startswith("!"):
            return "object does not have the fields of the standard's structure: %s" % sp[1:80]
        if sp != obs["pack"]:
            i = next((k for k in range(0, min(len(sp), len(obs["pack"])), 2) if sp[k:k + 2] != obs["pack"][k:k + 2]), min(len(sp), len(obs["pack"])))
            which = "Nicira extension" if cls in self.nxspec["layouts"] else "OpenFlow 1.0"
            return "bytes differ from the %s layout of this structure at offset %d" % (which, i // 2)
        pre = obs.get("spec_pre")
        if isinstance(pre, str) and not pre.startswith("!") and pre != obs["pack"]:
            i = next((k for k in range(0, min(len(pre), len(obs["pack"])), 2) if pre[k:k + 2] != obs["pack"][k:k + 2]), min(len(pre), len(obs["pack"])))
            return "bytes differ at offset %d from the standard's layout of the object as it was constructed (pack() changed a value it must not change)" % (i // 2)
        return None

    def spec_bytes(self, obj, constructed=False, desc=None):
        """the object's field values (read by the field names of the standard's structure) laid out as
        Spec/OF10Layouts.lean says — in Python, from the parsed text of that file, so that it works without the Lean build.
        Nested variable-size parts (rest / element lists) are taken as the elements' own pack() bytes: each element class
        is compared with its own structure as a case of its own."""
        cname = type(obj).__name__
        if cname in ("nx_action_learn", "nx_action_bundle"): return self.nx_action_spec_bytes(obj, desc, constructed)
        if cname in self.nxspec["layouts"]: return self.nx_spec_bytes(obj)
        L = self.spec["table"].get(cname)
        if L is None or cname == "ofp_match": return None          # ofp_match computes its values: hand model
        fixed, tail = L
        try:
            vals = {}
            for f in fixed:
                if f[0] == "uint": vals[f[1]] = self.val_num(self.attr(obj, f[1]))
                elif f[0] in ("blob", "zstr"):
                    flags = ["substructure-option:match(flow_mod)"] if cname == "ofp_flow_mod" else []
                    vals[f[1]] = self.val_bytes(self.attr(obj, f[1]), obj, f[1], flags)
            if constructed and cname == "ofp_action_output" and vals.get("port") != 0xfffd:
                vals["max_len"] = 0            # "max_len … only relevant for OFPP_CONTROLLER": the library sends 0 otherwise
            tb = None
            if tail is not None and tail[0] == "rest":
                if cname == "ofp_stats_request": tb = obj._pack_body()
                elif cname == "ofp_stats_reply": tb = obj.body_data
                else:
                    v = getattr(obj, tail[1])
                    tb = b"" if v is None else (v.pack() if hasattr(v, "pack") else bytes(v))
            elif tail is not None:
                tb = b"".join(e.pack() for e in getattr(obj, tail[1]))
            return spec_parser.encode(L, vals, tb).hex()
        except Exception as e:
            return "!%s: %s" % (type(e).__name__, e)

    def nx_action_spec_bytes(self, obj, desc, constructed):
        """nx_action_learn / nx_action_bundle as nicira-ext.h lays them out (Spec/NXLayouts.lean for the 32 fixed bytes): the
        flow_mod_specs come from the case's description — header word, immediates in whole 16-bit words, NXM header + offset
        for fields — and the slaves as 16-bit port numbers; zero bytes up to a multiple of 8.  Nothing here calls the
        library's pack() or len()."""
        cname = type(obj).__name__
        L = self.nxspec["layouts"][cname]
        try:
            if desc is None or desc.get("cls") != cname: return None
            vals = {}
            if cname == "nx_action_learn":
                ds = self.learn_descs(desc)
                if ds is None: return None
                tb = b""
                for d in ds:
                    h, sb, db = self.learn_spec_parts(d)
                    tb += struct.pack("!H", h) + sb + db
            else:
                if constructed and obj.dst is not None and obj.nbits is None: return None     # nbits inferred by pack()
                sl = []
                for x in obj.slaves:
                    sl.append(int(x).to_bytes(2, "big") if isinstance(x, int) else bytes(x._value))
                tb = b"".join(sl)
                vals["n_slaves"] = len(obj.slaves)
                vals["ofs_nbits"] = 0 if obj.dst is None else (obj.offset << 6) | (obj.nbits - 1)
                vals["dst"] = bytes(4) if obj.dst is None else self.nxm_header(obj.dst)
                vals["slave_type"] = self.nxm_header(obj.slave_type)
            tb += bytes((-(32 + len(tb))) % 8)
            for f in L[0]:
                if f[0] == "uint" and f[1] not in vals: vals[f[1]] = self.val_num(getattr(obj, f[1]))
            return spec_parser.encode(L, vals, tb).hex()
        except Exception as e:
            return "!%s: %s" % (type(e).__name__, e)

    def nx_spec_bytes(self, obj):
        """nx_flow_mod / nxt_packet_in as nicira-ext.h lays them out (Spec/NXLayouts.lean, parsed as text): fixed part with
        `match_len`, then the nx_match, then zero bytes up to the next multiple of 8 — none when the match length already is
        one — then the actions resp. two pad bytes and the packet.  The pad is computed here, not by the library."""
        cname = type(obj).__name__
        L = self.nxspec["layouts"][cname]
        try:
            mb = obj.match.pack()
            pad = bytes((-len(mb)) % 8)
            vals = {}
            for f in L[0]:
                if f[0] != "uint": continue
                if f[1] == "match_len": vals[f[1]] = len(mb)
                elif f[1] == "command": vals[f[1]] = obj.command | (obj.table_id << 8)     # "OFPFC_* + possibly a table ID"
                else: vals[f[1]] = self.val_num(self.attr(obj, f[1]))
            if cname == "nx_flow_mod": tb = mb + pad + b"".join(a.pack() for a in obj.actions)
            else: tb = mb + pad + bytes(2) + obj.packed_data
            return spec_parser.encode(L, vals, tb).hex()
        except Exception as e:
            return "!%s: %s" % (type(e).__name__, e)

    def finding_key(self, case, obs, failure):
        cls = (obs.get("cls") if isinstance(obs, dict) else None) or case.get("spec", {}).get("cls", "?")
        f = failure
        for pat in ("pack raises", "unpack raises", "len(obj) raises", "== raises", "re-pack raises"):
            if f.startswith(pat):
                return "%s:%s:%s" % (cls, pat.split()[0].replace("len(obj)", "len"), f[len(pat):].strip())
        if f.startswith("bytes differ from the "): return "%s:pack:layout-differs-from-spec" % cls
        if f.startswith("bytes differ at offset"): return "%s:pack:value-changed-by-pack" % cls
        if "the standard says" in f: return "%s:registry:type-code" % cls
        if f.startswith("object does not have the fields"): return "%s:pack:fields-differ-from-spec" % cls
        if f.startswith("len(obj) ="): return "%s:len:mismatch" % cls
        if f.startswith("length field"): return "%s:pack:length-field" % cls
        if f.startswith("unpack consumed"): return "%s:unpack:consumed" % cls
        if "re-pack" in f: return "%s:repack:differs" % cls
        if "stale" in f: return "%s:pack:stale-body" % cls
        if f.startswith("pack depends on the object's history"): return "%s:pack:depends-on-history" % cls
        if f.startswith("result depends on the object's history"): return "%s:%s:depends-on-history" % (cls, case.get("mode", "seq"))
        if f.startswith("a failed operation leaves something behind"):
            ft = case.get("fault", {})
            if ft.get("via") == "trunc": return "%s:failed-unpack:short-buffer:leaves-state" % cls
            place = ft.get("attr") if ft.get("via") == "attr" else "%s[]" % (ft.get("path") or ["?"])[-1]
            if len(ft.get("path") or []) > (0 if ft.get("via") == "attr" else 1): place = "nested." + str(place)
            return "%s:failed-%s:%s=%s:leaves-state" % (cls, case.get("op", "pack").replace("_twice", ""), place, ft.get("bad"))
        if f.startswith("unpack (") or f.startswith("pack differs when"): return "%s:calling-convention:%s" % (cls, f.split("(")[1].split(")")[0] if f.startswith("unpack") else "alt-forms")
        if f.startswith("pack accepts a string"): return "%s:pack:accepts-unrepresentable-string" % cls
        if f.startswith("string field"): return "%s:roundtrip:string-differs" % cls
        if f.startswith("match read back with"): return "%s:unpack:wildcard-count" % cls
        if f.startswith("entry given as"): return "%s:forms:%s" % (cls, case.get("form"))
        if f.startswith("== holds between"): return "%s:eq:ignores-specs" % cls
        if f.startswith("decoded flow_mod_specs"): return "%s:roundtrip:specs-differ" % cls
        if "!=" in f: return "%s:roundtrip:not-equal" % cls
        return "%s:%s" % (cls, f[:40])

    def nontrivial(self, case, obs):
        if case.get("kind") == "fault": return isinstance(obs, dict) and obs.get("pack") is not None and bool(obs.get("fault_raised"))
        return isinstance(obs, dict) and obs.get("pack") is not None and len(obs["pack"]) > 16

    def shrink_candidates(self, case):
        if case.get("kind") == "reuse":
            for i in range(len(case["ops"])):
                c = copy.deepcopy(case); del c["ops"][i]; yield c
            return
        if case.get("kind", "obj") != "obj": return
        spec = case["spec"]
        kw = spec.get("kw", {})
        for k, v in kw.items():
            if isinstance(v, list) and v:
                for i in range(len(v)):
                    c = copy.deepcopy(case); del c["spec"]["kw"][k][i]; yield c
            elif isinstance(v, str) and len(v) > 2 and k in ("data", "body"):
                c = copy.deepcopy(case); c["spec"]["kw"][k] = ""; yield c
            elif isinstance(v, dict) and "kw" in v:
                for sub in self.shrink_candidates({"spec": v}):
                    c = copy.deepcopy(case); c["spec"]["kw"][k] = sub["spec"]; yield c

    # ------------------------------------------------------------------ cases
    def obj(self, spec, **extra):
        if spec.get("cls") == "ofp_match":
            c = {"kind": "match", "spec": spec, "flow_mod": False}
        else:
            c = {"kind": "obj", "spec": spec}
        c.update(extra); return c

    def obj_s(self, rng, spec):
        """an obj case whose string fields (anywhere inside) are drawn from every class of character, as str or as bytes"""
        c = self.obj(spice_strings(rng, spec))
        if c["kind"] != "obj": return c
        if rng.random() < 0.3: c["zs"] = "bytes"
        why = zs_unfit(spec)
        if why: c["expect"] = "raise"; c["why"] = why
        return c

    def string_cases(self, rng):
        """every string field x every class of content x (str | bytes), on its own and inside the messages that carry it"""
        gens = {"ofp_phy_port": ofgen.phy_port, "ofp_table_stats": ofgen.table_stats, "ofp_desc_stats": ofgen.desc_stats}
        out = []
        for cname in sorted(ZS_WIDTH):
            for field, width in sorted(ZS_WIDTH[cname].items()):
                for mode in ZS_MODES:
                    for form in ("str", "bytes"):
                        sp = gens[cname](rng); sp["kw"][field] = g_zs(rng, width, mode)
                        wraps = [sp]
                        if cname == "ofp_phy_port" and form == "str":
                            wraps.append({"cls": "ofp_port_status", "kw": dict(xid=7, reason=1, desc=copy.deepcopy(sp))})
                            wraps.append({"cls": "ofp_features_reply", "kw": dict(xid=8, datapath_id=1, n_buffers=2, n_tables=3, capabilities=4, actions=5,
                                          ports=[ofgen.phy_port(rng), copy.deepcopy(sp), ofgen.phy_port(rng)])})
                        elif cname == "ofp_table_stats" and form == "str":
                            wraps.append({"cls": "ofp_stats_reply", "kw": dict(xid=9, type=3, flags=0, body=[copy.deepcopy(sp), ofgen.table_stats(rng)])})
                        elif cname == "ofp_desc_stats" and form == "str" and field in ("mfr_desc", "serial_num"):
                            wraps.append({"cls": "ofp_stats_reply", "kw": dict(xid=10, type=0, flags=0, body=copy.deepcopy(sp))})
                        for k, w in enumerate(wraps):
                            c = {"kind": "obj", "spec": w}
                            if form == "bytes" or k == 2: c["zs"] = "bytes"
                            why = zs_unfit(w)
                            if why: c["expect"] = "raise"; c["why"] = why
                            out.append(c)
        return out

    def learn_cases(self, rng):
        """nx_action_learn: immediates of every width 1..64 (every residue mod 16, both sides of every 16-bit word boundary) and a
        few wider ones, every source/destination kind, followed by further specs (a mis-sized immediate puts them out of step);
        spec lists whose byte size covers every residue mod 8; nx_action_bundle with 0..12 slaves"""
        out = []
        routes = ["kw", "parts", "infer"]
        combos = [("imm", "load"), ("imm", "match"), ("imm", "output"), ("field", "match"), ("field", "load"), ("field", "output")]
        widths = list(range(1, 65)) + [65, 79, 80, 81, 127, 128, 129, 1016, 1017, 1023]
        for n in widths:
            for i, (sk, dk) in enumerate(combos):
                out.append(self.obj(g_learn(rng, [g_lspec(rng, n, sk, dk, routes[(n + i) % 3])])))
            out.append(self.obj(g_learn(rng, [g_lspec(rng, n, "imm", "load", routes[n % 3]), g_lspec(rng, None, "field", "match"),
                                              g_lspec(rng, (n * 7) % 64 + 1, "imm", "match"), g_lspec(rng, None, "field", "output")])))
        for k in range(0, 9):
            out.append(self.obj(g_learn(rng, [g_lspec(rng, 16, "imm", "load") for _ in range(k)])))            # 10 bytes each
            out.append(self.obj(g_learn(rng, [g_lspec(rng, 5, "imm", "output") for _ in range(k)])))           # 4 bytes each
            out.append(self.obj(g_learn(rng, [g_lspec(rng, 33, "imm", "match") for _ in range(k)])))           # 14 bytes each
        for n in (1, 4, 8, 12, 20, 64):
            fm = ofgen.message(rng, "flow_mod")
            fm["kw"]["actions"] = [{"cls": "ofp_action_output", "kw": dict(port=1)}, g_learn(rng, [g_lspec(rng, n, "imm", "load"), g_lspec(rng, None, "field", "output")]),
                                   {"cls": "ofp_action_output", "kw": dict(port=2)}]
            out.append(self.obj(fm))
        for k in range(0, 13):
            sl = [rng.randint(1, 0xff00) for _ in range(k)]
            out.append(self.obj({"cls": "nx_action_bundle", "kw": dict(algorithm=k % 2, fields=(k // 2) % 2, basis=rint(rng, U16), slaves=list(sl))}))
            out.append(self.obj({"cls": "nx_action_bundle", "kw": dict(load=True, dst={"nxmcls": "NXM_NX_REG%d" % (k % 8)}, nbits=rng.randint(1, 32), offset=k % 3, slaves=list(sl))}))
        return out

    NXM_FORMS = ["mask_int", "tuple_int", "tuple_mask", "cidr_str", "netmask_str", "with_mask_attr", "mask_attr_int"]

    def nxm_form_cases(self, rng):
        """the address entries' documented ways of giving a network: (address, prefix length), (address, netmask), "a/len",
        "a/netmask", mask = prefix length — every prefix length, every IPv4 / IPv6 NXM type; all must give the entry the plain
        (address, mask address) form gives, which is laid out here by hand"""
        out = []
        for name in NXM_IP + NXM_IP6:
            full = 8 * NXM_LEN[name][0]
            for i, p in enumerate(range(0, full + 1)):
                if full == 128 and p % 8 not in (0, 1, 7) and p not in (63, 65): continue
                a = rng.getrandbits(full) | (1 << (full - 1))
                out.append({"kind": "nxm_form", "name": name, "addr": a, "prefix": p, "form": self.NXM_FORMS[(i + len(name)) % len(self.NXM_FORMS)]})
            for form in self.NXM_FORMS:
                for p in (1, full // 2, full - 1, full):
                    out.append({"kind": "nxm_form", "name": name, "addr": rng.getrandbits(full), "prefix": p, "form": form})
        return out

    def impl_nxm_form(self, case):
        nx = self.nx
        name, p, form = case["name"], case["prefix"], case["form"]
        c = getattr(nx, name); ln = c._nxm_length; full = 8 * ln
        maskn = ((1 << full) - 1) ^ ((1 << (full - p)) - 1)
        a = case["addr"] & maskn
        A = (lambda n: self.IPAddr6(n.to_bytes(16, "big"), raw=True)) if ln == 16 else (lambda n: self.IPAddr(n.to_bytes(4, "big")))
        out = {"cls": name}
        # by hand (nicira-ext.h): header = type << 9 | hasmask << 8 | payload length; value; mask.  An all-ones mask is no mask.
        has = p < full
        out["want"] = (struct.pack("!L", (c._nxm_type << 9) | (int(has) << 8) | (ln * (2 if has else 1))) + a.to_bytes(ln, "big") + (maskn.to_bytes(ln, "big") if has else b"")).hex()
        try: out["plain"] = c(A(a), A(maskn)).pack().hex()
        except Exception as e: out["plain"] = "raise:" + type(e).__name__
        try:
            if form == "mask_int": o = c(A(a), p)
            elif form == "tuple_int": o = c((A(a), p))
            elif form == "tuple_mask": o = c((A(a), A(maskn)))
            elif form == "cidr_str": o = c("%s/%d" % (A(a), p))
            elif form == "netmask_str":
                if ln == 16: out["pack"] = None; out["skip"] = "IPv4 only"; return out
                o = c("%s/%s" % (A(a), A(maskn)))
            elif form in ("with_mask_attr", "mask_attr_int"):
                m = nx.nx_match()
                if form == "with_mask_attr": setattr(m, name + "_with_mask", (A(a), p))
                else: setattr(m, name, A(a)); setattr(m, name + "_mask", p)
                o = m
            else: raise KeyError(form)
            out["pack"] = o.pack().hex()
        except Exception as e:
            out["pack"] = None; out["outcome"] = "raise:%s: %s" % (type(e).__name__, str(e)[:80])
        return out

    def oracle_nxm_form(self, case, obs):
        if obs.get("skip"): return None
        if obs.get("pack") is None: return "entry given as %s raises %s" % (case["form"], obs.get("outcome", "?")[6:])
        if 0 < case["prefix"] and obs["pack"] != obs["want"]:
            return "entry given as %s (prefix %d) packs to %s…, the /%d network is %s…" % (case["form"], case["prefix"], obs["pack"][:24], case["prefix"], obs["want"][:24])
        if obs["pack"] != obs.get("plain"):
            return "entry given as %s (prefix %d) packs differently from the (address, mask address) form" % (case["form"], case["prefix"])
        return None

    STREAM_OFFSETS = [8, 12, 24, 64, 780]

    def offset_cases(self, rng):
        """every message / action / struct class decoded at non-zero offsets inside a larger buffer (behind 8, 12, 24, 64, 780
        bytes — a barrier, a config reply, a port status, …, a flow-stats reply), several values each, lists non-empty"""
        out = []
        for k in ofgen.MESSAGE_KINDS:
            for i in range(3): out.append({"kind": "conv", "spec": ofgen.message(rng, k, small=(i == 0)), "offsets": self.STREAM_OFFSETS})
        q = lambda: {"cls": "ofp_packet_queue", "kw": dict(queue_id=rint(rng, U32), properties=[{"cls": "ofp_queue_prop_min_rate", "kw": dict(rate=rng.randint(0, 1000))}])}
        for n in (1, 2, 5):
            out.append({"kind": "conv", "spec": {"cls": "ofp_queue_get_config_reply", "kw": dict(xid=n, port=n, queues=[q() for _ in range(n)])}, "offsets": self.STREAM_OFFSETS})
            out.append({"kind": "conv", "spec": {"cls": "ofp_features_reply", "kw": dict(xid=n, datapath_id=1, n_buffers=2, n_tables=3, capabilities=4, actions=5,
                        ports=[ofgen.phy_port(rng) for _ in range(n)])}, "offsets": self.STREAM_OFFSETS})
        for k in NX_MESSAGE_KINDS:
            for _ in range(2): out.append({"kind": "conv", "spec": g_nx_message(rng, k), "offsets": self.STREAM_OFFSETS})
        for name, g in STRUCT_GEN.items():
            sp = g(rng)
            if sp["cls"] != "ofp_match": out.append({"kind": "conv", "spec": sp, "offsets": self.STREAM_OFFSETS})
        for k in NX_ACTION_KINDS: out.append({"kind": "conv", "spec": g_nx_action(rng, k), "offsets": self.STREAM_OFFSETS})
        return out

    def mutate_cases(self, rng):
        """mutate-after-measure: for one object of every class, each place it can be changed in place (scalars, payloads,
        strings, action / port / queue / property / stats lists and their elements, nx_match masks), after len / pack / show /
        == / hash; every maskable NXM type given a mask after the length was taken, on its own and inside both NX messages"""
        out = []
        specs = [s for s in self.all_class_specs(rng) if s["cls"] != "ofp_match"]
        specs += [g_nx_message(rng, k) for k in NX_MESSAGE_KINDS] + [g_nx_action(rng, k) for k in NX_ACTION_KINDS if k != "learn"]
        for sp in specs: out += g_mutate(rng, sp, 6)
        for _ in range(6): out += g_mutate(rng, g_nx_match(rng, rng.randint(1, 5)), 4)
        i = 0
        for name in NXM_ALL:
            if not NXM_LEN[name][1]: continue
            for holder in ("nx_match", "nx_flow_mod", "nxt_packet_in"):
                out.append(g_mask_after_measure(rng, name, holder, MEASURES[i % len(MEASURES)])); i += 1
        return out

    def fault_cases(self, rng):
        """fault, then reuse, for one object of every class (two of every message that carries a list): a fault at each place
        (sampled where there are many), in every spelling; a buffer cut at ten places offered to a default-constructed object
        and to one that holds another value"""
        out = []
        specs = self.all_class_specs(rng) + [abnormal_match(rng)]
        for k in ("flow_mod", "packet_out", "features_reply", "stats_reply", "queue_get_config_reply"):
            if k in ofgen.MESSAGE_KINDS: specs.append(ofgen.message(rng, k))
        specs += [g_nx_message(rng, k) for k in ("nx_flow_mod", "ofp_flow_mod_table_id", "nxt_packet_in")]
        for i, sp in enumerate(specs):
            sp = nonzero(rng, sp)
            out += g_fault(rng, sp, None, k0=i, every=True)
            out += g_fault_trunc(rng, sp, nonzero(rng, perturb(rng, sp)), k0=i)
        return out

    def all_class_specs(self, rng):
        """one random spec per codec class / message kind"""
        out = []
        for k in ofgen.MESSAGE_KINDS: out.append(ofgen.message(rng, k, small=rng.random() < 0.5))
        for name, g in STRUCT_GEN.items(): out.append(g(rng))
        for _ in range(4): out.append(g_prop(rng))
        for _ in range(14): out.append(g_any_action(rng))
        for k in NX_ACTION_KINDS: out.append(g_nx_action(rng, k))
        for k in NX_MESSAGE_KINDS: out.append(g_nx_message(rng, k))
        return out

    def boundary_sweep(self, rng):
        """for every translated class and every integer field: 0, 1, max, sign bit, with the other fields fixed"""
        cases = []
        seen = set()
        for spec in self.all_class_specs(rng):
            cname = spec["cls"]
            if cname in seen or cname == "ofp_match": continue
            if cname in self.lay: fixed, tail = self.lay[cname]["pack"]
            elif cname in self.spec["table"]: fixed, tail = self.spec["table"][cname]     # untied class: widths from the standard
            else: continue
            seen.add(cname)
            for f in fixed:
                if f[0] != "uint" or f[1] not in spec.get("kw", {}): continue
                if f[1] == "type" and cname != "ofp_error": continue      # the type code must be the one that names the class / body
                if not isinstance(spec["kw"][f[1]], int) or isinstance(spec["kw"][f[1]], bool): continue
                mx = (1 << (8 * f[2])) - 1
                for v in (0, 1, mx, (mx + 1) >> 1, mx >> 1):
                    if cname in ("ofp_packet_in", "ofp_flow_mod", "ofp_packet_out") and f[1] == "buffer_id" and v == mx: continue
                    s = copy.deepcopy(spec); s["kw"][f[1]] = v
                    cases.append(self.obj(s))
        return cases

    def corpus(self):
        rng = random.Random(1)
        cases = []
        # one of everything, twice
        for _ in range(2):
            cases += [self.obj(s) for s in self.all_class_specs(rng)]
        cases += self.boundary_sweep(rng)
        # strings of every length
        for n in range(0, 17):
            s = ofgen.phy_port(rng); s["kw"]["name"] = "p" * n; cases.append(self.obj(s))
        for n in range(0, 33):
            s = ofgen.table_stats(rng); s["kw"]["name"] = "t" * n; cases.append(self.obj(s))
        for n in list(range(0, 8)) + [31, 32, 33, 127, 128, 254, 255, 256]:
            s = ofgen.desc_stats(rng); s["kw"]["mfr_desc"] = "m" * n; s["kw"]["dp_desc"] = "d" * (256 - n); cases.append(self.obj(s))
        for n in (0, 1, 31, 32):
            s = ofgen.desc_stats(rng); s["kw"]["serial_num"] = "s" * n; cases.append(self.obj(s))
        cases += self.learn_cases(rng)
        cases += self.string_cases(rng)
        # action lists from empty towards the 64 KiB limit (72 + 8n <= 65535  <=>  n <= 8182)
        act = {"cls": "ofp_action_output", "kw": dict(port=3)}
        for n in (0, 1, 2, 3, 17, 256, 4096, 8182):
            s = ofgen.message(rng, "flow_mod"); s["kw"]["actions"] = [copy.deepcopy(act) for _ in range(n)]; cases.append(self.obj(s))
        s = ofgen.message(rng, "flow_mod"); s["kw"]["actions"] = [copy.deepcopy(act) for _ in range(8183)]; cases.append(self.obj(s, expect="raise"))
        for n in (0, 1, 1000, 8189):
            s = ofgen.message(rng, "packet_out"); s["kw"]["actions"] = [copy.deepcopy(act) for _ in range(n)]; s["kw"]["data"] = ""; cases.append(self.obj(s))
        s = ofgen.message(rng, "packet_out"); s["kw"]["actions"] = [copy.deepcopy(act) for _ in range(8190)]; s["kw"]["data"] = ""; cases.append(self.obj(s, expect="raise"))
        mixed = [ofgen.action(rng) for _ in range(3000)]
        s = ofgen.message(rng, "flow_mod"); s["kw"]["actions"] = mixed; cases.append(self.obj(s))
        s = ofgen.flow_stats(rng); s["kw"]["actions"] = [copy.deepcopy(act) for _ in range(8180)]; cases.append(self.obj(s))
        # payload lengths 0..1500
        for n in list(range(0, 70)) + list(range(70, 1500, 37)) + [1498, 1499, 1500]:
            cases.append(self.obj({"cls": "ofp_packet_in", "kw": dict(xid=n, buffer_id=None, in_port=1, reason=0, data=rbytes(rng, n).hex())}))
        for n in (0, 1, 2, 59, 60, 64, 1499, 1500):
            cases.append(self.obj({"cls": "ofp_packet_out", "kw": dict(xid=n, buffer_id=None, in_port=1, actions=ofgen.actions(rng), data=rbytes(rng, n).hex())}))
            for c in ("ofp_echo_request", "ofp_echo_reply"):
                cases.append(self.obj({"cls": c, "kw": dict(xid=n, body=rbytes(rng, n).hex())}))
            cases.append(self.obj({"cls": "ofp_error", "kw": dict(xid=n, type=1, code=2, data=rbytes(rng, n).hex())}))
            cases.append(self.obj({"cls": "ofp_vendor_generic", "kw": dict(xid=n, vendor=0x2320, data=rbytes(rng, n).hex())}))
        # stats replies with 0..40 entries
        for n in range(0, 41):
            for t, g in ((1, ofgen.flow_stats), (3, ofgen.table_stats), (4, ofgen.port_stats), (5, ofgen.queue_stats)):
                cases.append(self.obj({"cls": "ofp_stats_reply", "kw": dict(xid=n, type=t, flags=n & 1, body=[g(rng) for _ in range(n)])}))
        for n in (0, 1, 7, 40):
            cases.append(self.obj({"cls": "ofp_features_reply", "kw": dict(xid=n, datapath_id=n, ports=[ofgen.phy_port(rng) for _ in range(n)])}))
            cases.append(self.obj({"cls": "ofp_queue_get_config_reply", "kw": dict(xid=n, port=n, queues=[g_queue(rng) for _ in range(n)])}))
        # the reported shape of D11: a queue-config reply carrying an OFPQT_NONE property built without arguments
        cases.append(self.obj({"cls": "ofp_queue_get_config_reply", "kw": dict(xid=1, port=1, queues=[{"cls": "ofp_packet_queue", "kw": dict(queue_id=1, properties=[{"cls": "ofp_queue_prop_none", "kw": {}}])}])}))
        # stats requests / replies with vendor and unknown bodies
        cases.append(self.obj({"cls": "ofp_stats_request", "kw": dict(xid=1, type=0xffff, body=g_vendor_stats(rng))}))
        cases.append(self.obj({"cls": "ofp_stats_reply", "kw": dict(xid=1, type=0xffff, body=g_vendor_stats(rng))}))
        cases.append(self.obj({"cls": "ofp_stats_request", "kw": dict(xid=1, type=77, body=g_generic_stats(rng))}))
        cases.append(self.obj({"cls": "ofp_stats_request", "kw": dict(xid=1, type=77, body="0102")}))
        cases.append(self.obj({"cls": "ofp_stats_reply", "kw": dict(xid=1, type=77, body="0102")}))
        # ofp_match: exhaustive small scope over the prerequisite lattice, both directions
        for dl_type in (None, 0x800, 0x806, 0x86dd, 0x88cc):
            for nw_proto in (None, 1, 6, 17, 47):
                for tos in (None, 0x1c):
                    for tp in (None, 80):
                        for nws in (None, ["0a010203", 32], ["0a010203", 8]):
                            kw = {}
                            if dl_type is not None: kw["dl_type"] = dl_type
                            if nw_proto is not None: kw["nw_proto"] = nw_proto
                            if tos is not None: kw["nw_tos"] = tos
                            if tp is not None: kw["tp_src"] = tp; kw["tp_dst"] = tp + 1
                            if nws is not None: kw["nw_src"] = nws
                            for fm in (False, True):
                                cases.append({"kind": "match", "spec": {"cls": "ofp_match", "kw": kw}, "flow_mod": fm})
        for w in (0, 0x3fffff, 0x3f << 8, 0x3f << 14, 33 << 8, 32 << 14, 1 << 21, 1 << 20, 0xffffffff):
            cases.append({"kind": "match", "spec": ofgen.match(rng), "wildcards": w, "flow_mod": False})
        # the 6-bit address wildcard counts: every value on the wire (32..63 all mean "ignore the address" and read back as 32)
        for v in range(64):
            for sh in (8, 14):
                for fm in (False, True):
                    cases.append({"kind": "match", "spec": {"cls": "ofp_match", "kw": {"dl_type": 0x800, "nw_proto": 6, "nw_src": ["0a010203", 32], "nw_dst": ["0a010204", 32]}},
                                  "wildcards": (v << sh) | ((5 << (22 - sh)) if v % 2 else 0), "flow_mod": fm})
        cases += self.nxm_form_cases(rng)
        # every NXM type, unmasked and (where allowed) masked
        for name in NXM_ALL:
            cases.append({"kind": "nxm", "spec": g_nxm(rng, name, masked=False)})
            if NXM_LEN[name][1]:
                for _ in range(3): cases.append({"kind": "nxm", "spec": g_nxm(rng, name, masked=True)})
        for n in (0, 1, 2, 5, 12):
            cases.append({"kind": "nxm", "spec": g_nx_match(rng, n)})
        # nx_action_learn with every kind of flow_mod_spec, several times
        for _ in range(12): cases.append(self.obj(g_nx_action(rng, "learn")))
        for k in NX_ACTION_KINDS:
            for _ in range(3): cases.append(self.obj(g_nx_action(rng, k)))
        # ofp_flow_mod carrying a packet-in as `data`
        for v in ("buffered", "unbuffered", "incomplete"):
            for _ in range(8): cases.append(g_fm_data(rng, v))
        # histories on one object (hidden state between calls) and calling conventions, for one object of every class
        for spec in self.all_class_specs(rng):
            if spec["cls"] == "ofp_match": continue
            s2 = perturb(rng, spec)
            cases.append({"kind": "seq", "mode": "repack", "inplace": False, "spec": spec, "spec2": s2})
            cases.append({"kind": "seq", "mode": "repack", "inplace": True, "spec": spec, "spec2": s2})
            cases.append({"kind": "seq", "mode": "reunpack", "spec": spec, "spec2": s2})
            cases.append({"kind": "seq", "mode": "isolation", "spec": spec, "spec2": s2})
            cases.append({"kind": "seq", "mode": "coexist", "spec": spec, "spec2": s2})
            cases.append({"kind": "conv", "spec": spec, "offsets": [1, 8, 13]})
        cases += self.offset_cases(rng)
        cases += self.mutate_cases(rng)
        cases += self.fault_cases(random.Random(7))             # (its own stream: the cases after it keep their values)
        # ofp_action_output: every reserved port, with and without max_len (max_len must survive for CONTROLLER only)
        for port in (0, 1, 0xff00, 0xfff8, 0xfff9, 0xfffa, 0xfffb, 0xfffc, 0xfffd, 0xfffe, 0xffff):
            for ml in (None, 0, 1, 128, 0xffff):
                kw = dict(port=port)
                if ml is not None: kw["max_len"] = ml
                cases.append(self.obj({"cls": "ofp_action_output", "kw": kw}))
        # the odd element first / in the middle / last in an action list
        out1 = {"cls": "ofp_action_output", "kw": dict(port=1)}
        odd = [ofgen.action(random.Random(k)) for k in range(40)]
        seen_cls = {}
        for a in odd + [g_action_generic(rng), g_nx_action(rng, "resubmit_table"), g_nx_action(rng, "set_tunnel64")]:
            key = (a["cls"], a.get("kw", {}).get("type"))
            if key in seen_cls: continue
            seen_cls[key] = 1
            for pos in range(3):
                acts = [copy.deepcopy(out1), copy.deepcopy(out1)]; acts.insert(pos, copy.deepcopy(a))
                sp = ofgen.message(rng, "flow_mod"); sp["kw"]["actions"] = acts; cases.append(self.obj(sp))
        # match fields SET to zero (not wildcarded), prerequisites present
        for kw0 in ({"in_port": 0}, {"dl_vlan": 0}, {"dl_vlan_pcp": 0}, {"dl_type": 0}, {"dl_type": 0x800, "nw_tos": 0}, {"dl_type": 0x800, "nw_proto": 0},
                    {"dl_type": 0x800, "nw_proto": 6, "tp_src": 0, "tp_dst": 0}, {"dl_type": 0x800, "nw_src": ["00000000", 32], "nw_dst": ["00000000", 32]},
                    {"dl_src": "000000000000", "dl_dst": "000000000000"}, {"dl_type": 0x806, "nw_proto": 0}):
            for fm in (False, True):
                cases.append({"kind": "match", "spec": {"cls": "ofp_match", "kw": kw0}, "flow_mod": fm})
        # object re-use: one match object (hashed at every position) through every order of three kinds of message
        import itertools
        for mk in ({"dl_type": 0x806, "nw_proto": 2}, {"dl_type": 0x800, "nw_proto": 47, "nw_src": ["0a000001", 32]}, {"in_port": 3},
                   {"dl_type": 0x800, "nw_proto": 6, "tp_dst": 80}):
            for order in itertools.permutations(["flow_mod", "flow_req", "removed"]):
                for h in range(0, 3):
                    cases.append({"kind": "reuse", "components": {"c": {"cls": "ofp_match", "kw": mk}},
                                  "ops": reuse_match_ops({"ref": "c"}, random.Random(h), order=list(order) + ["aggr_req", "flow_rep"][:h], hash_at=h)})
        for sc in ("match", "action", "port", "queue", "entry"):
            for i in range(12):
                c = g_reuse(rng, sc)
                if i % 3 == 2: c["via_unpack"] = True
                cases.append(c)
        # nx_flow_mod / nxt_packet_in with nx_match lengths 0, 5 … 40 (every residue mod 8, incl. non-zero multiples of 8)
        for total in range(0, 41):
            m = nx_match_of_length(rng, total)
            if m is None: continue
            for k in ("nx_flow_mod", "nxt_packet_in"):
                sp = g_nx_message(rng, k)
                if k == "nx_flow_mod": sp["kw"]["match"] = m
                else: sp["set"]["match"] = m
                cases.append(self.obj(sp))
        # Nicira actions nested in the action lists of OpenFlow and Nicira messages
        for k in ("resubmit_table", "dec_ttl", "set_tunnel64", "controller", "reg_move", "fin_timeout"):
            nxa = g_nx_action(rng, k)
            out = {"cls": "ofp_action_output", "kw": dict(port=1)}
            s1 = ofgen.message(rng, "flow_mod"); s1["kw"]["actions"] = [copy.deepcopy(nxa), out]; cases.append(self.obj(s1))
            s2 = {"cls": "ofp_packet_out", "kw": dict(xid=5, buffer_id=None, in_port=1, actions=[out, copy.deepcopy(nxa)], data="0102")}; cases.append(self.obj(s2))
            s3 = ofgen.flow_stats(rng); s3["kw"]["actions"] = [copy.deepcopy(nxa)]; cases.append(self.obj(s3))
            s4 = g_nx_message(rng, "nx_flow_mod"); s4["kw"]["actions"] = [copy.deepcopy(nxa), out, copy.deepcopy(nxa)]; cases.append(self.obj(s4))
        # a request object re-used with a new body
        cases.append({"kind": "stale", "spec": {"cls": "ofp_stats_request", "kw": dict(xid=1, body={"cls": "ofp_port_stats_request", "kw": dict(port_no=1)})},
                      "body2": {"cls": "ofp_port_stats_request", "kw": dict(port_no=2)}})
        return cases

    def generate(self, rng, tier):
        n = 600 if tier == "quick" else 100000
        for i in range(n):
            r = rng.random()
            if r < 0.42: yield self.obj_s(rng, ofgen.message(rng, small=rng.random() < 0.6))
            elif r < 0.60:
                g = rng.choice(list(STRUCT_GEN.values())); yield self.obj_s(rng, g(rng))
            elif r < 0.70: yield self.obj(g_any_action(rng))
            elif r < 0.78: yield self.obj(g_nx_action(rng))
            elif r < 0.83: yield self.obj(g_nx_message(rng))
            elif r < 0.85: yield g_fm_data(rng)
            elif r < 0.87: yield g_reuse(rng)
            elif r < 0.90:
                sp = ofgen.message(rng, small=True) if rng.random() < 0.7 else rng.choice(list(STRUCT_GEN.values()))(rng)
                if sp["cls"] == "ofp_match": continue
                m = rng.choice(["repack", "repack", "reunpack", "isolation", "coexist", "conv"])
                if m == "conv": yield {"kind": "conv", "spec": sp, "offsets": [rng.randint(1, 20), rng.choice(self.STREAM_OFFSETS), rng.randint(21, 2000)]}
                elif rng.random() < 0.35:
                    if rng.random() < 0.3: sp = g_nx_message(rng)
                    if rng.random() < 0.7: sp = nonzero(rng, sp)
                    k0 = rng.randint(0, 59)
                    if rng.random() < 0.6:
                        for c in g_fault(rng, sp, 2, k0=k0): yield c
                    else:
                        cuts = [rng.choice(FAULT_CUTS), ["abs", rng.randint(0, 200)], ["end", rng.randint(1, 40)]]
                        for c in g_fault_trunc(rng, sp, perturb(rng, sp), cuts=cuts, k0=k0): yield c
                elif rng.random() < 0.4:
                    for c in g_mutate(rng, sp, 2): yield c
                else: yield {"kind": "seq", "mode": m, "inplace": rng.random() < 0.5, "spec": sp, "spec2": perturb(rng, sp)}
            elif r < 0.93:
                sp = ofgen.match(rng) if rng.random() < 0.6 else abnormal_match(rng)
                yield {"kind": "match", "spec": sp, "flow_mod": rng.random() < 0.5}
            elif r < 0.98: yield {"kind": "nxm", "spec": g_nxm(rng)}
            else: yield {"kind": "nxm", "spec": g_nx_match(rng)}
        if tier == "thorough":
            for c in self.boundary_sweep(rng): yield c
            for n in range(0, 1501):
                yield self.obj({"cls": "ofp_packet_in", "kw": dict(xid=n, buffer_id=None, in_port=1, reason=0, data=rbytes(rng, n).hex())})
            for n in range(0, 257):
                s = ofgen.desc_stats(rng); s["kw"][rng.choice(["mfr_desc", "hw_desc", "sw_desc", "dp_desc"])] = "x" * n; yield self.obj(s)
            for n in range(0, 8183, 409):
                s = ofgen.message(rng, "flow_mod"); s["kw"]["actions"] = [ofgen.action(rng) for _ in range(n // 2)]; yield self.obj(s)

    def search_cases(self, rng, tier):
        for c in self.corpus(): yield c
        for c in self.generate(rng, "quick"): yield c
        for c in self.generate(rng, "quick"): yield c

    def pins(self):
        """build Properties/C01Pins.lean (statements about particular generated classes: which are translated / irregular /
        uncovered, instances, non-vacuity examples).  Its failure does not break the property theorems; it is reported."""
        path = os.path.join(common.LEAN, "PoxModel", "Properties", "C01Pins.lean")
        try:
            src = common.strip_lean_comments(open(path).read())
            hits = [m.group(0).strip() for m in common.FORBIDDEN.finditer(src)]
            ok, logtxt = common.lake_build(["PoxModel.Properties.C01Pins"])
        except Exception as e:
            return {"pins_ok": False, "pins_error": "%s: %s" % (type(e).__name__, e)}
        out = {"pins_ok": bool(ok and not hits)}
        if hits: out["pins_forbidden_tokens"] = hits
        if not ok:
            import re
            out["pins_failed"] = re.findall(r"error: PoxModel/Properties/C01Pins.lean:(\d+)", logtxt)[:10]
        return out

    def extra_evidence(self):
        untied = sorted(set(self.untranslated) - EXPECTED_UNTRANSLATED)
        ev = {"translated_classes": len(self.lay), "regular_classes": sum(1 for c in self.lay.values() if not c["flags"]),
              "irregular_classes": sorted(n for n, c in self.lay.items() if c["flags"]),
              "untranslated_classes": sorted(self.untranslated),
              "untied_classes": {n: self.untranslated[n][:160] for n in untied},
              "untied_in_spec_table": sorted(n for n in untied if n in self.spec["table"]),
              "newly_translated_classes": sorted(EXPECTED_UNTRANSLATED - set(self.untranslated))}
        ev.update(getattr(self, "_pins", None) or self.pins())
        ev["pins_audited"] = bool(ev.get("pins_ok"))
        if untied:
            common.log("C01: %d class(es) not read by the translator on this tree, hence not tied to a layout theorem on this run "
                       "(oracle + spec-layout comparison still ran on the real code): %s" % (len(untied), ", ".join(untied)))
        if not ev.get("pins_ok"):
            common.log("C01: Properties/C01Pins.lean (pins / instances over today's classes) does not build on this tree: %s"
                       % (ev.get("pins_failed") or ev.get("pins_error") or ev.get("pins_forbidden_tokens")))
        return ev


CHECK = C01
