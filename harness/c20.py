"""C20 — the send path preserves the byte stream under partial writes and back-pressure (DESIGN §5 C20)."""
import itertools, socket, errno
import common, poxenv
from common import Check


class StopLoop(Exception):
    pass


class ScriptSock:
    """socket whose send() follows a script of outcomes; when the script is exhausted it accepts everything"""
    def __init__(self):
        self.script, self.accepted, self.offered, self.offered_after_fatal, self.fatal_seen = [], b"", 0, 0, False
        self.shut = False
        self.ferr, self.aerr = "EPIPE", "EAGAIN"
        self.shut_wr, self.qsofar = [], [0]
    def send(self, data, flags=0):
        self.offered += 1
        # a write after shutdown(SHUT_WR) requested by the CALLER is refused by the socket but is not a write "after a fatal error"
        if self.fatal_seen or self.fd_closed or (self.shut and not self.shut_wr): self.offered_after_fatal += 1
        o = self.script.pop(0) if self.script else {"o": "accept", "k": 1 << 30}
        if self.fatal_seen or self.shut: o = {"o": "fatal"}          # a shut-down socket refuses every write
        if o["o"] == "again": raise socket.error(getattr(errno, self.aerr), self.aerr)
        if o["o"] == "fatal":
            self.fatal_seen = True
            raise socket.error(getattr(errno, self.ferr), self.ferr)
        k = min(o["k"], len(data))
        self.accepted += bytes(data[:k])
        return k
    def recv(self, n, flags=0):
        r = self.rxscript.pop(0) if getattr(self, "rxscript", None) else None
        if r == "data": return b"\x01\x02\x03"
        if r == "eof": return b""
        if r == "error":
            self.fatal_seen = True                       # a receive error is a fatal socket error too
            raise socket.error(errno.ECONNRESET, "ECONNRESET")
        raise socket.error(errno.EAGAIN, "EAGAIN")
    def shutdown(self, how=None):
        if how is None or how == socket.SHUT_RDWR or how == socket.SHUT_WR:
            self.shut = True
            self.shut_wr.append([len(self.accepted), self.qsofar[0]])       # bytes written / bytes queued so far, at this moment
    def close(self): self.shut = True; self.fd_closed = True
    fd_closed = False
    def fileno(self): return -1
    def getpeername(self): return ("peer", 1)


class MSock(ScriptSock):
    """part M: like a real socket, fileno() is a descriptor while the socket is open and -1 once it has been closed"""
    def __init__(self, idx):
        ScriptSock.__init__(self); self.idx = idx
    def fileno(self): return -1 if self.fd_closed else 1000 + self.idx


def data(i, n):
    return bytes(((i * 37 + k * 5 + 1) & 0xff) for k in range(n))


# which errno a "fatal" / "would block" outcome carries is a case parameter: every error other than would-block is fatal for
# the send path (the model has one `fatal` outcome), whatever its number
FERRS = ["EPIPE", "ECONNRESET", "ENOTCONN", "EBADF", "ETIMEDOUT", "ECONNABORTED", "EHOSTUNREACH", "ENETDOWN", "ENETUNREACH", "ESHUTDOWN", "EIO", "ENOBUFS", "EINVAL", "EACCES"]
AERRS = ["EAGAIN", "EWOULDBLOCK"]

OUTS = [{"o": "accept", "k": 1 << 30}, {"o": "accept", "k": 1}, {"o": "accept", "k": 3}, {"o": "again"}, {"o": "fatal"}, {"o": "accept", "k": 0}]


class C20(Check):
    id = "C20"
    prop_module = "PoxModel.Properties.C20"
    lean_targets = ["drv_c20"]
    driver = "drv_c20"
    theorems = ["Pox.C20.ioworker_stream", "Pox.C20.ioworker_drained", "Pox.C20.ioworker_after_fatal", "Pox.C20.ioworker_unguarded_defect", "Pox.C20.ioworker_shutdown",
                "Pox.C20.shutdown_with_pending", "Pox.C20.ioworker_progress", "Pox.C20.ioworker_history", "Pox.C20.ioworker_closed_final", "Pox.C20.ctl_stream",
                "Pox.C20.ctl_quiescent", "Pox.C20.ctl_after_fatal", "Pox.C20.ctl_no_attempt_after_fatal", "Pox.C20.ctl_history", "Pox.C20.ctl_env_disc", "Pox.C20.multi_conn", "Pox.C20.multi_conn_history"]
    anchors = [("pox/lib/ioworker/__init__.py", "IOWorker._do_send"), ("pox/lib/ioworker/__init__.py", "IOWorker._consume_send_buf"),
               ("pox/lib/ioworker/__init__.py", "IOWorker.send"), ("pox/lib/ioworker/__init__.py", "RecocoIOWorker.send_fast"), ("pox/lib/ioworker/__init__.py", "RecocoIOWorker.send"),
               ("pox/openflow/of_01.py", "DeferredSender._sliceup"), ("pox/openflow/of_01.py", "DeferredSender.send"), ("pox/openflow/of_01.py", "DeferredSender.run"),
               ("pox/openflow/of_01.py", "Connection.send"), ("pox/openflow/of_01.py", "Connection.disconnect"), ("pox/openflow/of_01.py", "Connection.close")]
    design_ref = "DESIGN.md §5 C20"
    technique = ("Lean 4 proof: stream invariant over all op sequences (IOWorker) and over all interleavings of a two-actor transition system "
                 "(Connection.send steps / DeferredSender flush steps / environment) + differential correspondence against the real classes with scripted sockets")
    level_text = ("Part A theorems (ioworker_stream/_drained/_after_fatal, and over time ioworker_history: accepted bytes are never retracted, each operation appends exactly its own message to the queued stream once) hold for every sequence of send/send_fast/loop iterations and every socket-outcome script. "
                  "Part B theorems (ctl_stream/ctl_quiescent/ctl_after_fatal/ctl_no_attempt_after_fatal, and over time ctl_history: accepted and queued streams only grow at the end) hold for every interleaving, at the granularity of the unlocked flag read, the direct write, the locked enqueue, "
                  "each sender-thread write and its epilogue, of one connection with the deferred sender, every outcome script and PIPE_BUF; the other connections are environment actions (one defers / its entry is deleted / "
                  "it is disconnected: ctl_env_disc, a no-op), and a disconnect of the connection itself from the cooperative side is an action too. multi_conn: in every history of whole operations on n connections sharing the "
                  "deferred sender every connection's state is such a run, so the theorems hold per connection. The model is hand-written; each run re-checks it "
                  "against the real RecocoIOLoop/RecocoIOWorker and the real Connection + DeferredSender (thread body driven deterministically) on exhaustive short and random long scripts.")
    level_note = ("Trusted: Lean kernel, standard axioms, hand-written Model/SendPath.lean, scripted socket. Assumed runtime facts: CPython executes each modelled step atomically (GIL), "
                  "the RLock excludes, a socket that was shut down refuses every write. Parts A/B run sequential action sequences (a subset of the interleavings the theorems cover); part T runs the real "
                  "DeferredSender.run on a real second thread under the forced scheduler (harness/forcedthreads.py) and compares its traces with the model. The former race C20-R1 (a refused "
                  "write attempt after a fatal error) is repaired (fix: commit in /repo); its interleaving stays in the corpus and the full statement is theorem ctl_no_attempt_after_fatal.")
    trusted_base = ["model Model/SendPath.lean hand-written from ioworker/__init__.py and of_01.py Connection.send/DeferredSender; tied by this correspondence run",
                    "other connections abstracted to an environment that can only set/clear the global `sending` flag under the lock; part M runs 2-3 REAL connections on one real DeferredSender and "
                    "compares every connection with its own view (Model/SendPath.lean Part C, `mrun`: the composition is executable glue, theorem multi_conn says every view is a Part-B run)",
                    "part M's stand-in for select keeps select's contract: a closed socket (fileno() < 0) in a list is refused with ValueError, writable connections are reported in the order asked"]
    assumptions = ["messages passed to send are non-empty", "GIL atomicity of the modelled steps; RLock mutual exclusion", "send on a shut-down socket fails",
                   "controller connection: a disconnect from the cooperative side (read EOF, echo timeout, application disconnect()/close()) is the model action coopDisc (between two Connection.send calls: both run on the cooperative thread); "
                   "what is queued for such a connection stays queued until the sender thread meets the dead socket (one refused write: that socket's first fatal error) or, when the socket was closed, forgets it (repair C20-3: select refuses a closed socket, "
                   "the sender drops the queues of disconnected connections and goes on; before the repair the sender thread died there and the queued data of EVERY connection was stranded)",
                   "select never reports an exceptional condition (elist) for a connection with deferred data: DeferredSender.run would then drop the queued data silently and leave the connection up (outside the property's fault alphabet: short writes, would-block, fatal errors); likewise its outer bare `except`",
                   "'reported closed exactly once' for the controller connection is ConnectionDown: as a THEOREM it is C09's down_once (both fatal paths end in Connection.disconnect, guarded by disconnection_raised); here the oracle counts the ConnectionDown events of an announced connection on the real code after every part-B history (exactly one on the nexus and one on the connection iff a fatal error occurred, the serving task's con.close() included); part A proves it for the IOWorker",
                   "IOWorker: connecting sockets (_connecting/_try_connect) are not modelled; shutdown(send) is in the Lean model (theorem ioworker_shutdown: the socket is shut down for writing only once everything queued has been written, at most once, and is shut down once a request that had to wait is drained); a request made when nothing is pending is never carried out by the code, and the model says the same"]
    rule = ("case A = op sequence over {send, send_fast(outcome), loop iteration(outcome), loop iteration with the worker readable AND writable (data / end of stream / receive error, then outcome)}; case B = action sequence over {Connection.send(data, outcome), sender iteration(outcomes), "
            "other connection defers / is flushed}; case M = history of whole operations on 2-3 REAL connections sharing one DeferredSender {Connection.send(c, data, outcome), one sender pass reporting a set of connections writable "
            "(outcomes per connection), disconnect()/close() of any connection}, always followed by one more send per connection and two passes in which every socket takes everything; the property is demanded of EVERY connection; "
            "corpus = all sequences of 3 messages x 4 calls over 6 outcomes (A), all B sequences of length <= 4 over a 9-letter alphabet, all M histories of length <= 3 over 14 letters (two connections), a second connection's whole life placed "
            "at every pair of points of a fixed history, three connections (which hold a backlog x how the third leaves x with/without its own queue), three connections writable in one pass with every outcome pattern; "
            "every case carries the errno of its fatal outcome (14 numbers) and the spelling of would-block (EAGAIN / EWOULDBLOCK): every error other than would-block is fatal (the code's rule, the model's single `fatal` outcome); "
            "non-trivial = a partial write, EAGAIN or fatal outcome was consumed")

    def setup(self):
        poxenv.boot()
        import pox.openflow.of_01 as of_01
        import pox.lib.ioworker as iow
        self.of_01, self.iow = of_01, iow
        class DS(of_01.DeferredSender):
            def start(self): pass                         # the thread body is driven by the harness
        self.DS = DS
        # which IOWorker variant is this tree?  Probed by behaviour (never by source shape): does _do_send still offer the
        # buffer to the socket after _do_recv closed the worker earlier in the same pass?
        self.guard_closed = True
        probe = self._impl_a({"part": "A", "ops": [{"op": "send", "i": 0, "n": 2}, {"op": "pumprw", "rx": "error", "o": 0}]})
        self.guard_closed = (probe["offered_after_fatal"] == 0)

    # ------------------------------------------------------------------ generators
    def corpus(self):
        cases = []
        # A: 3 messages, 4 socket calls, all outcome scripts (6^4) x 2 shapes
        for outs in itertools.product(range(len(OUTS)), repeat=4):
            ops = [{"op": "send", "i": 0, "n": 5}, {"op": "pump", "o": outs[0]}, {"op": "sendfast", "i": 1, "n": 4, "o": outs[1]},
                   {"op": "pump", "o": outs[2]}, {"op": "send", "i": 2, "n": 3}, {"op": "pump", "o": outs[3]}, {"op": "pump", "o": 0}, {"op": "pump", "o": 0}]
            cases.append({"part": "A", "ops": ops})
        for outs in itertools.product(range(len(OUTS)), repeat=3):
            ops = [{"op": "sendfast", "i": 0, "n": 5, "o": outs[0]}, {"op": "sendfast", "i": 1, "n": 4, "o": outs[1]}, {"op": "pump", "o": outs[2]},
                   {"op": "sendfast", "i": 2, "n": 2, "o": 0}, {"op": "pump", "o": 0}]
            cases.append({"part": "A", "ops": ops})
        # A, the application closes the worker (once, twice) at every point of a short history; sends and loop passes follow
        base = [{"op": "send", "i": 0, "n": 5}, {"op": "pump", "o": 1}, {"op": "sendfast", "i": 1, "n": 4, "o": 2}, {"op": "pump", "o": 0}]
        for cut in range(len(base) + 1):
            for twice in (False, True):
                for o1 in range(len(OUTS)):
                    ops = base[:cut] + [{"op": "close"}] + ([{"op": "pump", "o": 0}, {"op": "close"}] if twice else []) + \
                          [{"op": "send", "i": 2, "n": 3}, {"op": "pump", "o": o1}, {"op": "sendfast", "i": 3, "n": 2, "o": o1}, {"op": "pump", "o": 0}, {"op": "pump", "o": 0}]
                    cases.append({"part": "A", "ops": ops})
        # A, one socket call per pass: the IOWorker offers its buffer to the socket ONCE per writable event / send_fast; the
        # outcomes in "more" are what a second, third ... call in the same pass would get — the code as it is never asks, a
        # "drain" loop would (and would mishandle a short write followed by EAGAIN or an error in the same pass)
        for o1 in (1, 2, 5):
            for more in ([3], [4], [1, 3], [2, 4], [5, 3], [1, 1, 3]):
                for o2 in (0, 1, 3):
                    cases.append({"part": "A", "ops": [{"op": "send", "i": 0, "n": 10}, {"op": "pump", "o": o1, "more": more}, {"op": "send", "i": 1, "n": 7},
                                                      {"op": "pump", "o": o2, "more": more}, {"op": "send", "i": 2, "n": 5}, {"op": "pump", "o": 0}, {"op": "pump", "o": 0}]})
                    cases.append({"part": "A", "ops": [{"op": "sendfast", "i": 0, "n": 10, "o": o1, "more": more}, {"op": "pump", "o": o2, "more": more},
                                                      {"op": "sendfast", "i": 1, "n": 7, "o": o2, "more": more}, {"op": "pump", "o": 0}, {"op": "pump", "o": 0}]})
        # A, the worker is readable and writable in the same pass: data / end of stream / a receive error, then the write
        for rx in ("data", "eof", "error"):
            for o1 in (0, 1, 3, 4):
                for o2 in (0, 1, 4):
                    for pre in ([], [{"op": "pump", "o": 1}], [{"op": "pumprw", "rx": "data", "o": 3}]):
                        cases.append({"part": "A", "ops": [{"op": "send", "i": 0, "n": 6}] + pre + [{"op": "pumprw", "rx": rx, "o": o1}, {"op": "send", "i": 1, "n": 3},
                                                          {"op": "pumprw", "rx": "data", "o": o2}, {"op": "pump", "o": 0}, {"op": "sendfast", "i": 2, "n": 2, "o": 0}, {"op": "pump", "o": 0}]})
        # B: all sequences of length <= 4 over a small alphabet
        alpha = [{"op": "send", "i": 0, "n": 5, "o": 0}, {"op": "send", "i": 1, "n": 5, "o": 2}, {"op": "send", "i": 2, "n": 3, "o": 3}, {"op": "send", "i": 3, "n": 3, "o": 4},
                 {"op": "flush", "outs": [0, 0, 0]}, {"op": "flush", "outs": [1]}, {"op": "flush", "outs": [0, 4]}, {"op": "envenq"}, {"op": "envdone"}]
        for L in range(1, 5):
            for seq in itertools.product(alpha, repeat=L):
                cases.append({"part": "B", "pb": 2, "ops": list(seq) + [{"op": "flush", "outs": []}, {"op": "flush", "outs": []}]})
        # B, one direct attempt per Connection.send: a partial first write followed by what a retry would get
        for o1 in (1, 2, 5):
            for more in ([3], [4], [1, 3], [2, 3], [5, 3]):
                for tail in ([{"op": "flush", "outs": [0, 0]}], [{"op": "send", "i": 1, "n": 4, "o": 0}, {"op": "flush", "outs": [1, 0]}], [{"op": "flush", "outs": [3]}, {"op": "send", "i": 1, "n": 4, "o": 3}]):
                    cases.append({"part": "B", "pb": 2, "ops": [{"op": "send", "i": 0, "n": 9, "o": o1, "more": more}] + tail + [{"op": "flush", "outs": []}, {"op": "flush", "outs": []}]})
        # shutdown(send) (= OFConnection.close) with 0, 1, 2 and many bytes pending, drained by short writes (oracle only)
        for n in (1, 2, 5):
            for o1 in (0, 1, 2, 3):
                for o2 in (0, 1, 3):
                    for pre in ([], [{"op": "pump", "o": 1}], [{"op": "pump", "o": 0}]):
                        cases.append({"part": "A", "ops": [{"op": "send", "i": 0, "n": n}] + pre + [{"op": "shutdown"}, {"op": "pump", "o": o1}, {"op": "pump", "o": o2}] + [{"op": "pump", "o": 1}] * n +
                                                         [{"op": "pump", "o": 0}, {"op": "pump", "o": 0}]})
        cases.append({"part": "A", "ops": [{"op": "send", "i": 0, "n": 4}, {"op": "shutdown"}, {"op": "pump", "o": 2}, {"op": "send", "i": 1, "n": 3}, {"op": "pump", "o": 0}, {"op": "pump", "o": 0}, {"op": "pump", "o": 0}]})
        # every fatal errno (and both spellings of would-block) through one fatal-after-partial-write history of each part
        for fe in FERRS:
            for ae in AERRS:
                for o1 in (1, 3, 4):
                    cases.append({"part": "A", "ferr": fe, "aerr": ae, "ops": [{"op": "send", "i": 0, "n": 5}, {"op": "pump", "o": o1}, {"op": "sendfast", "i": 1, "n": 4, "o": 3},
                                                                                 {"op": "pump", "o": 4}, {"op": "send", "i": 2, "n": 3}, {"op": "pump", "o": 0}, {"op": "pump", "o": 0}]})
                    cases.append({"part": "A", "ferr": fe, "aerr": ae, "ops": [{"op": "sendfast", "i": 0, "n": 5, "o": o1}, {"op": "sendfast", "i": 1, "n": 4, "o": 4},
                                                                                 {"op": "pump", "o": 0}, {"op": "sendfast", "i": 2, "n": 2, "o": 0}, {"op": "pump", "o": 0}]})
                    cases.append({"part": "B", "pb": 2, "ferr": fe, "aerr": ae, "ops": [{"op": "send", "i": 0, "n": 5, "o": o1}, {"op": "send", "i": 1, "n": 5, "o": 3}, {"op": "flush", "outs": [1, 3]},
                                                                                          {"op": "flush", "outs": [0, 4]}, {"op": "send", "i": 2, "n": 3, "o": 0}, {"op": "flush", "outs": []}, {"op": "flush", "outs": []}]})
                    cases.append({"part": "B", "pb": 2, "ferr": fe, "aerr": ae, "ops": [{"op": "send", "i": 0, "n": 5, "o": o1}, {"op": "send", "i": 1, "n": 5, "o": 4}, {"op": "send", "i": 2, "n": 3, "o": 0},
                                                                                          {"op": "flush", "outs": []}, {"op": "flush", "outs": []}]})
        # the Lean regression witness `raceActs` (former finding C20-R1) replayed on the real code: the sender thread's fatal
        # error is interleaved at the entry of DeferredSender.send, between Connection.send's `disconnected`/`sending` tests and its deferred enqueue
        cases.append({"part": "B", "pb": 512, "ops": [{"op": "send", "i": 0, "n": 1, "o": 3}, {"op": "send_raced", "i": 1, "n": 1, "outs": [4]},
                                                        {"op": "flush", "outs": [{"o": "accept", "k": 1}]}, {"op": "flush", "outs": []}]})
        cases += self._corpus_m()
        return cases

    # part M: 2-3 REAL connections share the one deferred sender (one `_dataForConnection`, one `sending` flag, one thread).
    # Every connection sends, gets deferred, is flushed, fails fatally, is disconnected / closed at every point of the
    # others' histories; the oracle is the property per connection, the model gives every connection its own view.
    @staticmethod
    def _probe(n):
        """after the history: every connection sends once more (a wrong `sending` flag or a stale queue shows here), then
        two sender passes in which every socket is writable and takes everything"""
        allw = [[j, []] for j in range(n)]
        return [{"op": "send", "c": j, "i": 90 + j, "n": 4, "o": 0} for j in range(n)] + [{"op": "flush", "w": allw}, {"op": "flush", "w": allw}]

    @staticmethod
    def _number(ops):
        out = []
        for k, op in enumerate(ops):
            op = dict(op)
            if op["op"] == "send" and "i" not in op: op["i"] = k
            out.append(op)
        return out

    def _corpus_m(self):
        cases = []
        A, B, C = 0, 1, 2
        alpha = [{"op": "send", "c": A, "n": 5, "o": 1}, {"op": "send", "c": A, "n": 4, "o": 0}, {"op": "send", "c": A, "n": 3, "o": 3}, {"op": "send", "c": A, "n": 3, "o": 4},
                 {"op": "send", "c": B, "n": 4, "o": 0}, {"op": "send", "c": B, "n": 5, "o": 2}, {"op": "send", "c": B, "n": 3, "o": 4},
                 {"op": "flush", "w": [[A, [1]]]}, {"op": "flush", "w": [[A, []], [B, []]]}, {"op": "flush", "w": [[B, [4]]]}, {"op": "flush", "w": [[B, []]]},
                 {"op": "disc", "c": B, "how": "close"}, {"op": "disc", "c": B, "how": "disconnect"}, {"op": "disc", "c": A, "how": "close"}]
        # all histories of length <= 3 over the 14 letters, two connections
        for L in range(1, 4):
            for seq in itertools.product(alpha, repeat=L):
                cases.append({"part": "M", "pb": 2, "n": 2, "ops": self._number(seq) + self._probe(2)})
        # "at every point": a fixed history of A (partial write, deferred sends, short flushes), with B's whole life — idle or
        # sending or deferred, then leaving in every way — placed at every pair of positions
        base = [{"op": "send", "c": A, "n": 6, "o": 2}, {"op": "send", "c": A, "n": 3, "o": 0}, {"op": "flush", "w": [[A, [1, 3]]]},
                {"op": "send", "c": A, "n": 2, "o": 0}, {"op": "flush", "w": [[A, [0, 1]]]}]
        lives = [[{"op": "send", "c": B, "n": 4, "o": 0}], [{"op": "send", "c": B, "n": 4, "o": 3}], [{"op": "send", "c": B, "n": 4, "o": 1}], []]
        leaves = [[{"op": "disc", "c": B, "how": "close"}], [{"op": "disc", "c": B, "how": "disconnect"}], [{"op": "send", "c": B, "n": 2, "o": 4}],
                  [{"op": "flush", "w": [[B, [4]]]}], [{"op": "flush", "w": [[B, []]]}, {"op": "disc", "c": B, "how": "close"}],
                  [{"op": "disc", "c": B, "how": "disconnect"}, {"op": "disc", "c": B, "how": "close"}]]
        for p1 in range(len(base) + 1):
            for p2 in range(p1, len(base) + 1):
                for lv in lives:
                    for lf in leaves:
                        ops = base[:p1] + lv + base[p1:p2] + lf + base[p2:]
                        cases.append({"part": "M", "pb": 2, "n": 2, "ops": self._number(ops) + self._probe(2)})
        # three connections: which of A, B hold a backlog when C leaves (with or without a queue of its own), in which way
        for backlog in ([], [A], [B], [A, B]):
            for cq in (None, 0, 3, 1):                         # C: silent / sent everything / deferred whole / deferred a rest
                for lf in ("close", "disconnect", "fatal-send", "fatal-flush", "flush-then-close", None):
                    for order in (0, 1):
                        pre = [{"op": "send", "c": j, "n": 5, "o": 1} for j in backlog]
                        cs = [] if cq is None else [{"op": "send", "c": C, "n": 4, "o": cq}]
                        ops = (pre + cs) if order == 0 else (cs + pre)
                        if lf in ("close", "disconnect"): ops = ops + [{"op": "disc", "c": C, "how": lf}]
                        elif lf == "fatal-send": ops = ops + [{"op": "send", "c": C, "n": 2, "o": 4}]
                        elif lf == "fatal-flush": ops = ops + [{"op": "flush", "w": [[C, [4]]]}]
                        elif lf == "flush-then-close": ops = ops + [{"op": "flush", "w": [[C, []]]}, {"op": "disc", "c": C, "how": "close"}]
                        for pb in (2, 512):
                            cases.append({"part": "M", "pb": pb, "n": 3, "ops": self._number(ops) + self._probe(3)})
        # several connections writable in ONE sender pass, one of them failing / short / blocked, in every position
        for outs in itertools.product([[], [1], [3], [4]], repeat=3):
            pre = [{"op": "send", "c": j, "n": 5, "o": 3} for j in (A, B, C)]
            cases.append({"part": "M", "pb": 2, "n": 3, "ops": self._number(pre + [{"op": "flush", "w": [[j, list(outs[j])] for j in (A, B, C)]}]) + self._probe(3)})
        return cases

    def generate(self, rng, tier):
        n = 300 if tier == "quick" else 8000
        for c in range(n):
            if rng.random() < 0.4:
                ops = []
                for k in range(rng.choice([3, 6, 12, rng.randint(1, 40)])):
                    r = rng.random()
                    if r < 0.3: ops.append({"op": "send", "i": k, "n": rng.choice([1, 2, 7, rng.randint(1, 40)])})
                    elif r < 0.55: ops.append({"op": "sendfast", "i": k, "n": rng.choice([1, 2, 7, rng.randint(1, 40)]), "o": self._rout(rng)})
                    elif r < 0.83: ops.append({"op": "pump", "o": self._rout(rng)})
                    elif r < 0.85 and rng.random() < 0.5: ops.append({"op": "shutdown"})
                    elif r < 0.87 and rng.random() < 0.5: ops.append({"op": "close"})
                    else: ops.append({"op": "pumprw", "rx": rng.choice(["data", "data", "eof", "error"]), "o": self._rout(rng)})
                    if ops[-1]["op"] not in ("send", "close", "shutdown") and rng.random() < 0.3:          # what further calls in the same pass would get
                        ops[-1]["more"] = [self._rout(rng) for _ in range(rng.randint(1, 3))]
                yield {"part": "A", "ferr": rng.choice(FERRS), "aerr": rng.choice(AERRS), "ops": ops + [{"op": "pump", "o": 0}] * 2}
            else:
                ops = []
                for k in range(rng.choice([3, 6, 12, rng.randint(1, 30)])):
                    r = rng.random()
                    if r < 0.5:
                        ops.append({"op": "send", "i": k, "n": rng.choice([1, 2, 5, 9, rng.randint(1, 30)]), "o": self._rout(rng)})
                        if rng.random() < 0.3: ops[-1]["more"] = [self._rout(rng) for _ in range(rng.randint(1, 2))]
                    elif r < 0.85: ops.append({"op": "flush", "outs": [self._rout(rng) for _ in range(rng.randint(0, 5))]})
                    elif r < 0.93: ops.append({"op": "envenq"})
                    else: ops.append({"op": "envdone"})
                yield {"part": "B", "pb": rng.choice([1, 2, 4, 512]), "ferr": rng.choice(FERRS), "aerr": rng.choice(AERRS), "ops": ops + [{"op": "flush", "outs": []}] * 2}
        for c in range(150 if tier == "quick" else 5000):
            nc = rng.choice([2, 2, 3])
            ops = []
            for k in range(rng.choice([4, 8, 14, rng.randint(1, 30)])):
                r = rng.random()
                if r < 0.5:
                    ops.append({"op": "send", "c": rng.randrange(nc), "i": k, "n": rng.choice([1, 2, 5, 9, rng.randint(1, 20)]), "o": self._rout(rng)})
                    if rng.random() < 0.2: ops[-1]["more"] = [self._rout(rng) for _ in range(rng.randint(1, 2))]
                elif r < 0.85:
                    ops.append({"op": "flush", "w": [[j, [self._rout(rng) for _ in range(rng.randint(0, 3))]] for j in range(nc) if rng.random() < 0.6]})
                else:
                    ops.append({"op": "disc", "c": rng.randrange(nc), "how": rng.choice(["close", "close", "disconnect"])})
            yield {"part": "M", "pb": rng.choice([1, 2, 4, 512]), "n": nc, "ferr": rng.choice(FERRS), "aerr": rng.choice(AERRS), "ops": ops + self._probe(nc)}
        # part T: the REAL threads (cooperative thread in Connection.send, sender thread in DeferredSender.run) under the forced
        # thread scheduler; the executed trace is translated into model actions and replayed through cstep
        for c in self._thread_cases(rng, tier): yield c

    partT_skipped = None
    max_steps_seen = 0

    def _thread_cases(self, rng, tier):
        import c20_threads
        try:
            c20_threads.env()
        except LookupError as e:
            # the trace translation of part T is keyed on the statement shapes of Connection.send / DeferredSender.run; on a
            # tree where they are shaped differently the real-thread runs cannot be translated into model actions.  Parts A and
            # B (which drive the same code sequentially and need no translation) still tie the model to this tree; say so in
            # the evidence instead of reporting a property violation nobody observed.
            self.partT_skipped = "part T (real-thread trace validation) not run on this tree: %s" % e
            common.log("C20: " + self.partT_skipped)
            return
        n = 60 if tier == "quick" else 10 ** 9
        for k, c in enumerate(c20_threads.thread_cases(rng, tier)):
            if k >= n: break
            yield {"part": "T", "tcase": c}

    def extra_evidence(self):
        return {"part_T_skipped": self.partT_skipped, "part_T_max_scheduling_steps": self.max_steps_seen, "part_T_step_budget": 20000}

    def _rout(self, rng):
        r = rng.random()
        if r < 0.45: return 0
        if r < 0.75: return {"o": "accept", "k": rng.randint(0, 8)}
        if r < 0.93: return 3
        return 4

    @staticmethod
    def _o(o):
        return OUTS[o] if isinstance(o, int) else o

    # ------------------------------------------------------------------ implementation
    def impl(self, case):
        if case["part"] == "T":
            import c20_threads
            r = c20_threads.run_thread_case(case["tcase"])
            o = dict(r["obs"]); o.update(status=("ok" if r["status"] == "quiescent" and not r["thread_errors"] else "T:" + r["status"] + ":" + ",".join(map(str, r["thread_errors"]))[:80]),
                                 acts=r["acts"], steps=r["steps"])
            # the forced scheduler's budget is a number of scheduling STEPS (deterministic, 20000; the cases need a few hundred on
            # a tree where the property holds — the largest count is kept in the evidence): threads that have not come to rest by
            # then are a send path that does not quiesce (a sender loop that never drains or never lets go), not a slow machine
            self.max_steps_seen = max(self.max_steps_seen, r["steps"] if isinstance(r["steps"], int) else len(r["steps"]))
            if r["status"] == "harness-budget": o["status"] = "T:runaway:the send path did not come to rest within the step budget"
            return o
        if case["part"] == "M": return self._impl_m(case)
        return self._impl_a(case) if case["part"] == "A" else self._impl_b(case)

    def _impl_a(self, case):
        iow = self.iow
        loop = iow.RecocoIOLoop()
        sock = ScriptSock()
        sock.ferr, sock.aerr = case.get("ferr", "EPIPE"), case.get("aerr", "EAGAIN")
        w = loop.new_worker(sock)
        closes = []
        w.close_handler = lambda worker: closes.append(1)
        g = loop.run()
        def answer(sel, rl, wl):
            # what the scheduler's select would do with this request: a socket that has been close()d is a bad file
            # descriptor, select raises, and the exception is thrown into the loop
            for lst in sel._args[:3]:
                for x in lst:
                    if getattr(getattr(x, "socket", None), "fd_closed", False):
                        return g.throw(OSError(errno.EBADF, "Bad file descriptor"))
            return g.send((rl, wl, []))
        shut_req = []                                   # bytes pending at each shutdown(send) request
        started = [False]                               # the loop's first pass (which registers the worker) happens at the first
        status = "ok"                                   # pump: sends and even a fatal send_fast error may precede it
        trace = []
        try:
            for op in case["ops"]:
                if op["op"] == "send":
                    sock.qsofar[0] += op["n"]
                    w.send(data(op["i"], op["n"]))
                elif op["op"] == "shutdown":
                    # IOWorker.shutdown(send): "finish writing, then shut the socket down for writing" (OFConnection.close)
                    shut_req.append(len(w.send_buf))
                    w.shutdown()
                elif op["op"] == "close":
                    # the application closes the worker (RecocoIOWorker.close): idempotent, reported once, nothing written after it
                    w.close()
                elif op["op"] == "sendfast":
                    sock.qsofar[0] += op["n"]
                    sock.script = [self._o(op["o"])] + [self._o(o) for o in op.get("more", [])]
                    w.send_fast(data(op["i"], op["n"]))
                    sock.script = []
                elif op["op"] == "pumprw":
                    # one pass in which select reports the worker readable AND writable: _do_recv first, then _do_send
                    if not started[0]:
                        started[0] = True; sel = next(g)
                    else:
                        sel = g.send(([], [], []))
                    rl, wl = sel._args[0], sel._args[1]
                    sock.script = [self._o(op["o"])] + [self._o(o) for o in op.get("more", [])]
                    sock.rxscript = [op["rx"]]
                    sel = answer(sel, [w] if w in rl else [], [w] if w in wl else [])
                    sock.script, sock.rxscript = [], []
                else:
                    # close commands queued by worker.close() run at the start of the next iteration, i.e. before the next select
                    if not started[0]:
                        started[0] = True; sel = next(g)
                    else:
                        sel = g.send(([], [], []))
                    rl, wl, xl = sel._args[0], sel._args[1], sel._args[2]
                    sock.script = [self._o(op["o"])] + [self._o(o) for o in op.get("more", [])]
                    sel = answer(sel, [], [w] if w in wl else [])
                    sock.script = []
                # the state after EVERY operation, not only the last (ties the over-time theorem ioworker_history)
                trace.append([len(sock.accepted), len(w.send_buf), int(bool(w.closed))])
        except StopIteration:
            status = "raise:nothing — the I/O loop serving every worker ended (select on a closed socket)"
        except Exception as e:
            status = "raise:" + type(e).__name__
        return {"accepted": sock.accepted.hex(), "send_buf": bytes(w.send_buf).hex(), "closed": bool(w.closed), "close_events": len(closes),
                "offered": sock.offered, "offered_after_fatal": sock.offered_after_fatal, "status": status,
                "shut_wr": sock.shut_wr, "shut_req": shut_req, "fatal_seen": sock.fatal_seen, "trace": trace}

    def _impl_b(self, case):
        of_01 = self.of_01
        old_ds, old_pb, old_select = of_01.deferredSender, of_01.PIPE_BUF, of_01.select
        core = poxenv.boot()
        core.addListeners = lambda *a, **k: None          # keep the per-case sender out of core's handler lists (fd/GC hygiene)
        try: ds = self.DS()
        finally: del core.addListeners
        of_01.deferredSender = ds
        of_01.PIPE_BUF = case["pb"]
        status, queued, trace = "ok", b"", []
        plan = {"lists": None, "calls": 0}
        class FakeSelect:
            error = OSError
            @staticmethod
            def select(r, w, x, t=None):
                plan["calls"] += 1
                if plan["calls"] > 1: raise StopLoop()
                want = plan["lists"]
                return ([], [c for c in want if c in w], [])
        of_01.select = FakeSelect
        try:
            s1, s2 = ScriptSock(), ScriptSock()
            for s_ in (s1, s2): s_.ferr, s_.aerr = case.get("ferr", "EPIPE"), case.get("aerr", "EAGAIN")
            con, con2 = of_01.Connection(s1), of_01.Connection(s2)      # each writes its hello
            hello = len(s1.accepted)
            # the connection counts as announced (ConnectionUp raised), so that losing it must be reported: exactly one
            # ConnectionDown on the nexus and one on the connection, whichever path noticed the fatal error
            downs = {"nexus": 0, "con": 0}
            class Nexus:
                def _disconnect(self, dpid, c=None): return True
                def raiseEventNoErrors(self, ev, *a, **k):
                    if getattr(ev, "__name__", "") == "ConnectionDown": downs["nexus"] += 1
            con.ofnexus = Nexus(); con.dpid = 1; con.connect_time = 1.0
            con.addListenerByName("ConnectionDown", lambda e: downs.__setitem__("con", downs["con"] + 1))
            def iteration(which, outs):
                plan["lists"], plan["calls"] = which, 0
                s1.script = [self._o(o) for o in outs]
                try: ds.run()
                except StopLoop: pass
                s1.script = []
            for op in case["ops"]:
                if op["op"] == "send":
                    d = data(op["i"], op["n"])
                    if not con.disconnected: queued += d
                    # "more" = what a second, third ... direct sock.send in the same Connection.send would get; the code as
                    # it is makes ONE direct attempt and hands the rest to the deferred sender, a "retry once" rewrite would ask
                    s1.script = [self._o(op["o"])] + [self._o(o) for o in op.get("more", [])]
                    con.send(d)
                    s1.script = []
                elif op["op"] == "send_raced":
                    d = data(op["i"], op["n"])
                    if not con.disconnected: queued += d
                    # the point between Connection.send's read of the `sending` flag and the (locked) enqueue: the entry of the
                    # deferred sender's send() — intercepted on the sender OBJECT, not through a log line of the code under test
                    ds_now = of_01.deferredSender
                    real_send = ds_now.send
                    def hook(*a, **k):
                        try: del ds_now.send                            # one shot: restore the class's method
                        except AttributeError: pass
                        iteration([con], op["outs"])
                        return real_send(*a, **k)
                    ds_now.send = hook
                    try: con.send(d)
                    finally:
                        try: del ds_now.send
                        except AttributeError: pass
                elif op["op"] == "flush":
                    iteration([con], op["outs"])
                elif op["op"] == "envenq":
                    s2.script = [{"o": "again"}]; con2.send(b"\x01\x02\x03"); s2.script = []
                else:
                    iteration([con2], [])
                # the state after EVERY whole operation (ties the over-time theorem ctl_history)
                trace.append([len(s1.accepted) - hello, sum(len(x) for x in ds._dataForConnection.get(con, [])),
                              int(bool(con.disconnected)), int(bool(ds.sending))])
            # what the serving task does with a connection it finds disconnected (its read returns False): con.close()
            if con.disconnected:
                con.close(); con.close()
        except Exception as e:
            status = "raise:" + type(e).__name__ + ":" + str(e)[:60]
        finally:
            of_01.deferredSender, of_01.PIPE_BUF, of_01.select = old_ds, old_pb, old_select
        pend = [bytes(x).hex() for x in ds._dataForConnection.get(con, [])]
        return {"accepted": s1.accepted[hello:].hex(), "pending": pend, "disc": bool(con.disconnected), "sending": bool(ds.sending),
                "offered_after_disc": s1.offered_after_fatal, "queued": queued.hex(), "status": status, "downs": [downs["nexus"], downs["con"]],
                "trace": trace}

    def _impl_m(self, case):
        """n real Connections over scripted sockets, ONE real DeferredSender whose thread body is driven by the harness"""
        of_01 = self.of_01
        old_ds, old_pb, old_select = of_01.deferredSender, of_01.PIPE_BUF, of_01.select
        core = poxenv.boot()
        core.addListeners = lambda *a, **k: None
        try: ds = self.DS()
        finally: del core.addListeners
        of_01.deferredSender = ds
        of_01.PIPE_BUF = case["pb"]
        n = case["n"]
        status, died, cwb = "ok", [None], [False]
        mtrace = []
        plan = {"want": [], "calls": 0, "refused": 0}
        class FakeSelect:
            """keeps select's contract: a closed socket (fileno() < 0) in any list is refused with ValueError, as by the real
            select.select; writable = the planned connections among those asked about, in the order asked"""
            error = OSError
            @staticmethod
            def select(r, w, x, t=None):
                for c in list(w) + list(x):
                    fd = c if isinstance(c, int) else c.fileno()
                    if fd < 0:
                        plan["refused"] += 1
                        if plan["refused"] > 3: raise StopLoop()        # a sender that keeps selecting on the same dead socket
                        raise ValueError("file descriptor cannot be a negative integer (%d)" % fd)
                plan["calls"] += 1
                if plan["calls"] > 1: raise StopLoop()
                return ([], [c for c in w if any(c is y for y in plan["want"])], [])
        of_01.select = FakeSelect
        socks, cons, queued, downs, hello = [], [], [], [], []
        try:
            for j in range(n):
                sk = MSock(j); sk.ferr, sk.aerr = case.get("ferr", "EPIPE"), case.get("aerr", "EAGAIN")
                socks.append(sk); cons.append(of_01.Connection(sk)); queued.append(b""); downs.append([0, 0]); hello.append(len(sk.accepted))
            def announce(j):
                class Nexus:
                    def _disconnect(self, dpid, c=None): return True
                    def raiseEventNoErrors(self, ev, *a, **k):
                        if getattr(ev, "__name__", "") == "ConnectionDown": downs[j][0] += 1
                cons[j].ofnexus = Nexus(); cons[j].dpid = j + 1; cons[j].connect_time = 1.0
                cons[j].addListenerByName("ConnectionDown", lambda e: downs[j].__setitem__(1, downs[j][1] + 1))
            for j in range(n): announce(j)
            def iteration(w):
                if died[0]: return                      # the sender thread is gone: nobody flushes any more
                plan["want"] = [cons[j] for j, _ in w] + [socks[j] for j, _ in w]
                plan["calls"], plan["refused"] = 0, 0
                for j, outs in w: socks[j].script = [self._o(o) for o in outs]
                try: ds.run()
                except StopLoop: pass
                except BaseException as e:              # an exception that leaves DeferredSender.run ends the thread
                    died[0] = "%s: %s" % (type(e).__name__, str(e)[:60])
                for j, _ in w: socks[j].script = []
            for op in case["ops"]:
                if op["op"] == "send":
                    j = op["c"]; d = data(op["i"], op["n"])
                    if not cons[j].disconnected: queued[j] += d
                    socks[j].script = [self._o(op["o"])] + [self._o(o) for o in op.get("more", [])]
                    cons[j].send(d)
                    socks[j].script = []
                elif op["op"] == "flush":
                    iteration([(j, outs) for j, outs in op["w"]])
                else:
                    j = op["c"]
                    # (for the finding key only) is a connection closed while bytes it queued are still unwritten?
                    if op["how"] == "close" and not socks[j].fatal_seen and len(queued[j]) > len(socks[j].accepted) - hello[j]: cwb[0] = True
                    if op["how"] == "close": cons[j].close()
                    else: cons[j].disconnect()
                # every connection's state after EVERY whole operation
                mtrace.append([[len(socks[k].accepted) - hello[k], sum(len(x) for x in ds._dataForConnection.get(cons[k], [])),
                                int(bool(cons[k].disconnected))] for k in range(n)] + [int(bool(ds.sending))])
            # what the serving task does with a connection it finds disconnected (its read returns False): con.close()
            for j in range(n):
                if cons[j].disconnected:
                    cons[j].close(); cons[j].close()
        except Exception as e:
            status = "raise:" + type(e).__name__ + ":" + str(e)[:60]
        finally:
            of_01.deferredSender, of_01.PIPE_BUF, of_01.select = old_ds, old_pb, old_select
        per = []
        for j in range(len(cons)):
            try: pend = [bytes(x).hex() for x in ds._dataForConnection.get(cons[j], [])]
            except Exception as e: pend = ["?" + type(e).__name__]
            per.append({"accepted": socks[j].accepted[hello[j]:].hex(), "pending": pend, "disc": bool(cons[j].disconnected),
                        "offered_after_disc": socks[j].offered_after_fatal, "queued": queued[j].hex(), "downs": downs[j]})
        return {"cons": per, "sending": bool(ds.sending), "status": status, "sender_died": died[0], "closed_with_backlog": cwb[0], "trace": mtrace}

    # ------------------------------------------------------------------ model
    def model_request2(self, case, obs):
        if case["part"] != "T" or "acts" not in obs: return None
        return {"part": "B", "pb": case["tcase"]["pb"], "acts": obs["acts"]}

    def model_request(self, case):
        if case["part"] == "T": return None
        if case["part"] == "A":
            ops = []
            for op in case["ops"]:
                if op["op"] == "send": ops.append({"op": "send", "d": data(op["i"], op["n"]).hex()})
                elif op["op"] == "sendfast": ops.append(dict(op="sendfast", d=data(op["i"], op["n"]).hex(), **self._o(op["o"])))
                elif op["op"] == "pumprw": ops.append(dict(op="pumprw", rx=op["rx"], **self._o(op["o"])))
                elif op["op"] == "shutdown": ops.append({"op": "shutdown"})
                elif op["op"] == "close": ops.append({"op": "close"})
                else: ops.append(dict(op="pump", **self._o(op["o"])))
            return {"part": "A", "ops": ops, "guard": self.guard_closed}
        if case["part"] == "M":
            ops = []
            for op in case["ops"]:
                if op["op"] == "send": ops.append(dict(op="send", c=op["c"], d=data(op["i"], op["n"]).hex(), **self._o(op["o"])))
                elif op["op"] == "flush": ops.append({"op": "flush", "w": [{"c": j, "outs": [self._o(o) for o in outs]} for j, outs in sorted(op["w"], key=lambda x: x[0])]})
                else: ops.append({"op": "disc", "c": op["c"], "close": op["how"] == "close"})
            return {"part": "M", "pb": case["pb"], "n": case["n"], "ops": ops}
        acts, total, marks = [], 0, []
        for op in case["ops"]:
            marks.append(len(acts))                       # (the mark of the PREVIOUS operation's end; shifted below)
            if op["op"] == "send":
                total += op["n"]
                acts += [{"a": "coopCheck", "d": data(op["i"], op["n"]).hex()}, dict(a="coopGo", **self._o(op["o"])), {"a": "coopEnq"}]
            elif op["op"] == "send_raced":
                total += op["n"]
                acts += [{"a": "coopCheck", "d": data(op["i"], op["n"]).hex()}, {"a": "coopGo", "o": "again"}, {"a": "senderBegin"}]
                acts += [dict(a="senderSend", **self._o(o)) for o in op["outs"]]
                acts += [{"a": "senderSend", "o": "accept", "k": 1 << 30}] * (total + 2) + [{"a": "senderFinish"}, {"a": "coopEnq"}]
            elif op["op"] == "flush":
                acts.append({"a": "senderBegin"})
                acts += [dict(a="senderSend", **self._o(o)) for o in op["outs"]]
                acts += [{"a": "senderSend", "o": "accept", "k": 1 << 30}] * (total + 2)   # script exhausted = accept everything, until the queue is empty
                acts.append({"a": "senderFinish"})
            elif op["op"] == "envenq": acts.append({"a": "envEnq"})
            else: acts.append({"a": "envDone", "reset": True})
        marks = marks[1:] + [len(acts)]                   # number of actions done when each whole operation has ended
        return {"part": "B", "pb": case["pb"], "acts": acts, "marks": marks}

    def impl_view(self, case, obs):
        if case["part"] == "A":
            # a run that raised stopped early: its trace is compared as far as it got
            v = {k: obs[k] for k in ("accepted", "send_buf", "closed", "close_events", "offered", "shut_wr")}
            v["trace"] = obs["trace"]
            return v
        if case["part"] == "M":
            return {"views": [dict({k: c[k] for k in ("accepted", "pending", "disc", "offered_after_disc")}, sending=obs["sending"]) for c in obs["cons"]],
                    "trace": obs["trace"]}
        v = {k: obs[k] for k in ("accepted", "pending", "disc", "sending", "offered_after_disc")}
        if case["part"] == "B": v["trace"] = obs["trace"]
        return v

    def model_obs(self, case, resp):
        if "error" in resp: return resp
        if case["part"] == "M":
            return {"views": [{k: v[k] for k in ("accepted", "pending", "disc", "offered_after_disc", "sending")} for v in resp["views"]],
                    "trace": resp["trace"]}
        keys = ("accepted", "send_buf", "closed", "close_events", "offered", "shut_wr", "trace") if case["part"] == "A" else ("accepted", "pending", "disc", "sending", "offered_after_disc")
        v = {k: resp[k] for k in keys}
        if case["part"] == "B": v["trace"] = resp["trace"]
        return v

    # ------------------------------------------------------------------ the property on the implementation
    def oracle(self, case, obs):
        if obs["status"] != "ok": return "send path raised " + obs["status"].split(":")[1] if case["part"] != "T" else "threads: " + obs["status"]
        if case["part"] == "A":
            queued, dead = b"", False
            for op in case["ops"]:
                if op["op"] in ("send", "sendfast"): queued += data(op["i"], op["n"])
            acc, buf = bytes.fromhex(obs["accepted"]), bytes.fromhex(obs["send_buf"])
            if not queued.startswith(acc): return "socket accepted bytes that are not a prefix of the queued stream"
            for wrote, qd in obs.get("shut_wr", []):
                # shutdown(send) means "after what is queued has been written": shutting the socket down for writing while
                # queued bytes are unwritten loses them
                if wrote < qd and not obs["fatal_seen"]: return "socket shut down for writing with %d queued byte(s) unwritten" % (qd - wrote)
            if obs.get("shut_req") and max(obs["shut_req"]) > 0 and not obs["closed"] and not obs["fatal_seen"] and buf == b"" and not obs["shut_wr"]:
                return "shutdown(send) requested with data pending, the data was written, but the socket was never shut down for writing"
            if not obs["closed"] and acc + buf != queued: return "open worker: accepted + buffered != queued (lost/duplicated/reordered)"
            if not obs["closed"] and buf == b"" and acc != queued: return "quiescent but not everything was written"
            if obs["offered_after_fatal"]: return "write attempted after a fatal socket error"
            if obs["close_events"] != (1 if obs["closed"] else 0): return "close reported %d times" % obs["close_events"]
            return None
        if case["part"] == "M": return self._oracle_m(case, obs)
        acc, queued = bytes.fromhex(obs["accepted"]), bytes.fromhex(obs["queued"])
        if not queued.startswith(acc): return "socket accepted bytes that are not a prefix of the queued stream"
        pend = b"".join(bytes.fromhex(p) for p in obs["pending"])
        if not obs["disc"] and acc + pend != queued: return "live connection: accepted + deferred != queued (lost/duplicated/reordered)"
        if "downs" in obs:
            want = [1, 1] if obs["disc"] else [0, 0]
            if obs["downs"] != want: return "connection reported closed %s times (nexus, connection), expected %s" % (obs["downs"], want)
        # all parts, real threads included (theorem ctl_no_attempt_after_fatal; the raced-send interleaving of former finding
        # C20-R1 is in the corpus and is reached by the random part-T schedules as well)
        if obs["offered_after_disc"]: return "write attempted after a fatal socket error"
        return None

    def _oracle_m(self, case, obs):
        """the property, for every one of the connections that share the deferred sender"""
        ops, n = case["ops"], case["n"]
        # did the history end with a sender pass in which every connection was writable and its socket took everything?
        drained = bool(ops) and ops[-1]["op"] == "flush" and sorted(j for j, _ in ops[-1]["w"]) == list(range(n)) and all(not outs for _, outs in ops[-1]["w"])
        for j, c in enumerate(obs["cons"]):
            acc, queued = bytes.fromhex(c["accepted"]), bytes.fromhex(c["queued"])
            who = " (connection %d of %d)" % (j, n)
            if not queued.startswith(acc): return "socket accepted bytes that are not a prefix of the queued stream" + who
            try: pend = b"".join(bytes.fromhex(p) for p in c["pending"])
            except ValueError: pend = None
            if not c["disc"]:
                if pend is None or acc + pend != queued: return "live connection: accepted + deferred != queued (lost/duplicated/reordered)" + who
                if drained and pend:
                    return ("live connection: queued bytes are never written - still deferred after a sender pass in which its socket was writable and took everything"
                            + who + (" [the sender thread ended: %s]" % obs["sender_died"] if obs["sender_died"] else ""))
            if c["downs"] != ([1, 1] if c["disc"] else [0, 0]):
                return "connection reported closed %s times (nexus, connection), expected %s" % (c["downs"], [1, 1] if c["disc"] else [0, 0]) + who
            if c["offered_after_disc"]: return "write attempted after a fatal socket error" + who
        return None

    def finding_key(self, case, obs, failure):
        if case["part"] == "M":
            return "M" + (":closed-with-backlog" if obs.get("closed_with_backlog") else "") + ":" + failure.split(" (connection ")[0][:70]
        raced = ":raced-send" if any(op["op"] == "send_raced" for op in case.get("ops", [])) else ""
        return case["part"] + raced + ":" + failure[:60]

    def nontrivial(self, case, obs):
        if case["part"] == "T": return len(case["tcase"]["outs"]) > 0
        if case["part"] == "M":
            for op in case["ops"]:
                if op["op"] == "disc": return True
                for o in ([op["o"]] if op["op"] == "send" else [o for _, outs in op["w"] for o in outs]):
                    o = self._o(o)
                    if o["o"] != "accept" or o["k"] < 1 << 20: return True
            return False
        for op in case["ops"]:
            for o in ([op["o"]] if "o" in op else op.get("outs", [])) if op["op"] != "send_raced" else [4]:
                o = self._o(o)
                if o["o"] != "accept" or o["k"] < 1 << 20: return True
        return False


CHECK = C20
