"""C15 helper — hand-written wire-format builders for a corpus of VALID frames covering all 21 modules of pox.lib.packet.

Independent of the library's own pack() (which cannot serialise DHCP options, DNS records, NDP, IPv6 extension headers: D45-D48).
Every builder returns an `MB` (bytes + `marks`): `marks` are the offsets of header starts, type/length fields, header-length nibbles,
option/TLV length octets and DNS compression pointers — the "boundary offsets" that get all 256 values in the corruption sweep.
"""
import struct


class MB(bytes):
    """bytes + `marks` (boundary offsets: all 256 values, sliced in the quick tier) + `keys` (protocol selectors, type / code /
    length fields, option kind and length octets: all 256 values in BOTH tiers; keys are marks too)"""
    def __new__(cls, b=b"", marks=(), keys=(), groups=None):
        o = bytes.__new__(cls, b)
        o.keys = tuple(sorted(set(m for m in keys if 0 <= m < len(b))))
        o.marks = tuple(sorted(set(m for m in tuple(marks) + tuple(keys) if 0 <= m < len(b))))
        # the keys grouped by header, outermost first (a header built with H() is one group)
        o.groups = tuple(groups) if groups is not None else ((o.keys,) if o.keys else ())
        return o

    @property
    def inner_keys(self):
        """keys of the innermost header that has any"""
        return self.groups[-1] if self.groups else ()


def cat(*parts):
    out = b""; marks = []; keys = []; groups = []
    for p in parts:
        marks += [len(out) + m for m in getattr(p, "marks", ())]
        keys += [len(out) + m for m in getattr(p, "keys", ())]
        groups += [tuple(len(out) + m for m in g) for g in getattr(p, "groups", ())]
        out += bytes(p)
    return MB(out, marks, keys, groups)


def H(b, *marks, keys=()):
    """a header: its first byte is a boundary, plus the listed offsets"""
    return MB(b, (0,) + tuple(marks), keys)


def rfc1071(data):
    if len(data) % 2: data = data + b"\0"
    s = 0
    for i in range(0, len(data), 2):
        s += (data[i] << 8) | data[i + 1]
    while s >> 16:
        s = (s & 0xffff) + (s >> 16)
    return (~s) & 0xffff


MAC_A = bytes.fromhex("02a1b2c3d4e5")
MAC_B = bytes.fromhex("66778899aabb")
BCAST = b"\xff" * 6


def eth(typ, payload, dst=MAC_B, src=MAC_A):
    return cat(H(dst + src + struct.pack("!H", typ), keys=(12, 13)), payload)


def vlan(typ, payload, pcp=5, cfi=0, vid=0xabc):
    return cat(H(struct.pack("!HH", (pcp << 13) | (cfi << 12) | vid, typ), keys=(2, 3)), payload)


def llc(dsap, ssap, ctrl, payload, two=False):
    h = bytes([dsap, ssap, ctrl & 0xff]) + (bytes([ctrl >> 8]) if two else b"")
    return cat(H(h, keys=(0, 1, 2)), payload)


def snap(oui, typ, payload, ctrl=3, dsap=0xaa, ssap=0xaa, two=False):
    """LLC + SNAP; `two` = two-octet control field (I/S format: bit 0 of the first control octet clear, or low bits 01)"""
    c = bytes([ctrl & 0xff]) + (bytes([ctrl >> 8]) if two else b"")
    n = 3 + len(c)
    return cat(H(bytes([dsap, ssap]) + c + oui + struct.pack("!H", typ), 3, n, n + 1, n + 2, keys=(0, 1, 2, n + 3, n + 4)), payload)


def arp(op=1, hwtype=1, ptype=0x0800, hwlen=6, plen=4, sha=MAC_A, spa=0x0a000001, tha=b"\0" * 6, tpa=0x0a000002, trail=b""):
    return cat(H(struct.pack("!HHBBH", hwtype, ptype, hwlen, plen, op) + sha + struct.pack("!I", spa) + tha + struct.pack("!I", tpa),
                 keys=(1, 3, 4, 5, 7)), trail)


def opt_keys(opts, base, single=(0, 1)):
    """offsets (from `base`) of the kind and length octets of a TLV option area (kinds in `single` are one octet), plus its last 4 octets"""
    ks = set(range(max(0, len(opts) - 4), len(opts))); i = 0
    while i < len(opts):
        ks.add(i)
        if opts[i] in single: i += 1; continue
        if i + 1 >= len(opts): break
        ks.add(i + 1)
        i += max(2, opts[i + 1])
    return tuple(base + k for k in sorted(ks))


def ip4(proto, payload, opts=b"", frag=0, flags=2, iplen=None, ttl=64, src=0x0a010203, dst=0xc0a80001, trail=b"", tos=0, ident=0x1234):
    hl = 5 + len(opts) // 4
    tot = 20 + len(opts) + len(payload) if iplen is None else iplen
    h = struct.pack("!BBHHHBBHII", 0x40 | hl, tos, tot, ident, (flags << 13) | frag, ttl, proto, 0, src, dst) + opts
    h = h[:10] + struct.pack("!H", rfc1071(h)) + h[12:]
    return cat(H(h, 7, *range(20, 20 + len(opts)), keys=(0, 2, 3, 6, 9) + opt_keys(opts, 20)), payload, trail)


def udp(sp, dp, payload, ulen=None):
    return cat(H(struct.pack("!HHHH", sp, dp, 8 + len(payload) if ulen is None else ulen, 0), keys=(0, 1, 2, 3, 4, 5)), payload)


def tcp(sp, dp, payload, opts=b"", flags=0x18, off=None):
    pad = (-len(opts)) % 4
    o = opts + b"\0" * pad
    off = (20 + len(o)) // 4 if off is None else off
    h = struct.pack("!HHIIBBHHH", sp, dp, 0x01020304, 0xfffefdfc, off << 4, flags, 8192, 0, 0) + o
    return cat(H(h, 13, *range(20, 20 + len(o)), keys=(12,) + opt_keys(o, 20)), payload)


def icmp(typ, code, rest):
    b = bytes(rest)
    h = struct.pack("!BBH", typ, code, rfc1071(struct.pack("!BBH", typ, code, 0) + b))
    return cat(H(h, keys=(0, 1)), rest)


def echo(ident, seq, data):
    return cat(H(struct.pack("!HH", ident, seq)), data)


def unreach(mtu, quoted):
    return cat(H(struct.pack("!HH", 0, mtu), 2), quoted)


def timeex(quoted):
    return cat(H(struct.pack("!I", 0)), quoted)


def tlv(t, body):
    return H(struct.pack("!H", (t << 9) | len(body)) + body, 2, keys=(0, 1))


def lldp_full():
    return cat(tlv(1, b"\x04" + MAC_A), tlv(2, b"\x02" + b"7"), tlv(3, struct.pack("!H", 120)), tlv(4, b"eth7"), tlv(5, b"sw1"),
               tlv(6, b"dpid:0000000000000007"), tlv(7, struct.pack("!HH", 0x0014, 0x0004)),
               tlv(8, bytes([5, 1]) + bytes([10, 0, 0, 7]) + bytes([2]) + struct.pack("!L", 7) + bytes([3]) + b"\x2b\x06\x01"),
               tlv(127, b"\x00\x26\xe1" + b"\x00" + b"payload"), tlv(9, b"unk"), tlv(0, b""))


def lldp_discovery():
    # what pox.openflow.discovery sends: chassis (local, 'dpid:…'), port id (port), ttl, system description, end
    return cat(tlv(1, b"\x07" + b"dpid:1"), tlv(2, b"\x02" + b"3"), tlv(3, struct.pack("!H", 120)), tlv(6, b"dpid:0000000000000001"), tlv(0, b""))


IP6_A = bytes.fromhex("fe80000000000000020000fffe000001")
IP6_B = bytes.fromhex("ff0200000000000000000001ff000002")


def ip6(nh, payload, plen=None, src=IP6_A, dst=IP6_B, hop=64):
    return cat(H(struct.pack("!IHBB", (6 << 28) | (0x12 << 20) | 0x34567, len(payload) if plen is None else plen, nh, hop) + src + dst,
                 keys=(4, 5, 6)), payload)


def ext(nh, body):
    """normal IPv6 extension header: nh, len (8-octet units beyond the first 8), body padded"""
    n = (len(body) + 2 + 7) // 8 * 8
    b = body + b"\0" * (n - 2 - len(body))
    return H(bytes([nh, n // 8 - 1]) + b, keys=(0, 1))


def frag6(nh):
    return H(bytes([nh, 0]) + struct.pack("!HI", 0x0001, 0xdeadbeef), 1)


def icmp6_csum(src, dst, msg):
    """RFC 4443 §2.3: pseudo-header (src, dst, upper-layer length, 58) + message with a zero checksum field"""
    return rfc1071(src + dst + struct.pack("!IHBB", len(msg), 0, 0, 58) + msg[:2] + b"\0\0" + msg[4:])


def icmp6(typ, code, rest, src=IP6_A, dst=IP6_B):
    msg = struct.pack("!BBH", typ, code, 0) + bytes(rest)
    return cat(H(struct.pack("!BBH", typ, code, icmp6_csum(src, dst, msg)), keys=(0, 1)), rest)


def fix_icmp6(frame):
    """recompute the ICMPv6 checksum of an Ethernet/IPv6(no extension header)/ICMPv6 frame after a mutation (None if not such a frame)"""
    b = bytes(frame)
    if len(b) < 58 or b[12:14] != b"\x86\xdd" or b[20] != 58: return None
    plen = min(struct.unpack("!H", b[18:20])[0], len(b) - 54)      # what ipv6.parse hands to icmpv6 (clamped to the buffer)
    msg = b[54:54 + plen]
    if len(msg) < 4: return None
    c = icmp6_csum(b[22:38], b[38:54], msg)
    return b[:56] + struct.pack("!H", c) + b[58:]


def igmp_csum(msg):
    """what igmp.parse recomputes (igmp.py:113-147): v3 reports with both reserved fields zeroed, the other types over type, max-resp, address"""
    if msg[0] == 0x22: return rfc1071(bytes([msg[0], 0, 0, 0, 0, 0]) + msg[6:])
    return rfc1071(msg[:2] + b"\0\0" + msg[4:])


def fix_checksums(frame):
    """After a mutation, recompute the checksums a parser verifies before it looks further — IGMP (igmp.parse) and ICMPv6 (icmpv6.parse) — and,
    for realism, the IPv4 header checksum, of an Ethernet[/802.1Q…]/IPv4|IPv6 frame.  Returns the repaired frame (possibly identical)."""
    b = bytearray(frame)
    if len(b) < 14: return bytes(b)
    off = 14; typ = (b[12] << 8) | b[13]
    while typ == 0x8100 and len(b) >= off + 4:
        typ = (b[off + 2] << 8) | b[off + 3]; off += 4
    if typ == 0x0800 and len(b) >= off + 20:
        hl = (b[off] & 15) * 4
        if hl < 20 or off + hl > len(b): return bytes(b)
        b[off + 10:off + 12] = b"\0\0"
        b[off + 10:off + 12] = struct.pack("!H", rfc1071(bytes(b[off:off + hl])))
        tot = (b[off + 2] << 8) | b[off + 3]
        end = min(off + tot, len(b)); l4 = off + hl
        if b[off + 9] == 2 and (b[off + 6] & 0x1f) == 0 and b[off + 7] == 0 and end - l4 >= 8:
            b[l4 + 2:l4 + 4] = struct.pack("!H", igmp_csum(bytes(b[l4:end])))
        return bytes(b)
    if typ == 0x86dd and off == 14:
        return fix_icmp6(bytes(b)) or bytes(b)
    return bytes(b)


def ndopt(t, body):
    n = (len(body) + 2 + 7) // 8
    return H(bytes([t, n]) + body + b"\0" * (n * 8 - 2 - len(body)), keys=(0, 1))


def mpls(label, s, payload, tc=3, ttl=64):
    return cat(H(struct.pack("!HBB", label >> 4, ((label & 0xf) << 4) | (tc << 1) | s, ttl), keys=(2,)), payload)


def gre(typ, payload, csum=False, key=None, seq=None, routing=None, ver=0):
    fl = (0x8000 if csum else 0) | (0x4000 if routing is not None else 0) | (0x2000 if key is not None else 0) | (0x1000 if seq is not None else 0) | ver
    h = struct.pack("!HH", fl, typ)
    if csum or routing is not None: h += struct.pack("!HH", 0, 0)
    if key is not None: h += struct.pack("!I", key)
    if seq is not None: h += struct.pack("!I", seq)
    marks = [0, 1, 2, 3]
    if routing is not None:
        for af, so, sd in routing:
            marks.append(len(h) + 3)
            h += struct.pack("!HBB", af, so, len(sd)) + sd
        marks.append(len(h) + 3)
        h += struct.pack("!HBB", 0, 0, 0)
    if csum:
        c = rfc1071(h + bytes(payload))
        h = h[:4] + struct.pack("!H", c) + h[6:]
    return cat(H(h, keys=marks), payload)


def vxlan(vni, payload, flags=8):
    return cat(H(bytes([flags, 0, 0, 0]) + struct.pack("!I", vni << 8), keys=(0,)), payload)


def igmp2(vt, mrt, addr, extra=b""):
    b = struct.pack("!BBHI", vt, mrt, 0, addr) + extra
    return H(b[:2] + struct.pack("!H", rfc1071(b)) + b[4:], keys=(0, 1))


def igmp3(groups, extra=b""):
    g = b""; marks = [6, 7]
    for t, addr, srcs, aux in groups:
        marks += [8 + len(g), 8 + len(g) + 1, 8 + len(g) + 2, 8 + len(g) + 3]
        g += struct.pack("!BBHI", t, len(aux) // 4, len(srcs), addr) + b"".join(struct.pack("!I", s) for s in srcs) + aux
    b = struct.pack("!BBHHH", 0x22, 0, 0, 0, len(groups)) + g + extra
    return H(b[:2] + struct.pack("!H", rfc1071(b)) + b[4:], keys=[0, 1] + marks)


def rip(cmd, ver, entries):
    b = struct.pack("!BBH", cmd, ver, 0)
    for af, tag, ipa, mask, nh, metric in entries:
        b += struct.pack("!HHIIII", af, tag, ipa, mask, nh, metric)
    return H(b, *range(4, len(b), 20), keys=(0, 1, 2, 3))


def dhcp(op, options, hlen=6, magic=b"\x63\x82\x53\x63", sname=b"", file=b"", optkeys=False):
    b = struct.pack("!BBBBIHHIIII", op, 1, hlen, 0, 0x3903f326, 0, 0x8000, 0, 0x0a000064, 0x0a000001, 0)
    b += (MAC_A + b"\0" * 10) + sname.ljust(64, b"\0") + file.ljust(128, b"\0") + magic
    marks = [2, 236, 237, 238, 239]
    for code, val in options:
        marks += [len(b), len(b) + 1]
        b += bytes([code]) if code in (0, 255) else bytes([code, len(val)]) + val
    # optkeys: only the option code / length octets are key offsets (the fixed part is swept on other frames)
    return H(b, keys=marks[6::2] + marks[5:6] if optkeys == "len" else marks[5:] if optkeys else [0, 1] + marks)


def dname(*labels):
    return b"".join(bytes([len(l)]) + l for l in labels) + b"\0"


def dns(ident, flags, qs, ans=(), auth=(), add=(), counts=None, namekeys=False):
    """qs: [(namebytes, qtype, qclass)], rr: [(namebytes, type, class, ttl, rdata)] — names given in wire form (may contain pointers).
    namekeys: the label-length / pointer octets, the record type and the rdlength octets are key offsets too (small frames)"""
    q, a, au, ad = counts or (len(qs), len(ans), len(auth), len(add))
    b = struct.pack("!HHHHHH", ident, flags, q, a, au, ad)
    # the header octets are key offsets of the plain frames; the name-decompression frames sweep the name / type / rdlength octets instead
    marks = []; keys = [] if namekeys else [2, 3, 4, 5, 6, 7, 8, 9, 10, 11]
    if namekeys == "counts": keys = [5, 7, 9, 11]
    if namekeys == "none": namekeys = False; keys = [5]          # (one key keeps the sweep inside this header)

    def name_offsets(n, base):
        out = []; i = 0
        while i < len(n):
            out.append(base + i)
            if n[i] & 0xc0 == 0xc0: out.append(base + i + 1); i += 2
            elif n[i] == 0: break
            else: i += 1 + n[i]
        return out
    for n, t, c in qs:
        no = name_offsets(n, len(b))
        marks += no[:6]
        if namekeys: keys += no + [len(b) + len(n) + 1]
        b += n + struct.pack("!HH", t, c)
    for n, t, c, ttl, rd in list(ans) + list(auth) + list(add):
        marks += [len(b), len(b) + 1, len(b) + len(n) + 1, len(b) + len(n) + 8, len(b) + len(n) + 9, len(b) + len(n) + 10, len(b) + len(n) + 11]
        if namekeys == "rr":             # a frame with many records: only the type and rdlength octets and the names inside the record data
            keys += [len(b) + len(n) + 1, len(b) + len(n) + 9]
        elif namekeys:
            keys += name_offsets(n, len(b)) + [len(b) + len(n) + 1, len(b) + len(n) + 8, len(b) + len(n) + 9]
            if t in (2, 5, 12): keys += name_offsets(rd, len(b) + len(n) + 10)
            if t == 15: keys += name_offsets(rd[2:], len(b) + len(n) + 12)
        b += n + struct.pack("!HHIH", t, c, ttl, len(rd)) + rd
    return H(b, *marks, keys=keys)


def eapol(ver, typ, body, blen=None):
    return cat(H(struct.pack("!BBH", ver, typ, len(body) if blen is None else blen), keys=(1, 2, 3)), body)


def eap(code, ident, data=b"", length=None):
    return H(struct.pack("!BBH", code, ident, 4 + len(data) if length is None else length) + data, keys=(0, 2, 3, 4))


def corpus():
    """ordered list of (name, MB) — at least one valid frame for every parser class and every branch of its parse()"""
    F = []
    add = lambda n, f: F.append((n, f))
    quoted_udp = ip4(17, udp(1000, 2000, b"\x01\x02\x03\x04\x05\x06\x07\x08"))
    quoted_tcp8 = ip4(6, struct.pack("!HHI", 1000, 80, 7), iplen=60)
    add("eth-raw", eth(0x9999, b"opaque payload"))
    add("eth-min", eth(0x0600, b""))
    add("arp-req", eth(0x0806, arp(1), dst=BCAST))
    add("rarp-pad", eth(0x8035, arp(3, trail=b"\0" * 18)))
    add("vlan-ip-udp", eth(0x8100, vlan(0x0800, ip4(17, udp(1000, 2000, b"abc")))))
    add("qinq-arp", eth(0x8100, vlan(0x8100, vlan(0x0806, arp(2), cfi=0), cfi=1)))
    add("vlan-raw", eth(0x8100, vlan(0x9100, b"zz")))
    add("llc-stp", eth(38, llc(0x42, 0x42, 3, b"\0" * 35)))
    add("llc-iframe", eth(10, llc(0xe0, 0xe0, 0x1234 & 0xfffe, b"novell", two=True)))
    add("llc-sframe", eth(4, llc(0xfe, 0xfe, 0x0501, b"", two=True)))
    add("snap-ip-udp", eth(44, snap(b"\0\0\0", 0x0800, ip4(17, udp(7, 9, b"snap")))))
    add("snap-arp", eth(36, snap(b"\0\0\0", 0x0806, arp(1))))
    add("snap-oui", eth(20, snap(b"\x00\x00\x0c", 0x2000, b"cdp-like data")))
    add("snap-vlan", eth(30, snap(b"\0\0\0", 0x8100, vlan(0x9999, b"inner"))))
    add("snap-small-type", eth(16, snap(b"\0\0\0", 0x0100, b"no llc here")))
    # LLC/SNAP with a TWO-octet control field (9-byte LLC+SNAP header), both SAP spellings (0xAA / 0xAB), zero and non-zero OUI
    add("snap2-ip-udp", eth(45, snap(b"\0\0\0", 0x0800, ip4(17, udp(7, 9, b"snap")), ctrl=0x0300, two=True)))
    add("snap2-ab-arp", eth(37, snap(b"\0\0\0", 0x0806, arp(1), ctrl=0x0102, dsap=0xaa, ssap=0xab, two=True)))
    add("snap2-oui", eth(21, snap(b"\x08\x00\x07", 0x809b, b"appletalk...", ctrl=0x0004, dsap=0xab, ssap=0xab, two=True)))
    add("snap2-bare", eth(9, snap(b"\0\0\0", 0x9999, b"", ctrl=0x0000, two=True)))
    add("snap-ab", eth(8, snap(b"\0\0\0", 0x9999, b"", ctrl=3, dsap=0xab, ssap=0xaa)))
    add("llc-half-snap", eth(12, llc(0x42, 0xaa, 3, b"ssap only")))
    add("ip-raw", eth(0x0800, ip4(253, b"experimental")))
    add("ip-opts", eth(0x0800, ip4(253, b"abc", opts=bytes.fromhex("0101010144040500"))))
    add("ip-frag", eth(0x0800, ip4(17, b"fragment data..", frag=185, flags=1)))
    add("ip-padded", eth(0x0800, ip4(17, udp(5000, 5001, b"hi"), trail=b"\0" * 16)))
    add("ip-short", eth(0x0800, ip4(253, b"abcdef", iplen=40)))
    add("udp", eth(0x0800, ip4(17, udp(1000, 2000, b"hello world"))))
    add("udp-shortlen", eth(0x0800, ip4(17, udp(1000, 2000, b"hello world", ulen=40))))
    add("udp-len7", eth(0x0800, ip4(17, udp(1000, 2000, b"x", ulen=7))))
    add("tcp", eth(0x0800, ip4(6, tcp(1000, 80, b"GET /"))))
    topts = (bytes([2, 4, 5, 0xb4]) + bytes([1]) + bytes([3, 3, 7]) + bytes([4, 2]) + bytes([8, 10]) + struct.pack("!II", 3, 4)
             + bytes([5, 10]) + struct.pack("!II", 1, 2) + bytes([77, 4, 0x78, 0x79]) + bytes([1, 0]))
    add("tcp-opts", eth(0x0800, ip4(6, tcp(1000, 80, b"data", opts=topts, flags=0x12))))
    add("tcp-sack2", eth(0x0800, ip4(6, tcp(80, 1000, b"", opts=bytes([1, 1, 5, 18]) + struct.pack("!IIII", 1, 2, 3, 4)))))
    add("tcp-mptcp", eth(0x0800, ip4(6, tcp(1000, 80, b"", opts=bytes([30, 12, 0x00, 0x81]) + b"\x11" * 8, flags=0x02))))
    add("tcp-mpjoin", eth(0x0800, ip4(6, tcp(1000, 80, b"", opts=bytes([30, 12, 0x10, 0x05]) + b"\x22" * 8, flags=0x02))))
    add("tcp-mpdss", eth(0x0800, ip4(6, tcp(1000, 80, b"x", opts=bytes([30, 8, 0x20, 0x01]) + b"\x33" * 4))))
    # realistic payload-less handshake segments (option layouts of Linux, Windows, macOS, an MPTCP SYN)
    ts = bytes([8, 10]) + struct.pack("!II", 0x00112233, 0)
    add("tcp-syn-linux", eth(0x0800, ip4(6, tcp(40000, 443, b"", opts=bytes([2, 4, 5, 0xb4, 4, 2]) + ts + bytes([1, 3, 3, 7]), flags=0x02))))
    add("tcp-synack-linux", eth(0x0800, ip4(6, tcp(443, 40000, b"", opts=bytes([2, 4, 5, 0xb4, 4, 2]) + ts + bytes([1, 3, 3, 7]), flags=0x12))))
    add("tcp-syn-win", eth(0x0800, ip4(6, tcp(50000, 80, b"", opts=bytes([2, 4, 5, 0xb4, 1, 3, 3, 8, 1, 1, 4, 2]), flags=0x02))))
    add("tcp-syn-mac", eth(0x0800, ip4(6, tcp(50001, 80, b"", opts=bytes([2, 4, 5, 0xb4, 1, 3, 3, 6, 1, 1]) + ts + bytes([4, 2, 0, 0]), flags=0x02))))
    add("tcp-ack-ts", eth(0x0800, ip4(6, tcp(50001, 80, b"", opts=bytes([1, 1]) + ts, flags=0x10))))
    add("tcp-syn-mptcp", eth(0x0800, ip4(6, tcp(40001, 443, b"", opts=bytes([2, 4, 5, 0xb4, 4, 2]) + ts + bytes([1, 3, 3, 7, 30, 12, 0x00, 0x81]) + b"\x11" * 8, flags=0x02))))
    add("icmp-echo", eth(0x0800, ip4(1, icmp(8, 0, echo(7, 9, b"ping data")))))
    add("icmp-reply", eth(0x0800, ip4(1, icmp(0, 0, echo(7, 9, b"")))))
    add("icmp-unreach", eth(0x0800, ip4(1, icmp(3, 4, unreach(1400, quoted_udp)))))
    add("icmp-unreach-short", eth(0x0800, ip4(1, icmp(3, 1, unreach(0, b"\x45\x00\x00\x14")))))
    add("icmp-timeex", eth(0x0800, ip4(1, icmp(11, 0, timeex(quoted_tcp8)))))
    add("icmp-nested", eth(0x0800, ip4(1, icmp(3, 1, unreach(0, ip4(1, icmp(11, 0, timeex(quoted_udp))))))))
    add("icmp-other", eth(0x0800, ip4(1, icmp(13, 0, b"\x01\x02\x03\x04\x05"))))
    add("lldp-full", eth(0x88cc, lldp_full(), dst=bytes.fromhex("0180c200000e")))
    add("lldp-discovery", eth(0x88cc, lldp_discovery(), dst=bytes.fromhex("0180c200000e")))
    # text-typed fields with bytes that are not ASCII / not UTF-8 (whoever prints or decodes them must cope with every byte value):
    # chassis / port id strings, port description, system name, system description (the discovery handler reads "dpid:…" lines from it)
    NDP_MC = bytes.fromhex("012320000001")          # pkt.ETHERNET.NDP_MULTICAST: the destination pox.openflow.discovery sends to and listens on
    add("lldp-discovery-pox", eth(0x88cc, lldp_discovery(), dst=NDP_MC))
    add("lldp-full-pox", eth(0x88cc, lldp_full(), dst=NDP_MC))
    T = lambda t, body, k: H(struct.pack("!H", (t << 9) | len(body)) + body, 2, keys=(0, 1, 2 + k))      # key: one byte of the text
    add("lldp-text-nonascii", eth(0x88cc, cat(T(1, b"\x07" + b"dpid:\xff\xfe", 6), T(2, b"\x07" + b"\xc3\x28", 1), tlv(3, struct.pack("!H", 120)),
                                             T(4, b"\xe9t\xe9", 0), T(5, b"sw\xff\xc0", 2), T(6, b"\x80\x81 dpid:1", 0), tlv(0, b"")), dst=NDP_MC))
    add("lldp-sysdesc-utf8", eth(0x88cc, cat(tlv(1, b"\x07" + b"dpid:1"), tlv(2, b"\x02" + b"3"), tlv(3, struct.pack("!H", 120)),
                                            T(6, "dpid:1\nsw\u00e9\u20ac".encode(), 7), tlv(0, b"")), dst=NDP_MC))
    add("lldp-sysdesc-latin1", eth(0x88cc, cat(tlv(1, b"\x07" + b"dpid:1"), tlv(2, b"\x02" + b"3"), tlv(3, struct.pack("!H", 120)),
                                              T(6, b"caf\xe9\ndpid:1", 3), tlv(0, b"")), dst=NDP_MC))
    add("lldp-chassis-nonhex", eth(0x88cc, cat(T(1, b"\x07" + b"dpid:\xd9\xa1\xd9\xa2", 6), tlv(2, b"\x02" + b"3"), tlv(3, struct.pack("!H", 120)), tlv(0, b"")), dst=NDP_MC))
    add("ip6-none", eth(0x86dd, ip6(59, b"")))
    add("ip6-raw", eth(0x86dd, ip6(253, b"experimental6")))
    add("ip6-udp", eth(0x86dd, ip6(17, udp(1000, 2000, b"six"))))
    add("ip6-tcp", eth(0x86dd, ip6(6, tcp(1000, 80, b"six", opts=bytes([2, 4, 5, 0xa0])))))
    add("ip6-ext", eth(0x86dd, ip6(0, cat(ext(43, b"\x01\x04\0\0\0\0"), ext(60, b"\0\0\0\0\0\0" + b"\x01\x06" + b"\0" * 6), ext(17, b"\x01\x04\0\0\0\0"),
                                        udp(1, 2, b"ext")))))
    add("ip6-frag", eth(0x86dd, ip6(44, cat(frag6(17), udp(1, 2, b"fragment header first, forty bytes of data..")))))
    # chains of extension headers where the two bounds of the fragment header differ (against the payload length / against the buffer, D48):
    # a fragment header behind another header, a chain that ends with the buffer, a payload length that overshoots
    add("ip6-hbh-frag", eth(0x86dd, ip6(0, cat(ext(44, b"\x01\x04\0\0\0\0"), frag6(17), udp(1, 2, b"after two headers")))))
    add("ip6-hbh-frag-frag", eth(0x86dd, ip6(0, cat(ext(44, b"\x01\x04\0\0\0\0"), frag6(44)), plen=16)))
    add("ip6-hbh-frag-end", eth(0x86dd, ip6(0, cat(ext(44, b"\x01\x04\0\0\0\0"), frag6(59)))))
    add("ip6-frag-frag", eth(0x86dd, ip6(44, cat(frag6(44), frag6(17), udp(1, 2, b"xy")))))
    add("ip6-plen-over-hbh", eth(0x86dd, ip6(0, cat(ext(17, b"\x01\x04\0\0\0\0"), udp(1, 2, b"abc")), plen=200)))
    add("ip6-plen-over-frag", eth(0x86dd, ip6(44, cat(frag6(17), udp(1, 2, b"abc")), plen=200)))
    add("ip6-echo", eth(0x86dd, ip6(58, icmp6(128, 0, echo(1, 2, b"ping6")))))
    add("ip6-echoreply", eth(0x86dd, ip6(58, icmp6(129, 0, echo(1, 2, b"")))))
    add("ip6-ns", eth(0x86dd, ip6(58, icmp6(135, 0, cat(b"\0\0\0\0" + IP6_A, ndopt(1, MAC_A))))))
    add("ip6-na", eth(0x86dd, ip6(58, icmp6(136, 0, cat(b"\x60\0\0\0" + IP6_A, ndopt(2, MAC_A))))))
    add("ip6-rs", eth(0x86dd, ip6(58, icmp6(133, 0, cat(b"\0\0\0\0", ndopt(1, MAC_A))))))
    add("ip6-ra", eth(0x86dd, ip6(58, icmp6(134, 0, cat(H(bytes([64, 0xc0]) + struct.pack("!HII", 1800, 0, 0)), ndopt(1, MAC_A), ndopt(5, b"\0\0" + struct.pack("!I", 1500)),
                                                         ndopt(3, bytes([64, 0xc0]) + struct.pack("!III", 86400, 14400, 0) + IP6_A), ndopt(24, b"\0" * 6))))))
    for nm, fl in (("m", 0x80), ("o", 0x40), ("none", 0x00)):
        add("ip6-ra-" + nm, eth(0x86dd, ip6(58, icmp6(134, 0, cat(H(bytes([255, fl]) + struct.pack("!HII", 9000, 1, 2)), ndopt(5, b"\0\0" + struct.pack("!I", 1280)))))))
    for nm, fl in (("r", 0x80), ("s", 0x40), ("o", 0x20)):
        add("ip6-na-" + nm, eth(0x86dd, ip6(58, icmp6(136, 0, cat(bytes([fl, 0, 0, 0]) + IP6_B, ndopt(2, MAC_B))))))
    add("ip6-unreach", eth(0x86dd, ip6(58, icmp6(1, 4, cat(b"\0\0\0\0", ip6(17, udp(1, 2, b"q")))))))
    add("ip6-toobig", eth(0x86dd, ip6(58, icmp6(2, 0, cat(struct.pack("!I", 1280), ip6(17, udp(1, 2, b"q")))))))
    add("ip6-timeex", eth(0x86dd, ip6(58, icmp6(3, 0, cat(b"\0\0\0\0", ip6(17, udp(1, 2, b"q")))))))
    add("ip6-mld", eth(0x86dd, ip6(58, icmp6(130, 0, b"\0" * 20))))
    add("mpls1", eth(0x8847, mpls(16, 1, ip4(253, b"lbl"))))
    add("mpls3", eth(0x8848, mpls(1000, 0, mpls(1001, 0, mpls(0xfffff, 1, b"bottom of stack")))))
    add("gre-ip", eth(0x0800, ip4(47, gre(0x0800, ip4(17, udp(1, 2, b"tunnelled"))))))
    add("gre-full", eth(0x0800, ip4(47, gre(0x0800, ip4(253, b"in"), csum=True, key=0x01020304, seq=7))))
    add("gre-route", eth(0x0800, ip4(47, gre(0x1234, b"routed", routing=[(0x0800, 4, b"\x0a\0\0\x01")]))))
    add("gre-eth", eth(0x0800, ip4(47, gre(0x6558, eth(0x0806, arp(1)), key=99))))
    add("vxlan", eth(0x0800, ip4(17, udp(49152, 4789, vxlan(0x123456, eth(0x0806, arp(1)))))))
    add("vxlan-noi", eth(0x0800, ip4(17, udp(4789, 4789, vxlan(0, eth(0x9999, b"in"), flags=0)))))
    add("igmp-query", eth(0x0800, ip4(2, igmp2(0x11, 100, 0), ttl=1)))
    add("igmp-query3", eth(0x0800, ip4(2, igmp2(0x11, 100, 0, extra=bytes([0x02, 125, 0, 1]) + struct.pack("!I", 0x0a000001)), ttl=1)))
    add("igmp-query3-gs", eth(0x0800, ip4(2, igmp2(0x11, 0x9a, 0xe0000116, extra=bytes([0x0a, 0x8f, 0, 0])), ttl=1)))
    add("igmp-report1", eth(0x0800, ip4(2, igmp2(0x12, 0, 0xe0000116), ttl=1)))
    add("igmp-report2", eth(0x0800, ip4(2, igmp2(0x16, 0, 0xe0000116, extra=b"\0\0\0\0"), ttl=1)))
    add("igmp-leave", eth(0x0800, ip4(2, igmp2(0x17, 0, 0xe0000116), ttl=1)))
    add("igmp-v3", eth(0x0800, ip4(2, igmp3([(4, 0xe0000116, [], b""), (1, 0xe1020304, [0x0a000001, 0x0a000002], b"auxd")]), ttl=1)))
    add("rip-resp", eth(0x0800, ip4(17, udp(520, 520, rip(2, 2, [(2, 0, 0x0a000000, 0xff000000, 0, 1), (2, 7, 0xc0a80100, 0xffffff00, 0x0a000001, 16)])))))
    add("rip-req", eth(0x0800, ip4(17, udp(520, 520, rip(1, 1, [(0, 0, 0, 0, 0, 16)])))))
    add("dhcp-discover", eth(0x0800, ip4(17, udp(68, 67, dhcp(1, [(53, b"\x01"), (55, bytes([1, 3, 6, 15])), (61, b"\x01" + MAC_A), (12, b"host"), (0, b""), (255, b"")])), dst=0xffffffff), dst=BCAST))
    add("dhcp-offer", eth(0x0800, ip4(17, udp(67, 68, dhcp(2, [(53, b"\x02"), (1, bytes([255, 255, 255, 0])), (3, bytes([10, 0, 0, 1])), (6, bytes([8, 8, 8, 8, 8, 8, 4, 4])),
                                                               (51, struct.pack("!I", 3600)), (54, bytes([10, 0, 0, 1])), (58, struct.pack("!I", 1800)),
                                                               (59, struct.pack("!I", 3150)), (28, bytes([10, 0, 0, 255])), (50, bytes([10, 0, 0, 100])), (255, b"")])))))
    add("dhcp-overload", eth(0x0800, ip4(17, udp(67, 68, dhcp(2, [(52, b"\x03"), (53, b"\x05"), (255, b"")], sname=bytes([12, 2]) + b"sn" + b"\xff", file=bytes([67, 4]) + b"boot" + b"\xff")))))
    add("bootp", eth(0x0800, ip4(17, udp(68, 67, dhcp(1, [], magic=b"\0\0\0\0")))))
    # RFC 3396: the parser concatenates the instances of one option code, so a value can exceed 255 octets and has to be split again on pack():
    # legally split long options of several totals, two different long options that one corrupted code byte makes one, boundary lengths
    for total in (256, 300, 510, 511, 600):
        parts = [bytes((i * 7 + j) & 0xff for j in range(min(255, total - i))) for i in range(0, total, 255)]
        add("dhcp-long-%d" % total, eth(0x0800, ip4(17, udp(67, 68, dhcp(2, [(53, b"\x05")] + [(43, q) for q in parts] + [(255, b"")], optkeys=True)))))
    add("dhcp-two-long", eth(0x0800, ip4(17, udp(67, 68, dhcp(2, [(53, b"\x05"), (43, bytes(range(180))), (67, b"f" * 90), (255, b"")], optkeys=True)))))
    add("dhcp-opt-lens", eth(0x0800, ip4(17, udp(67, 68, dhcp(2, [(53, b"\x05"), (12, b""), (15, b"x"), (43, bytes(254)), (60, bytes(255)), (255, b"")], optkeys="len")))))
    add("dhcp-text-nonascii", eth(0x0800, ip4(17, udp(68, 67, dhcp(1, [(53, b"\x01"), (12, b"h\xf4st\xff"), (15, b"\xc3\x28.example"), (60, b"\x80vendor"),
                                                                    (61, b"\x00\xffid"), (255, b"")], sname=b"srv\xe9\xff", file=b"\xfeboot\x80")))))
    add("dhcp-hlen16", eth(0x0800, ip4(17, udp(68, 67, dhcp(1, [(255, b"")], hlen=16)))))
    ex = dname(b"www", b"example", b"com")
    add("dns-query", eth(0x0800, ip4(17, udp(33333, 53, dns(0xbeef, 0x0100, [(ex, 1, 1)])))))
    ptr = b"\xc0\x0c"
    add("dns-resp", eth(0x0800, ip4(17, udp(53, 33333, dns(0xbeef, 0x8180, [(ex, 1, 1)],
        ans=[(ptr, 5, 1, 300, dname(b"web") [:-1] + b"\xc0\x10"), (ptr, 1, 1, 300, bytes([93, 184, 216, 34])), (ptr, 28, 1, 300, IP6_A)],
        auth=[(b"\xc0\x10", 2, 1, 300, dname(b"ns1")[:-1] + b"\xc0\x10"), (b"\xc0\x10", 6, 1, 300, dname(b"ns1")[:-1] + b"\xc0\x10" + dname(b"admin")[:-1] + b"\xc0\x10" + struct.pack("!IIIII", 1, 2, 3, 4, 5))],
        add=[(b"\xc0\x10", 15, 1, 300, b"\x00\x0a" + dname(b"mx")[:-1] + b"\xc0\x10"), (ptr, 16, 1, 300, b"\x05hello"), (ptr, 12, 1, 300, b"\xc0\x0c"), (ptr, 99, 1, 0, b"\x01\x02")])))))
    add("mdns", eth(0x0800, ip4(17, udp(5353, 5353, dns(0, 0x8400, [], ans=[(dname(b"_http", b"_tcp", b"local"), 12, 1, 120, dname(b"printer", b"_http", b"_tcp", b"local"))])), dst=0xe00000fb)))
    add("dns-empty", eth(0x0800, ip4(17, udp(53, 1, dns(1, 0, [])))))
    # name decompression (reachable once DNS names are read as bytes, D46): pointers backwards / forwards / to themselves / in a cycle / in a
    # chain, label lengths with the top bits 01 and 10, labels that are not UTF-8, names and record data that run past the end, counts that lie
    D = lambda name, *a, **k: add(name, eth(0x0800, ip4(17, udp(33333, 53, dns(7, 0x0100, *a, **dict({"namekeys": True}, **k))))))
    short = dname(b"a", b"bc")
    D("dns-q-short", [(short, 1, 1)], namekeys="counts")
    D("dns-ptr-self", [(b"\xc0\x0c", 1, 1)])
    D("dns-ptr-mid", [(b"\x01a\xc0\x12", 1, 1), (b"\x01b\xc0\x0c", 1, 1)])          # pointers into the middle of other names: terminates
    D("dns-ptr-cycle", [(b"\xc0\x12", 1, 1), (b"\xc0\x0c", 1, 1)])                    # 12 -> 18 -> 12: a genuine two-pointer loop
    D("dns-ptr-fwd", [(b"\xc0\x12", 1, 1), (short, 28, 1)])
    D("dns-ptr-chain", [(short, 1, 1)] + [(bytes([0xc0, 12 if i == 0 else 22 + 6 * (i - 1)]), 1, 1) for i in range(8)], namekeys="none")
    D("dns-label-bits", [(b"\x41" + b"x" * 65 + b"\x00", 1, 1)])
    D("dns-label-utf8", [(b"\x02\xc3\xa9\x03\xe2\x82\xac\x04\xf0\x9f\x98\x80\x00", 1, 1)], namekeys="none")
    D("dns-label-bad-utf8", [(b"\x02\xc3\x28\x00", 1, 1)], namekeys="none")
    D("dns-label-surrogate", [(b"\x03\xed\xa0\x80\x00", 1, 1)], namekeys="none")
    D("dns-label-overlong", [(b"\x02\xc0\xaf\x00", 1, 1)], namekeys="none")
    D("dns-label-cut-seq", [(b"\x02\xe0\x80\x00", 1, 1)], namekeys="none")
    D("dns-label-toobig", [(b"\x04\xf4\x90\x80\x80\x00", 1, 1)], namekeys="none")
    D("dns-name-past-end", [(b"\x09abc", 1, 1)])
    D("dns-rr-types", [(short, 255, 1)], ans=[(b"\xc0\x0c", 1, 1, 60, bytes([10, 0, 0, 1])), (b"\xc0\x0c", 1, 1, 60, bytes([10, 0, 1])),
                                                (b"\xc0\x0c", 28, 1, 60, IP6_A[:15]), (b"\xc0\x0c", 15, 1, 60, b"\x00\x05\x02mx\xc0\x0c"),
                                                (b"\xc0\x0c", 15, 1, 60, b"\x00"), (b"\xc0\x0c", 12, 1, 60, b"\xc0\x0e"), (b"\xc0\x0c", 16, 1, 60, b"")], namekeys="rr")
    D("dns-rr-a-bad", [], ans=[(short, 1, 1, 60, bytes([10, 0, 1]))], namekeys="none")
    D("dns-rr-aaaa-bad", [], ans=[(short, 28, 1, 60, IP6_A[:15])], namekeys="none")
    D("dns-rr-rdata-ptr-loop", [], ans=[(short, 5, 1, 60, b"\xc0\x1c")])
    D("dns-counts-lie", [(short, 1, 1)], counts=(2, 1, 0, 0), namekeys="none")
    D("dns-many-questions", [(short, 1, 1)], counts=(65535, 65535, 65535, 65535), namekeys="none")
    # rare values at a particular position (HARDENING 3): the boundary between a length and an ethertype (1500, 1535, 1536, 1537); zero
    # wherever truthiness could be tested instead of `is None` (ids, ports, keys, sequence numbers, VNI, labels, TTLs, metric 0);
    # signed / unsigned boundaries of 32-bit fields read with struct 'i' / 'I'
    for t in (0x05dc, 0x05ff, 0x0600, 0x0601):
        add("eth-type-%04x" % t, eth(t, MB(b"\xaa\xaa\x03\x00\x00\x00\x08\x06" + b"boundary")))
    add("zero-vxlan", eth(0x0800, ip4(17, udp(0, 4789, vxlan(0, eth(0x0806, arp(1, spa=0, tpa=0)))), ident=0, ttl=0)))
    add("zero-gre", eth(0x0800, ip4(47, gre(0x0800, ip4(17, udp(0, 0, b"")), csum=True, key=0, seq=0))))
    add("zero-tcp", eth(0x0800, ip4(6, tcp(0, 0, b"", flags=0))))
    add("zero-echo", eth(0x0800, ip4(1, icmp(8, 0, echo(0, 0, b"")))))
    add("zero-mpls", eth(0x8847, mpls(0, 1, MB(b"z"), tc=0, ttl=0)))
    add("zero-eap", eth(0x888e, eapol(0, 0, eap(1, 0, b"\x00"))))
    add("zero-dns", eth(0x0800, ip4(17, udp(53, 0, dns(0, 0, [])))))
    add("zero-vlan", eth(0x8100, vlan(0x0806, arp(1), pcp=0, cfi=0, vid=0)))
    add("zero-ip6", eth(0x86dd, ip6(17, udp(0, 0, b""), hop=0, src=bytes(16), dst=bytes(16))))
    add("rip-metric-bounds", eth(0x0800, ip4(17, udp(520, 520, rip(2, 2, [(2, 0, 0x0a000000, 0xff000000, 0, 0), (2, 0, 0x7fffffff, 0x80000000, 0xffffffff, 0x7fffffff),
                                                                          (2, 65535, 0x80000000, 0xffffffff, 0x80000000, 0x80000000), (0xffff, 0, 0, 0, 0, 0xffffffff)])))))
    add("igmp-high-addr", eth(0x0800, ip4(2, igmp2(0x16, 0, 0xffffffff))))
    add("eapol-start", eth(0x888e, eapol(1, 1, b"")))
    add("eapol-logoff", eth(0x888e, eapol(2, 2, b"")))
    add("eapol-key", eth(0x888e, eapol(2, 3, b"\x02" + b"\0" * 20)))
    add("eap-req-id", eth(0x888e, eapol(1, 0, eap(1, 5, b"\x01" + b"who"))))
    add("eap-resp-md5", eth(0x888e, eapol(1, 0, eap(2, 5, b"\x04" + b"\x10" + b"m" * 16))))
    add("eap-success", eth(0x888e, eapol(1, 0, eap(3, 5))))
    add("eap-failure", eth(0x888e, eapol(1, 0, eap(4, 5))))
    return F


# ----------------------------------------------------------------------------- long frames made of MANY repeated small headers
# Plain bytes (no marks: `cat` is quadratic in the nesting depth).  One builder per self-nesting construct of the library: label stacks, tag
# stacks, extension-header chains, encapsulation (IP in GRE, Ethernet in VXLAN / GRE), ICMP / ICMPv6 error quoting, option / TLV / record /
# entry lists, name-compression chains, and plain long payloads.  `n` = number of repeated units; nothing is capped here except the 16-bit
# length fields (a frame longer than they can say is announced as 65535) — the caller picks n so that the frame fits a packet-in.
_S = struct.pack
JUMBO_MAX = 65000          # octets: what a packet-in can carry (65535 - 18) less room for the packet-out a handler makes of it


def j_eth(typ, payload, dst=MAC_B, src=MAC_A): return dst + src + _S("!H", typ) + bytes(payload)


def _s16(b):
    """sum of the 16-bit words of b (odd length: padded with a zero octet), not folded"""
    if len(b) % 2: b = b + b"\0"
    return sum(struct.unpack("!%dH" % (len(b) // 2), b))


def _fold(s):
    while s >> 16: s = (s & 0xffff) + (s >> 16)
    return (~s) & 0xffff


def j_ip4(proto, payload, opts=b"", frag=0x4000):
    hl = 5 + len(opts) // 4
    h = _S("!BBHHHBBHII", 0x40 | hl, 0, min(65535, 20 + len(opts) + len(payload)), 0x1234, frag, 64, proto, 0, 0x0a010203, 0xc0a80001) + opts
    return h[:10] + _S("!H", rfc1071(h)) + h[12:] + payload


def j_udp(sp, dp, payload): return _S("!HHHH", sp, dp, min(65535, 8 + len(payload)), 0) + payload


def j_tcp(payload, opts=b""): return _S("!HHIIBBHHH", 1000, 80, 1, 2, ((20 + len(opts)) // 4) << 4, 0x18, 8192, 0, 0) + opts + payload


def j_icmp(t, c, rest): return _S("!BBH", t, c, rfc1071(_S("!BBH", t, c, 0) + rest)) + rest


def j_ip6(nh, payload): return _S("!IHBB", (6 << 28) | 0x1234567, min(65535, len(payload)), nh, 64) + IP6_A + IP6_B + payload


def j_icmp6(t, c, rest):
    msg = _S("!BBH", t, c, 0) + rest
    return _S("!BBH", t, c, icmp6_csum(IP6_A, IP6_B, msg)) + rest


def j_mpls_stack(n, bos, first=16):
    """n label stack entries without the bottom-of-stack bit (+ one with it when `bos`)"""
    return b"".join(_S("!HBB", (first + i) & 0xffff, (i & 7) << 1, 64 - (i & 31)) for i in range(n)) + (_S("!HBB", 1, 1, 64) if bos else b"")


def j_mpls(n, bos=False, tail=b"", typ=0x8847, vlans=0):
    p = j_mpls_stack(n, bos) + tail
    for i in range(vlans): p = _S("!HH", 0xa000 | (i + 1), typ if i == 0 else 0x8100) + p
    return j_eth(0x8100 if vlans else typ, p)


def j_snap_mpls(n, bos=False):
    """802.3 + LLC/SNAP carrying an MPLS label stack (the 802.3 length field cannot announce more than 1500 octets; the stack may be longer)"""
    p = j_mpls_stack(n, bos)
    return MAC_B + MAC_A + _S("!H", min(1500, 8 + len(p))) + b"\xaa\xaa\x03\0\0\0\x88\x47" + p


def j_vlan(n, inner=0x9999, tail=b"ab"):
    return j_eth(0x8100, b"".join(_S("!HH", 1 + (i % 4000), 0x8100) for i in range(n - 1)) + _S("!HH", 7, inner) + tail)


def j_ip6ext(n, kind, nh_last, payload):
    """IPv6 with n 8-octet extension headers; kind = 0 hop-by-hop, 60 destination options, 43 routing, 44 fragment, "mix" """
    ks = [kind] * n if kind != "mix" else [(0, 60, 43, 60, 44)[i % 5] for i in range(n)]
    b = b""
    for i, k in enumerate(ks):
        nh = ks[i + 1] if i + 1 < n else nh_last
        b += bytes([nh, 0]) + (_S("!HI", 0, i) if k == 44 else bytes([1, 4, 0, 0, 0, 0]))
    return j_eth(0x86dd, j_ip6(ks[0] if n else nh_last, b + payload))


def j_icmp_quote(n, types=(3,)):
    """an ICMP error quoting a datagram that is an ICMP error quoting … (n levels; real quotes are short, nothing says they must be).
    = j_ip4(1, j_icmp(t, 0, bytes(4) + p)) level by level, with the checksum of each level computed from the running sum of what it quotes
    (the one's complement sum is additive over even-length blocks) instead of over the whole quote again."""
    p = j_ip4(17, j_udp(1, 2, b"12345678"))
    parts = [p]; sp = _s16(p); plen = len(p)
    for i in range(n):
        t = types[i % len(types)]
        ic = _S("!BBH", t, 0, _fold((t << 8) + sp)) + bytes(4)
        ih = j_ip4(1, b"")[:2] + _S("!H", min(65535, 20 + 8 + plen)) + j_ip4(1, b"")[4:10] + b"\0\0" + j_ip4(1, b"")[12:]
        ih = ih[:10] + _S("!H", rfc1071(ih)) + ih[12:]
        parts += [ic, ih]; sp += _s16(ic) + _s16(ih); plen += 28
    return j_eth(0x0800, b"".join(reversed(parts)))


def j_icmp6_quote(n, types=(1,)):
    """the same for ICMPv6 errors (icmpv6.parse verifies the checksum: pseudo-header + message)"""
    p = j_ip6(17, j_udp(1, 2, b"12345678"))
    parts = [p]; sp = _s16(p); plen = len(p)
    pseudo = _s16(IP6_A + IP6_B)
    for i in range(n):
        t = types[i % len(types)]
        mlen = 8 + plen
        ic = _S("!BBH", t, 0, _fold(pseudo + (mlen >> 16) + (mlen & 0xffff) + 58 + (t << 8) + sp)) + bytes(4)
        ih = _S("!IHBB", (6 << 28) | 0x1234567, min(65535, mlen), 58, 64) + IP6_A + IP6_B
        parts += [ic, ih]; sp += _s16(ic) + _s16(ih); plen += 48
    return j_eth(0x86dd, b"".join(reversed(parts)))


def j_gre(n, eth=False):
    """IPv4 in GRE in IPv4 in GRE … (eth: transparent Ethernet bridging, 0x6558, at every level)"""
    p = b"payload!"
    for i in range(n):
        p = j_ip4(47, _S("!HH", 0, 0x6558) + j_eth(0x0800 if i else 0x9999, p)) if eth else j_ip4(47, _S("!HH", 0, 0x0800) + p)
    return j_eth(0x0800, p)


def j_vxlan(n):
    p = j_eth(0x9999, b"in")
    for _ in range(n): p = j_eth(0x0800, j_ip4(17, j_udp(1, 4789, bytes([8, 0, 0, 0]) + _S("!I", 1 << 8) + p)))
    return p


def j_dhcp(n, vlen=1):
    """BOOTP reply + n options (a mix of the classes unpackOptions knows, an unknown code and PAD octets), END"""
    fixed = _S("!BBBBIHHIIII", 2, 1, 6, 0, 1, 0, 0, 0, 1, 2, 0) + MAC_A + bytes(10) + bytes(64) + bytes(128) + b"\x63\x82\x53\x63"
    codes = (53, 1, 3, 6, 12, 15, 51, 54, 55, 61, 224, 0)
    o = b"".join(b"\0" if codes[i % 12] == 0 else bytes([codes[i % 12], vlen]) + bytes([i & 0xff]) * vlen for i in range(n))
    return j_eth(0x0800, j_ip4(17, j_udp(67, 68, fixed + o + b"\xff")))


def j_dhcp255(n):
    """BOOTP request + n options of 255 octets each (30 codes in rotation, so values of one code concatenate, RFC 3396), END: every
    option has an ODD length, so packOptions() appends one PAD octet to each when the message is serialised again"""
    fixed = _S("!BBBBIHHIIII", 1, 1, 6, 0, 1, 0, 0, 0, 0, 0, 0) + MAC_A + bytes(10) + bytes(64) + bytes(128) + b"\x63\x82\x53\x63"
    o = b"".join(bytes([224 + (i % 30), 255]) + bytes([i & 0xff]) * 255 for i in range(n))
    return j_eth(0x0800, j_ip4(17, j_udp(68, 67, fixed + o + b"\xff")))


def j_lldp(n):
    """the three mandatory TLVs + n optional ones of every class + End"""
    b = _S("!H", (1 << 9) | 7) + b"\x04" + MAC_A + _S("!H", (2 << 9) | 2) + b"\x02\x37" + _S("!H", (3 << 9) | 2) + _S("!H", 120)
    bodies = {7: b"\0\x04\0\x04", 127: b"\0\x12\x0f\x01ab", 8: b"\x05\x01\x0a\0\0\x01\x02\0\0\0\x01\0"}
    for i in range(n):
        t = (5, 6, 4, 7, 127, 8, 9)[i % 7]
        body = bodies.get(t, b"x")
        b += _S("!H", (t << 9) | len(body)) + body
    return bytes.fromhex("0180c200000e") + MAC_A + b"\x88\xcc" + b + b"\0\0"


def j_dns(n, how):
    """q: n questions (names compressed); rr: n records of several types over the three sections; ptrchain: one name behind a chain of n
    compression pointers; labels: ONE name of n one-octet labels"""
    name = dname(b"a", b"example", b"com")
    if how == "q":
        b = _S("!HHHHHH", 1, 0x0100, n, 0, 0, 0) + b"".join((name if i == 0 else b"\xc0\x0c") + _S("!HH", 1, 1) for i in range(n))
    elif how == "rr":
        b = _S("!HHHHHH", 1, 0x8180, 1, n // 3, n // 3, n - 2 * (n // 3)) + name + _S("!HH", 1, 1)
        kinds = ((1, b"\x0a\0\0\x01"), (5, b"\x01b\xc0\x0c"), (16, b"\x03txt"), (28, IP6_A), (15, b"\0\x0a\xc0\x0c"))
        b += b"".join(b"\xc0\x0c" + _S("!HHIH", kinds[i % 5][0], 1, 300, len(kinds[i % 5][1])) + kinds[i % 5][1] for i in range(n))
    elif how == "ptrchain":
        # a TXT record whose data is n links (a one-octet label + a pointer to the link before; the first points at the question name), then
        # an A record whose name is a pointer to the last link: ONE name behind a chain of n + 1 pointers (a pointer has 14 bits: n <= 4000)
        b = _S("!HHHHHH", 1, 0x8180, 1, 2, 0, 0) + name + _S("!HH", 1, 1)
        n = min(n, 4000)
        b += b"\xc0\x0c" + _S("!HHIH", 16, 1, 300, 4 * n)
        prev = 12
        for i in range(n):
            here = len(b)
            b += b"\x01x" + _S("!H", 0xc000 | prev)
            prev = here
        b += _S("!H", 0xc000 | prev) + _S("!HHIH", 1, 1, 300, 4) + b"\x0a\0\0\x01"
    else:
        b = _S("!HHHHHH", 1, 0x0100, 1, 0, 0, 0) + b"\x01a" * n + b"\0" + _S("!HH", 1, 1)
    return j_eth(0x0800, j_ip4(17, j_udp(1234, 53, b)))


def j_rip(n):
    return j_eth(0x0800, j_ip4(17, j_udp(520, 520, _S("!BBH", 2, 2, 0) + b"".join(_S("!HHIIII", 2, i & 0xffff, 0x0a000000 + i, 0xffffff00, 0, 1 + i % 16) for i in range(n)))))


def j_igmp3(n):
    g = b"".join(_S("!BBHI", 1 + i % 6, 0, i % 2, 0xe0000100 + i) + (_S("!I", 0x0a000001) if i % 2 else b"") for i in range(n))
    b = _S("!BBHHH", 0x22, 0, 0, 0, n & 0xffff) + g
    return j_eth(0x0800, j_ip4(2, b[:2] + _S("!H", igmp_csum(b)) + b[4:]))


def j_nd(n, kind):
    fx = {133: bytes(4), 134: bytes([64, 0xc0]) + _S("!HII", 1800, 0, 0), 135: bytes(4) + IP6_A, 136: b"\x60\0\0\0" + IP6_A}[kind]
    units = (bytes([1, 1]) + MAC_A, bytes([5, 1, 0, 0]) + _S("!I", 1500), bytes([3, 4, 64, 0xc0]) + _S("!III", 1, 2, 0) + IP6_A, bytes([14, 1]) + bytes(6))
    return j_eth(0x86dd, j_ip6(58, j_icmp6(kind, 0, fx + b"".join(units[i % 4] for i in range(n)))))


def j_big(kind, n):
    """one ordinary header chain in front of n octets of payload"""
    pay = bytes((i * 7) & 0xff for i in range(n))
    if kind == "udp": return j_eth(0x0800, j_ip4(17, j_udp(1, 2, pay)))
    if kind == "tcp": return j_eth(0x0800, j_ip4(6, j_tcp(pay, b"\x01" * 36 + b"\x02\x04\x05\xb4"), opts=b"\x01" * 40))      # both option areas full
    if kind == "echo": return j_eth(0x0800, j_ip4(1, j_icmp(8, 0, _S("!HH", 1, 2) + pay)))
    if kind == "echo6": return j_eth(0x86dd, j_ip6(58, j_icmp6(128, 0, _S("!HH", 1, 2) + pay)))
    if kind == "arp": return j_eth(0x0806, _S("!HHBBH", 1, 0x800, 6, 4, 1) + MAC_A + _S("!I", 1) + bytes(6) + _S("!I", 2) + pay)
    if kind == "snap": return MAC_B + MAC_A + _S("!H", min(n + 8, 1500)) + b"\xaa\xaa\x03\0\0\0\x08\x00" + j_ip4(17, j_udp(1, 2, pay))
    if kind == "eap": return j_eth(0x888e, _S("!BBH", 1, 0, min(65535, n + 5)) + _S("!BBH", 1, 5, min(65535, n + 5)) + b"\x01" + pay)
    if kind == "frag": return j_eth(0x0800, j_ip4(17, pay, frag=0x2000 | 185))
    return j_eth(0x9999, pay)
