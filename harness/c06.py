"""C06 — cooperative scheduler runs every task step exactly once, in isolation (DESIGN §5 C06).

Implementation side: the real `recoco.Scheduler(startInThread=False, threaded_selecthub=False[, use_epoll=True])`, its real `run()`
loop, real `BaseTask`/`Timer`/`Again`/`Sleep`/`Select`/`Recv`/`Send`/`Exit`, the real pinger; `time.time` is the virtual clock and
`SelectHub._select_func` is the virtual select of Model/Recoco.lean (`vselect`) - or, with use_epoll, the real EpollSelect on
a scripted `select.epoll` (FakeEpoll) that polls the same virtual select.  No threads are ever started.
Times in cases are integers in units of 1/8 s (exact in binary64)."""
import sys, io, re, json, time, random, threading, itertools, contextlib, select as _rsel, socket, os, errno, signal, struct, fcntl, termios, copy
import common, poxenv
import forcedthreads as ft
from common import Check

# Which code the model mirrors.  Flip an entry to True in the same change that commits the corresponding repair to the
# repository (fixes/D25_recoco_send_retry.diff, fixes/D60_recoco_again_empty_subtask.diff); the theorems hold for both settings.
REPAIRED = {"fix_send": True, "fix_empty_sub": True}

UNIT = 8.0
T0 = 8000                       # 1000.0 s


class E(Exception):
    def __init__(self, n): Exception.__init__(self, n); self.n = n


class EV(E, ValueError): pass
class EK(E, KeyError): pass
class EO(E, OSError): pass
class EA(E, AssertionError): pass
class ER(E, RuntimeError): pass
class BE(BaseException): pass                       # a user exception class that is not an Exception

EXC_CLASSES = [E, EV, EK, EO, EA, ER]               # what `raise n` raises (all are E, so all count as "E<n>")
BASE_CLASSES = [SystemExit, KeyboardInterrupt, GeneratorExit, BE]     # what `braise c` raises: BaseException, not Exception
OWN_EXC_NAMES = set(c.__name__ for c in EXC_CLASSES) | {"RuntimeError", "StopIteration"}
BASE_EXC_NAMES = set(c.__name__ for c in BASE_CLASSES)


def exc_name(e):
    return "E%d" % e.n if isinstance(e, E) else type(e).__name__


def raised_class(conv, tid, idx, base=None):
    """the class a step raises: one of the Exception subclasses (picked by the convention seed) or the BaseException class `base`"""
    if base is not None: return BASE_CLASSES[base % len(BASE_CLASSES)]
    return EXC_CLASSES[(conv + tid + idx) % len(EXC_CLASSES)] if conv else E


class VFd(object):
    """virtual descriptor / scripted socket; hashable by identity (one object per id and run)"""
    def __init__(self, i, H): self.id = i; self.H = H
    def send(self, data, flags=0):
        H = self.H
        n = H.send_script.pop(0) if H.send_script else len(data)
        if n is None: raise socket.error("scripted EAGAIN")
        return min(n, len(data))
    def recv(self, n, flags=0):
        H = self.H
        k = H.recv_script.pop(0) if H.recv_script else 1
        if k is None: raise socket.error("scripted recv failure")
        return b"x" * k
    def fileno(self): return VFD_BASE + self.id       # (what select.epoll and EpollSelect key their tables by)
    def __bool__(self): return self.id != 0          # descriptor 0 is falsy, like the int 0: nothing may test a descriptor's truth value
    def __repr__(self): return "<fd %d>" % self.id


class HubBlocked(BaseException):
    """raised by the harness in place of a system call that would never return (a read of an empty blocking descriptor on the
    only thread there is): the run ends here, the oracle reports the tasks that are never run"""


class WatchedOS(object):
    """stand-in for the `os` module of pox.lib.util while an inline run lasts: everything is the real `os` (real pipes, real
    reads and writes - the real pinger stays in the loop), but a `read` that WOULD BLOCK - a descriptor in blocking mode with
    nothing to read, on the scheduler's own thread, so nobody could ever write to it - is reported instead of being made."""
    def __init__(self, H): self._H = H
    def __getattr__(self, name): return getattr(os, name)
    def read(self, fd, n):
        H = self._H
        if isinstance(fd, int):
            if fd in H.pinger_fds():
                try: H.drains.append(struct.unpack("i", fcntl.ioctl(fd, termios.FIONREAD, b"\0\0\0\0"))[0])
                except Exception: pass
            try: would_block = os.get_blocking(fd) and not _rsel.select([fd], [], [], 0)[0]
            except (OSError, ValueError): would_block = False
            if would_block:
                H.blocked = "os.read(%s, %d) on an empty blocking descriptor" % ("the hub's wake-up pipe" if fd in H.pinger_fds() else "fd", n)
                raise HubBlocked(H.blocked)
        return os.read(fd, n)


VFD_BASE = 100000                                    # fileno() of virtual descriptor i (never a real descriptor of this process)


class FakeEpoll(object):
    """Scripted stand-in for select.epoll that keeps epoll's contract: descriptors are ints (or objects with fileno()), a second
    register() of a descriptor fails with EEXIST, modify()/unregister() of an unknown one with ENOENT, poll(timeout) is
    level-triggered and reports (fd, events) for every registered descriptor that is ready for something its mask asks for
    (errors always).  Readiness and time come from the run's virtual select (`H.epoll_select(rl, wl, xl, timeout)`)."""
    def __init__(self, H, sizehint=-1, flags=0):
        self.H = H; self.reg = {}; self.closed = False
        H.epolls.append(self)
    def _fd(self, fd):
        if self.closed: raise ValueError("I/O operation on closed epoll object")
        if not isinstance(fd, int):
            if not hasattr(fd, "fileno"): raise TypeError("argument must be an int, or have a fileno() method")
            fd = fd.fileno()
        if fd < 0: raise ValueError("file descriptor cannot be a negative integer (%d)" % fd)
        return fd
    def register(self, fd, eventmask=_rsel.EPOLLIN | _rsel.EPOLLPRI | _rsel.EPOLLOUT):
        fd = self._fd(fd)
        if fd in self.reg: raise FileExistsError(errno.EEXIST, "File exists")
        self.reg[fd] = eventmask
    def modify(self, fd, eventmask):
        fd = self._fd(fd)
        if fd not in self.reg: raise FileNotFoundError(errno.ENOENT, "No such file or directory")
        self.reg[fd] = eventmask
    def unregister(self, fd):
        fd = self._fd(fd)
        if fd not in self.reg: raise FileNotFoundError(errno.ENOENT, "No such file or directory")
        del self.reg[fd]
    def poll(self, timeout=None, maxevents=-1):
        if self.closed: raise ValueError("I/O operation on closed epoll object")
        H = self.H
        if timeout is not None and timeout < 0: timeout = None
        keys = list(self.reg)
        if H.epoll_order: keys.reverse()                           # the order in which epoll reports events is not specified
        obj = dict((k, H.epoll_obj(k)) for k in keys)
        rl = [obj[k] for k in keys if self.reg[k] & (_rsel.EPOLLIN | _rsel.EPOLLPRI)]
        wl = [obj[k] for k in keys if self.reg[k] & _rsel.EPOLLOUT]
        xl = [obj[k] for k in keys if not H.is_pinger(obj[k])]
        ro, wo, xo = H.epoll_select(rl, wl, xl, timeout)
        ev = []
        for k in keys:
            o = obj[k]
            m = ((_rsel.EPOLLIN if any(o is f for f in ro) else 0) | (_rsel.EPOLLOUT if any(o is f for f in wo) else 0) |
                 (_rsel.EPOLLERR if any(o is f for f in xo) else 0))
            if m: ev.append((k, m))
        if len([1 for k, m in ev if not H.is_pinger(obj[k])]) > 1: H.epoll_multi += 1
        return ev
    def close(self): self.closed = True
    def fileno(self): return VFD_BASE - 1
    def __enter__(self): return self
    def __exit__(self, *a): self.close()


@contextlib.contextmanager
def fake_epoll(H):
    """select.epoll is the scripted FakeEpoll of run H while the block lasts (EpollSelect calls select.epoll() when it is built)"""
    real = getattr(_rsel, "epoll", None)
    _rsel.epoll = lambda *a, **kw: FakeEpoll(H, *a, **kw)
    try: yield
    finally:
        if real is None: del _rsel.epoll
        else: _rsel.epoll = real


class BadOp(object):
    """made a BlockingOperation subclass in Run.badop(): its execute() raises - the task is descheduled after its step"""


class Run(object):
    """one execution of a case on the real scheduler"""
    inline = True
    WATCHDOG_S = 60
    def __init__(self, recoco, case):
        self.rc = recoco
        self.case = case
        self.clock = poxenv.clock
        self.trace = []
        self.subs = []              # [tid, prog, parent tid]
        self.overlap = 0
        self.running = None
        self.fds = {}
        self.send_script = list(case["send"])
        self.recv_script = list(case["recv"])
        self.tabs = [dict((i, t) for i, t in enumerate(case[k])) for k in ("r", "w", "x")]
        self.tid_of = {}            # id(task object or sub generator) -> tid
        self.keep = []
        self.ntids = 0
        self.last_ret = {}          # tid -> canonical value the hub last put into task.rv (consumed at the next resume)
        self.queued_run = 0         # a task's generator was resumed while the task was (still) in the ready deque
        self.draws = list(case.get("draws", ()))
        self.conv = case.get("conv", 0)
        self.pending = {}           # tid -> deadline (1/8 s) of the timed wait the task is in, as the case asked for it
        self.timer_due = []         # timer j -> time its next firing is due, None when it has no further firing
        self.overslept = None       # the clock advanced past a pending deadline
        self.shared_ops = {}        # id(yield) -> operation object shared by all tasks that execute this yield (aliasing)
        self.cb_bad = None          # a timer callback was called with the wrong arguments
        self.cbcancel = []          # [position in trace, timer index]: cancel() called from inside a timer callback
        self.ntop = len(case["tasks"])
        self.tstarts = []           # [position in trace, timer index, time]: a deferred timer was started by a task
        self.tstarted = {}          # timer index -> True once start() has been called
        self.cancelled = {}         # timer index -> True once a task has called cancel()
        self.threaded = False
        # the harness's own account of where every top-level task / timer is in its life ("queued", "running", "hub", "blocked",
        # "sub" = waiting for a sub-task, "waking" = blocked with a cross-thread wake on its way, "done", "gone"): from the yields
        # the bodies make and from calls of the public Scheduler.fast_schedule / SelectHub.registerSelect - never from the
        # scheduler's own queues, which are what a `wake` is there to test
        self.life = {}
        self.step_of = {}           # tid -> index of the step a top-level task executed last
        self.prog_of = {}           # tid -> program of a top-level task
        self.tops = []              # top-level task objects by tid
        self.wakes = []             # [position in trace, waker tid, target tid, spelling, kind]
        self.st_used = {}           # target tid -> True once a cross-thread wake (ScheduleTask) was issued for it
        # the scheduler's configuration (Scheduler(use_epoll=..., threaded_selecthub=...)) and what it needs
        self.use_epoll = bool(case.get("epoll"))
        self.epolls = []            # the FakeEpoll objects the code under test created
        self.epoll_multi = 0        # polls that reported more than one descriptor
        self.epoll_order = (self.conv >> 1) & 1 if self.use_epoll else 0
        self.blocked = None         # a system call that would never return was about to be made (see WatchedOS)
        self.iowait = {}            # tid -> (r, w, x) descriptor ids the task waits for, as the case asked for them
        self.drains = []            # bytes pending in the wake-up pipe at each read of it
        self.vfd_by_no = {}

    # ---- what FakeEpoll needs to know about the run
    def pinger_fds(self):
        p = getattr(getattr(self, "hub", None), "_pinger", None)
        try: return [p.fileno()] if p is not None else []
        except Exception: return []

    def is_pinger(self, o):
        return o is getattr(getattr(self, "hub", None), "_pinger", None)

    def epoll_obj(self, k):
        """descriptor number -> the object the virtual select knows"""
        if k in self.pinger_fds(): return self.hub._pinger
        f = self.vfd_by_no.get(k)
        if f is None: raise OSError(errno.EBADF, "Bad file descriptor")      # (epoll itself would have refused it at register())
        return f

    def epoll_select(self, rl, wl, xl, timeout):
        return self.vselect(rl, wl, xl, timeout)

    def now(self):
        u = self.clock.now * UNIT
        assert u == int(u), "virtual time left the 1/8 s grid: %r" % self.clock.now
        return int(u)

    def fd(self, i):
        f = self.fds.get(i)
        if f is None:
            f = self.fds[i] = VFd(i, self); self.vfd_by_no[f.fileno()] = f
        return f

    def fdl(self, l):
        return None if l is None else [self.fd(i) for i in l]

    # ---- virtual select (mirrors Pox.Recoco.vselect)
    def vselect(self, rl, wl, xl, timeout=None):
        hub = self.hub
        pinger = hub._pinger
        lists = [[f for f in rl if f is not pinger], list(wl), list(xl)]
        pinged = bool(_rsel.select([pinger], [], [], 0)[0])
        now = self.now()
        def ready(t):
            return [[f for f in l if tab.get(f.id) is not None and tab[f.id] <= t] for l, tab in zip(lists, self.tabs)]
        rd = ready(now)
        if pinged or rd[0] or rd[1] or rd[2]:
            return rd[0] + ([pinger] if pinged else []), rd[1], rd[2]
        to = timeout * UNIT
        assert to == int(to)
        to = int(to)
        cands = [tab[f.id] for l, tab in zip(lists, self.tabs) for f in l if tab.get(f.id) is not None]
        try: has_timer = any(t[4] is not None for t in hub._tasks.values())
        except Exception: has_timer = timeout != self.rc.CYCLE_MAXIMUM       # entry shape changed: no timed entry <=> the default timeout
        if cands and min(cands) <= now + to:
            c = min(cands)
            self.advance(now, c)
            self.clock.now += (c - now) / UNIT
            rd = ready(c)
            return rd[0], rd[1], rd[2]
        if not cands and not has_timer:
            self.sched.quit()                      # quiescent: nothing can ever happen again
            return [], [], []
        self.advance(now, now + to)
        self.clock.now += timeout
        return [], [], []

    def advance(self, a, b):
        """the virtual clock is about to go from a to b (everything is idle): no pending deadline may lie strictly before b"""
        if self.overslept is not None: return
        for tid, w in self.pending.items():
            if w < b:
                self.overslept = "task %d was due at %d, the clock went from %d to %d" % (tid, w, a, b); return
        for j, w in enumerate(self.timer_due):
            if w is not None and w < b:
                self.overslept = "timer %d was due at %d, the clock went from %d to %d" % (j, w, a, b); return
        for tid, sets in self.iowait.items():                     # ... and no descriptor somebody waits for may have been ready before b
            for kind, ids, tab in zip("rwx", sets, self.tabs):
                if kind == "x" and self.use_epoll: continue       # EpollSelect does not take an exceptional-condition set (documented)
                for f in ids:
                    t = tab.get(f)
                    if t is not None and t < b:
                        self.overslept = "task %d waits for descriptor %d (%s), ready since %d, the clock went from %d to %d" % (tid, f, kind, t, a, b); return

    def badop(self):
        rc = self.rc
        k = self.conv % (len(EXC_CLASSES) + len(BASE_CLASSES)) if self.conv else 0
        cls = EXC_CLASSES[k] if k < len(EXC_CLASSES) else BASE_CLASSES[k - len(EXC_CLASSES)]
        class _Bad(rc.BlockingOperation, BadOp):
            def execute(op, task, scheduler): raise cls(9)
        return _Bad()

    # ---- generators
    def canon_recv(self, kind, v):
        if kind == "exc": return ["exc", exc_name(v)]
        if v is None: return None
        if v is False: return ["false"]
        if isinstance(v, tuple): return ["sel"] + [[f.id for f in l] for l in v]
        if isinstance(v, bytes): return ["data", len(v)]
        if isinstance(v, float) and v * UNIT == int(v * UNIT): return ["num", int(v * UNIT)]     # sub-task result n/8
        if isinstance(v, int): return ["num", v]                                                # byte count / 0
        return ["other", repr(v)]

    def fdset(self, l, rng):
        """one descriptor set in one of the forms Select accepts: list, tuple, set, dict view, None"""
        if l is None: return None
        fds = [self.fd(i) for i in l]
        if rng is None: return fds
        forms = ["list", "tuple", "view"] + (["set"] if len(fds) <= 1 else []) + (["none"] if not fds else [])
        f = rng.choice(forms)
        if f == "tuple": return tuple(fds)
        if f == "set": return set(fds)
        if f == "view": return dict.fromkeys(fds).keys()
        if f == "none": return None
        return fds

    def build(self, y, tid):
        rc = self.rc; now = self.now(); tag = y[0]
        sec = lambda u: None if u is None else u / UNIT
        rng = random.Random(self.conv * 1000003 + tid * 1009 + self.cur_idx) if self.conv else None
        pick = (lambda n: rng.randrange(n)) if rng else (lambda n: 0)
        top = tid < self.ntop
        share = bool(rng) and (self.conv >> 3) & 1 == 1
        if tag == "num":
            if not y[1]: return (0 if pick(2) == 0 else 0.0), None
            if top and y[1] % 8 == 0 and pick(2): return y[1] // 8, [now + y[1], False]      # an int number of seconds
            return y[1] / UNIT, [now + y[1], False]
        if tag == "block": return False, None
        if tag == "dead": return False, None                          # stands for a `raise` in the isolation re-run (see body())
        if tag == "badop": return self.badop(), None
        if tag == "dummy":                                            # DummyOp(v): "returns" v at once - the task is rescheduled
            return (rc.DummyOp(y[1]) if pick(2) == 0 else rc.DummyOp(rv=y[1])), None
        if tag == "wake":                                             # Scheduler.schedule(task y[1]) in spelling y[2], then `yield 0`
            kind = self.do_wake(tid, y[1], y[2])
            return (False if kind == "self" else 0), None             # a task that scheduled itself just gives up its slice
        if tag == "sleep":
            if y[1] is None: return (rc.Sleep() if pick(2) == 0 else rc.Sleep(None)), None
            d = sec(y[1]); c = pick(5)
            if y[1] % 8 == 0 and pick(2): d = y[1] // 8
            op = (rc.Sleep(d) if c == 0 else rc.Sleep(timeToWake=d) if c == 1 else rc.Sleep(d, False) if c == 2 else
                  rc.Sleep(self.clock.now + d, True) if c == 3 else rc.Sleep(timeToWake=self.clock.now + d, absoluteTime=True))
            return op, [now + y[1], False]
        if tag == "sleepabs":
            w = sec(y[1]); c = pick(3)
            return (rc.Sleep(w, True) if c == 0 else rc.Sleep(w, absoluteTime=True) if c == 1 else rc.Sleep(timeToWake=w, absoluteTime=True)), [y[1], False]
        if tag == "select":
            has = bool(y[1] or y[2] or y[3])
            sets = [self.fdset(l, rng) for l in y[1:4]]
            to = sec(y[4]); c = pick(6)
            if share and (to is None or c < 3):                       # one Select object for every task that executes this yield
                op = self.shared_ops.get(id(y))
                if op is None:
                    op = self.shared_ops[id(y)] = (rc.Select(*sets) if to is None else rc.Select(*(sets + [to])) if c == 0 else
                                                   rc.Select(*sets, timeout=to) if c == 1 else rc.Select(*(sets + [to, False])))
                return op, (None if y[4] is None else [now + y[4], has])
            if to is None:
                op = (rc.Select(*sets) if c % 3 == 0 else rc.Select(*(sets + [None])) if c % 3 == 1 else rc.Select(*sets, timeout=None))
            elif c == 0: op = rc.Select(*(sets + [to]))
            elif c == 1: op = rc.Select(*sets, timeout=to)
            elif c == 2: op = rc.Select(*(sets + [to, False]))
            elif c == 3: op = rc.Select(*(sets + [self.clock.now + to, True]))
            elif c == 4: op = rc.Select(*sets, timeout=self.clock.now + to, timeIsAbsolute=True)
            else: op = rc.Select(*(sets + [self.clock.now + to]), timeIsAbsolute=True)
            return op, (None if y[4] is None else [now + y[4], has])
        if tag == "recv":
            to = sec(y[2]); c = pick(3)
            if share:
                op = self.shared_ops.get(id(y))
                if op is None: op = self.shared_ops[id(y)] = rc.Recv(self.fd(y[1]), timeout=to)
                return op, (None if y[2] is None else [now + y[2], True])
            op = (rc.Recv(self.fd(y[1]), timeout=to) if c == 0 else rc.Recv(self.fd(y[1]), 1024 * 8, rc.defaultRecvFlags, to) if c == 1
                  else (rc.Recv(self.fd(y[1])) if to is None else rc.Recv(self.fd(y[1]), bufsize=512, timeout=to)))
            return op, (None if y[2] is None else [now + y[2], True])
        if tag == "send":
            to = sec(y[3]); c = pick(3); data = b"d" * y[2]
            op = (rc.Send(self.fd(y[1]), data, timeout=to, block_size=y[4]) if c == 0 else rc.Send(self.fd(y[1]), data, to, y[4]) if c == 1
                  else (rc.Send(self.fd(y[1]), data, block_size=y[4]) if to is None else rc.Send(self.fd(y[1]), data, to, block_size=y[4])))
            return op, ("send", y[3])
        if tag == "exit": return rc.Exit(), None
        if tag == "again":
            tid2 = self.ntids; self.ntids += 1
            g = self.body(tid2, self.case["progs"][y[1]])
            self.tid_of[id(g)] = tid2; self.keep.append(g)
            self.subs.append([tid2, y[1], tid, self.cur_idx])
            return rc.Again(g), None
        if tag == "cancel":
            self.timers[y[1]].cancel()
            self.timer_due[y[1]] = None
            self.cancelled[y[1]] = True
            return 0, None
        if tag == "tstart":                                          # start a deferred timer (a no-op for a timer that is running already)
            j = y[1]; spec = self.case["timers"][j]
            if len(spec) > 4 and spec[4] and not self.tstarted.get(j):
                self.tstarted[j] = True
                tm = self.timers[j]; c = pick(3)
                cancelled = any(k == j for _, k in self.cbcancel) or self.cancelled.get(j)
                self.tstarts.append([len(self.trace), j, now])
                if not cancelled:
                    self.timer_due[j] = max(now, self.case["t0"] + spec[0]) if spec[4] == "abs" else now + spec[0]
                if self.threaded: tm.start(scheduler=self.sched, fast=True)
                elif c == 0: tm.start(self.sched)
                elif c == 1: tm.start(scheduler=self.sched)
                else: tm.start(scheduler=self.sched, fast=True)
            return 0, None
        raise ValueError(tag)

    SAFE_NEXT = ("block", "wake", "cancel", "tstart", "dummy", "raise", "braise", "dead")

    def next_safe(self, k):
        """will task k, which is in the ready queue now, after its next step be queued, blocked (yield False / Sleep(None)) or
        finished?  Only then may a wake that is carried out later (ScheduleTask) be sent after it: waking a task that waits in
        the hub or for a sub-task is a misuse of the API, not a test of it."""
        prog = self.prog_of[k]; i = self.step_of.get(k, -1) + 1
        if 0 < i <= len(prog) and prog[i - 1][0] == "send": return False      # released by the hub in the middle of a Send: it may write a part
        if i >= len(prog): return True                                        # and go back to the hub without running its next step
        y = prog[i]
        return y[0] in self.SAFE_NEXT or y == ["num", 0] or y == ["sleep", None]

    def do_wake(self, tid, k, how):
        """The running task `tid` schedules task `k` (a top-level task or a timer), in one of the spellings of the public API:
        0 schedule(t)  1 schedule(t, False)  2 schedule(task=t, first=True)  3 t.start(sched)  4 schedule(t) as called from a
        foreign thread (-> ScheduleTask)  5 t.start(scheduler=sched, priority=None, fast=False)  6 fast_schedule(t)
        7 t.start(sched, None, True)  (6 and 7 only where the documentation allows them: the target is not queued).
        What is done depends on where the harness knows the target to be:
          queued   -> the call is made and must change nothing ("noop"; spelling 4: "st-q", carried out after the target's next step)
          blocked  -> the call is made and wakes it ("eff"; spelling 4: "st-b")
          finished -> the call is made and must be harmless ("done")
          itself   -> schedule(self), then `yield False` instead of `yield 0` ("self")
          waiting in the hub / for a sub-task, descheduled by a failed operation, unknown -> no call ("skip")"""
        sched = self.sched; ntop = self.ntop; pos = len(self.trace)
        def rec(kind, h=how):
            self.wakes.append([pos, tid, k, h, kind]); return kind
        if not self.inline or k >= ntop + len(self.timers): return rec("skip")
        def state_of(t):
            """the harness's account; a task that can be seen in the ready deque is queued whatever way it got there (the deque is
            looked at only to find more redundant wakes, e.g. of tasks the hub has just released: schedule() of a task that is
            in the deque is by definition one that must change nothing)"""
            st = self.life.get(k)
            try:
                if st != "queued" and any(x is t for x in sched._ready): st = "queued"
            except Exception: pass
            return st
        if k >= ntop:                                                # a timer: only the redundant wake of a queued, still active timer
            j = k - ntop
            try: in_deque = any(x is self.timers[j] for x in sched._ready)
            except Exception: in_deque = False
            if (state_of(self.timers[j]) != "queued" or not in_deque       # (a timer's own steps are not instrumented: both accounts must agree)
                    or self.timer_due[j] is None or self.cancelled.get(j) or any(c == j for _, c in self.cbcancel)):
                return rec("skip")
            h = how if how in (0, 1, 2) else 0                         # (Timer.start() may be called once only)
            t = self.timers[j]
            if h == 0: sched.schedule(t)
            elif h == 1: sched.schedule(t, False)
            else: sched.schedule(task=t, first=True)
            return rec("noop", h)
        t = self.tops[k]
        state = self.life.get(k) if k == tid else state_of(t)
        if k == tid:
            if how % 2: t.start(sched)
            else: sched.schedule(t)
            return rec("self", how % 2)
        def foreign():
            mine = sched._thread
            sched._thread = None                                     # "not the scheduler's thread": schedule() hands the wake to a ScheduleTask
            try: sched.schedule(t)
            finally: sched._thread = mine
        def direct(h):
            if h == 0: sched.schedule(t)
            elif h == 1: sched.schedule(t, False)
            elif h == 2: sched.schedule(task=t, first=True)
            elif h == 3: t.start(sched)
            elif h == 5: t.start(scheduler=sched, priority=None, fast=False)
            elif h == 6: sched.fast_schedule(t)
            else: t.start(sched, None, True)
        if state == "queued":
            if how == 4 and not self.st_used.get(k) and self.next_safe(k):
                self.st_used[k] = True; foreign(); return rec("st-q")
            h = {4: 0, 6: 1, 7: 3}.get(how, how)
            direct(h); return rec("noop", h)
        if state == "blocked":
            if self.st_used.get(k): return rec("skip")                # a wake is on its way / was delivered: nothing may race with it
            if how == 4:
                self.st_used[k] = True; self.life[k] = "waking"; foreign(); return rec("st-b")
            direct(how); return rec("eff")
        if state == "done":
            h = {6: 0, 7: 3}.get(how, how)
            if h == 4: foreign()
            else: direct(h)
            return rec("done", h)
        return rec("skip")

    def body(self, tid, prog):
        i = 0; recv = None; wake = None; uncaught = None
        top = tid < self.ntop
        while True:
            if self.running is not None: self.overlap += 1
            self.running = tid
            self.cur_idx = i
            if isinstance(wake, tuple):                             # Send: its last registerSelect + timeout
                wake = None if wake[1] is None else [self.last_reg[tid] + wake[1], True]
            if any(self.tid(x) == tid for x in self.sched._ready): self.queued_run += 1
            self.pending.pop(tid, None); self.iowait.pop(tid, None)
            raw = self.last_ret.pop(tid, recv if (recv is None or recv[0] != "exc") else None)
            self.trace.append(["s", tid, i, self.now(), recv, wake, raw])
            if top: self.life[tid] = "running"; self.step_of[tid] = i
            try:
                try:
                    if uncaught is not None: raise uncaught
                    if i == len(prog):
                        if top: self.life[tid] = "done"
                        return
                    y = prog[i]
                    if y[0] == "raise": raise raised_class(self.conv, tid, i)(y[1])
                    if y[0] == "braise": raise raised_class(self.conv, tid, i, y[1])(y[1])
                except BaseException:
                    if top: self.life[tid] = "done"                 # the generator is finished
                    raise
                val, wake = self.build(y, tid)
                if wake is not None and wake[0] == "send": wake = ("send", wake[1])
                elif wake is not None and (y[0] != "num" or tid < self.ntop): self.pending[tid] = wake[0]     # `yield n` in a sub-task is its result
                if y[0] == "select": self.iowait[tid] = [list(l or ()) for l in y[1:4]]
                elif y[0] == "recv": self.iowait[tid] = [[y[1]], [], [y[1]]]
                elif y[0] == "send" and y[2] > 0: self.iowait[tid] = [[], [y[1]], [y[1]]]
                if top:                                             # where the task is once the scheduler has dealt with this yield
                    t_ = y[0]
                    self.life[tid] = ("queued" if (t_ in ("cancel", "tstart", "wake", "dummy") or y == ["num", 0]) else
                                      "blocked" if (t_ == "block" or y == ["sleep", None]) else
                                      "sub" if t_ == "again" else "done" if t_ == "dead" else "gone" if t_ in ("exit", "badop") else "hub")
            finally:
                self.running = None
            try:
                v = yield val
                if y[0] == "dead": return                           # (isolation re-run) a finished task that is scheduled again does nothing
                recv = self.canon_recv("val", v)
                if isinstance(v, tuple):                              # the result belongs to the task: scribbling on it must not matter
                    for l in v:
                        if isinstance(l, list): l.append(self)
            except Exception as e:
                recv = self.canon_recv("exc", e)
                if y[0] == "again" and not y[2]: uncaught = e
            i += 1

    def tid(self, t):
        if id(t) in self.tid_of: return self.tid_of[id(t)]
        g = getattr(getattr(t, "parent", None), "subtask_func", None)
        return self.tid_of.get(id(g), -1)

    NOT_FALSE = [None, 0, 0.0, "", (), True, 1, []]     # what a callback may return without stopping a self-stoppable timer

    def make_timer(self, j, spec, sched, threaded):
        """Timer j of the case, constructed in one of the forms the class accepts (positional / keyword arguments, relative /
        absolute time for a one-shot timer, started at once or later, with callback arguments)"""
        rc = self.rc; H = self
        delay, recurring, selfstop, false_at = spec[:4]
        defer = spec[4] if len(spec) > 4 else None               # "rel" / "abs": constructed with started=False, started later by `tstart j`
        tid = self.ntids; self.ntids += 1
        st = {"n": 0}
        c = (self.conv + j) % 6 if self.conv else 0
        args, kw = ((), {}) if c != 4 else ((tid, "a"), {"k": j})
        acts = [a for a in self.case.get("cbacts", ()) if a[0] == j]
        def cb(*a, **k):
            n = st["n"]; st["n"] += 1
            H.life[tid] = "running"                              # until Timer.run() sleeps again (hub) or ends (stays: never scheduled by a wake)
            if (a, k) != (args, kw) and H.cb_bad is None: H.cb_bad = "timer %d callback called with %r %r" % (j, a, k)
            H.trace.append(["f", tid, n, H.now()])
            stop = false_at == n
            H.timer_due[j] = None if (not recurring or (selfstop and stop)) else H.now() + delay
            for a_ in acts:
                if a_[1] == n and a_[2] == "cancel":             # [j, n, "cancel", k]: the callback cancels timer k (possibly itself)
                    H.timers[a_[3]].cancel(); H.timer_due[a_[3]] = None
                    H.cbcancel.append([len(H.trace), a_[3]])
            for a_ in acts:
                if a_[1] == n and a_[2] == "wake":               # [j, n, "wake", k, h]: the callback schedules task / timer k (spelling h)
                    H.do_wake(tid, a_[3], a_[4])
            for a_ in acts:
                if a_[1] == n and a_[2] == "raise":              # [j, n, "raise", c]: the callback raises (class c): only this timer dies
                    H.timer_due[j] = None
                    k_ = a_[3] % (len(EXC_CLASSES) + len(BASE_CLASSES))
                    raise (EXC_CLASSES[k_] if k_ < len(EXC_CLASSES) else BASE_CLASSES[k_ - len(EXC_CLASSES)])(7)
            return False if stop else H.NOT_FALSE[(H.conv + n + j) % len(H.NOT_FALSE)] if H.conv else None
        d = delay / UNIT
        self.threaded = threaded
        if defer:
            if defer == "abs": tm = rc.Timer(self.clock.now + d, cb, absoluteTime=True, selfStoppable=selfstop, started=False, args=args, kw=kw)
            elif c % 2: tm = rc.Timer(d, cb, False, recurring, args, kw, None, False, selfstop)
            else: tm = rc.Timer(d, cb, recurring=recurring, selfStoppable=selfstop, started=False, args=args, kw=kw)
            self.tid_of[id(tm)] = tid; self.timers.append(tm); self.timer_due.append(None)
            return
        if threaded:
            tm = rc.Timer(d, cb, recurring=recurring, selfStoppable=selfstop, scheduler=sched, started=False, args=args, kw=kw)
            tm.start(scheduler=sched, fast=True)
        elif c == 1: tm = rc.Timer(d, cb, False, recurring, (), {}, sched, True, selfstop)
        elif c == 2 and not recurring: tm = rc.Timer(self.clock.now + d, cb, absoluteTime=True, selfStoppable=selfstop, scheduler=sched)
        elif c == 3:
            tm = rc.Timer(d, cb, recurring=recurring, selfStoppable=selfstop, started=False)
            tm.start(sched)
        elif c == 5:
            tm = rc.Timer(timeToWake=d, callback=cb, recurring=recurring, selfStoppable=selfstop, started=False)
            tm.start(scheduler=sched, fast=True)
        else: tm = rc.Timer(d, cb, recurring=recurring, selfStoppable=selfstop, scheduler=sched, args=args, kw=kw)
        self.tid_of[id(tm)] = tid; self.timers.append(tm)
        self.timer_due.append(self.case["t0"] + delay)

    def make_task(self, tid, prog, T):
        """a top-level task: a BaseTask subclass whose run() is the body, or (programs that are never thrown an exception
        into) `Task(target=generator function, args=/kwargs=)`"""
        rc = self.rc
        c = (self.conv + tid) % 4 if self.conv else 0
        if c in (1, 2) and not any(y[0] == "again" for y in prog):
            t = rc.Task(target=self.body, args=(tid, prog)) if c == 1 else rc.Task(target=self.body, kwargs={"tid": tid, "prog": prog})
        else:
            t = T(tid, prog)
        self.tid_of[id(t)] = tid
        return t

    # ---- run
    def go(self):
        rc = self.rc; case = self.case
        self.clock.now = case["t0"] / UNIT
        import pox.lib.util as util
        H = self
        self.util = util; self.saved_os = util.os
        util.os = WatchedOS(self)                                   # the real pinger on real pipes, with a watchdog on reads that would hang
        try:
            with fake_epoll(self):
                if self.use_epoll:                                  # (spelt out only when asked for: the default configuration is a case too)
                    sched = rc.Scheduler(isDefaultScheduler=False, startInThread=False, use_epoll=True, threaded_selecthub=False)
                else:
                    sched = rc.Scheduler(isDefaultScheduler=False, startInThread=False, threaded_selecthub=False)
                self.sched = sched
                hub = self.hub = sched._selectHub
                return self.go2(sched, hub)
        finally:
            util.os = self.saved_os
            signal.setitimer(signal.ITIMER_REAL, 0)

    def go2(self, sched, hub):
        rc = self.rc; case = self.case; H = self
        sched._thread = threading.current_thread()
        if not self.use_epoll: hub._select_func = self.vselect      # with use_epoll the hub keeps its EpollSelect, on top of FakeEpoll
        self.last_reg = {}
        real_register = hub.registerSelect
        real_return = hub._return
        def _ret(task, val):                                        # notes what the hub puts into task.rv (the "raw" value of the next resume)
            H.last_ret[H.tid(task)] = H.canon_recv("val", val)
            return real_return(task, val)
        hub._return = _ret
        real_fast = sched.fast_schedule
        def fast_schedule(task, first=False):                       # the public entry to the ready queue: whoever passes here is queued
            k = H.tid(task)
            if 0 <= k < H.ntop + len(case["timers"]): H.life[k] = "queued"
            return real_fast(task, first)
        sched.fast_schedule = fast_schedule
        def register(task, *a, **kw):                               # ... and whoever registers with the hub waits there (Send re-registers itself)
            k = H.tid(task)
            H.last_reg[k] = H.now()
            if 0 <= k < H.ntop + len(case["timers"]): H.life[k] = "hub"      # (also a Send that re-registers itself without being resumed)
            return real_register(task, *a, **kw)
        hub.registerSelect = register
        real_register_timer = hub.registerTimer
        def register_timer(task, *a, **kw):                         # the other public entry (whether it goes through registerSelect is the hub's business)
            k = H.tid(task)
            H.last_reg[k] = H.now()
            if 0 <= k < H.ntop + len(case["timers"]): H.life[k] = "hub"
            return real_register_timer(task, *a, **kw)
        hub.registerTimer = register_timer
        draws = self.draws
        def scripted_random():                                      # Scheduler._random: the case's draw sequence, then 0
            return draws.pop(0) / UNIT if draws else 0.0
        sched._random = scripted_random
        class T(rc.BaseTask):
            def run(t, tid, prog): return H.body(tid, prog)
        tops = self.tops
        for k in case["tasks"]:
            tid = self.ntids; self.ntids += 1
            self.prog_of[tid] = case["progs"][k]
            t = self.make_task(tid, case["progs"][k], T); tops.append(t)
            pr = case["prios"][tid] if tid < len(case.get("prios", ())) else None
            if self.conv and (self.conv + tid) % 5 == 0: t.start(sched, None if pr is None else pr / UNIT, True)    # positional, fast
            else: t.start(scheduler=sched, priority=(None if pr is None else pr / UNIT))
        self.timers = []
        for j, spec in enumerate(case["timers"]):
            self.make_timer(j, spec, sched, False)
        self.keep += tops
        budget = case["budget"]
        st = {"n": 0, "quit": None}
        real_cycle = sched.cycle
        def cycle():
            st["n"] += 1
            r = real_cycle()
            if st["n"] >= budget and st["quit"] is None:
                st["quit"] = sched._hasQuit; sched._hasQuit = True
            return r
        sched.cycle = cycle
        run_exc = None
        out = io.StringIO()
        def alarm(signum, frame):                                   # last resort (wall clock; only a run that hangs ever gets here)
            if H.blocked is None: H.blocked = "the scheduler thread made no progress for %d s of real time" % self.WATCHDOG_S
            raise HubBlocked(H.blocked)
        main = threading.current_thread() is threading.main_thread()
        if main:
            old_handler = signal.signal(signal.SIGALRM, alarm)
            signal.setitimer(signal.ITIMER_REAL, self.WATCHDOG_S)
        try:
            with contextlib.redirect_stdout(out), contextlib.redirect_stderr(out):
                sched.run()
        except BaseException as e:                                  # whatever leaves Scheduler.run() is an observable, never a harness failure
            run_exc = type(e).__name__
        finally:
            if main:
                signal.setitimer(signal.ITIMER_REAL, 0); signal.signal(signal.SIGALRM, old_handler)
        quit_ = sched._hasQuit if st["quit"] is None else st["quit"]
        tid = self.tid
        text = out.getvalue()
        excs = sorted(set(m.split(".")[-1] for m in re.findall(r"^([A-Za-z_][\w.]*)(?::|$)", text, re.M)
                          if m not in ("Task", "Traceback")))
        obs = {"trace": self.trace, "quit": bool(quit_) and run_exc is None, "crashed": run_exc is not None, "cycles": st["n"],
               "now": self.now(), "ready": [tid(t) for t in sched._ready], "incoming": [tid(e[0]) for e in list(hub._incoming.queue)],
               "hub": [tid(t) for t in hub._tasks], "subs": self.subs, "overlap": self.overlap, "run_exc": run_exc,
               "descheduled": text.count("de-scheduled"), "excs": excs, "queued_run": self.queued_run,
               "overslept": self.overslept, "cb_bad": self.cb_bad, "cbcancel": self.cbcancel, "tstarts": self.tstarts,
               "wakes": self.wakes, "blocked": self.blocked}
        if self.use_epoll: obs["epoll_multi"] = self.epoll_multi
        obs["maxdrain"] = max(self.drains) if self.drains else 0     # most wake-up bytes found pending at a drain (evidence only)
        if self.blocked:                                            # who is left behind: everybody who is queued or waits for a time / a descriptor
            obs["stranded"] = sorted(set(list(self.pending) + list(self.iowait) + [k for k, v in self.life.items() if v in ("queued", "hub")]))[:20]
        # release the pinger pipe now (its __del__ would otherwise close recycled descriptor numbers later)
        p = hub._pinger
        for a in ("_r", "_w"):
            try: os.close(getattr(p, a))
            except OSError: pass
            setattr(p, a, -1)
        sched.cycle = None; hub._select_func = None; hub.registerSelect = None; hub.registerTimer = None; hub._return = None; sched._random = None; sched.fast_schedule = None
        return obs


class _AllOf:
    """`(filename, firstlineno) in x` for every function of the given files (line coverage under the forced scheduler)"""
    def __init__(self, files): self.files = files
    def __contains__(self, k): return k[0] in self.files


class ThreadedRun(Run):
    """The same task programs on `Scheduler(startInThread=True, threaded_selecthub=True)`: the scheduler thread `S` and the hub
    thread `H` are real threads managed by the forced thread scheduler (harness/forcedthreads.py): they run one at a time,
    switching only at operations of the replaced primitives (Event, Queue, Pinger, select, Lock), in the order a seeded chooser
    picks.  Time is virtual: it advances only when no thread can run, to the earliest pending deadline (`Event.wait(t)`,
    `select(..., t)`) or scripted descriptor readiness; `select(..., 0)` is a poll.  Nothing of recoco is edited: the
    primitives are installed as module attributes for the duration of the run."""
    MAX_STEPS = 8000
    inline = False                                               # (no `wake` here: who schedules whom across threads is C07's subject)

    def epoll_select(self, rl, wl, xl, timeout):
        return self._vsel(rl, wl, xl, timeout)

    def go(self):
        import pox.lib.util as util
        rc = self.rc; case = self.case; H = self
        self.clock.now = case["t0"] / UNIT
        sc = case["sched"]
        rng = random.Random(sc["seed"])
        if sc["t"] == "pct": chooser = ft.PCTChooser(rng, sc.get("d", 3), sc.get("k", 300))
        elif sc["t"] == "seq": chooser = ft.PreemptChooser(["S", "H"] if sc["seed"] % 2 == 0 else ["H", "S"], {})
        else: chooser = ft.RandomChooser(rng)
        cover = None
        tr = sys.gettrace()                                   # run_check's AnchorCoverage tracer, if it is active
        covobj = getattr(tr, "__self__", None)
        if isinstance(covobj, common.AnchorCoverage): cover = covobj.hit
        rfile = rc.__file__
        ctl = ft.Controller(chooser, trace_funcs=(_AllOf({rfile}) if cover is not None else ()), yield_lines=(),
                            max_steps=self.MAX_STEPS, frame_files=(rfile,), cover=cover)
        def namer(th):
            n = getattr(th._target, "__name__", "")
            return "H" if n == "_threadProc" else "S" if n == "run" else None
        prim = ft.make_primitives(ctl, namer)
        deadlines = {}                                         # thread name -> virtual time at which its blocking call times out
        class VEvent(prim.Event):
            def wait(ev, timeout=None):
                me = ctl.me()
                if me is not None and timeout is not None: deadlines[me.name] = H.clock.now + timeout
                return prim.Event.wait(ev, timeout)
        class VThreading(prim.threading):
            Event = VEvent
        vos = prim.VirtualOS()                                 # pipes of the REAL pinger (pox.lib.util.make_pinger) under the forced scheduler:
        self._vos = vos                                        # a read of an empty pipe blocks the thread that makes it until somebody writes
        def is_ready(o, k):
            if isinstance(o, util.Pinger): return k == 0 and vos.pending(o.fileno()) > 0
            t = H.tabs[k].get(o.id)
            return t is not None and t <= H.now()
        def vsel(r, w, x, timeout=None):
            lists = [list(r), list(w), list(x)]
            def result():
                return tuple([o for o in l if is_ready(o, k)] for k, l in enumerate(lists))
            if timeout is not None and timeout <= 0:          # a poll returns at once
                ctl.yield_point(prim.P("select"))
                return result()
            me = ctl.me()
            if me is not None and timeout is not None: deadlines[me.name] = H.clock.now + timeout
            to = ctl.yield_point(prim.P("select"), blocked=lambda: any(result()), timeout=timeout is not None)
            if to: return [], [], []
            return result()
        class VSelectModule:
            select = staticmethod(vsel); error = OSError
        saved = (rc.threading, rc.Thread, rc.Queue, rc.select, util.os)
        trace_saved = sys.gettrace()
        sys.settrace(None)
        rc.threading, rc.Thread, rc.Queue, rc.select = VThreading, prim.Thread, prim.Queue, VSelectModule
        util.os = vos
        self._vsel = vsel
        out = io.StringIO()
        redir = contextlib.ExitStack()
        redir.enter_context(fake_epoll(self))
        try:
            if self.use_epoll:
                sched = self.sched = rc.Scheduler(isDefaultScheduler=False, startInThread=True, daemon=True, use_epoll=True, threaded_selecthub=True)
            else:
                sched = self.sched = rc.Scheduler(isDefaultScheduler=False, startInThread=True, daemon=True, threaded_selecthub=True)
            hub = self.hub = sched._selectHub
            self.last_reg = {}
            real_register = hub.registerSelect
            def register(task, *a, **kw):
                H.last_reg[H.tid(task)] = H.now()
                return real_register(task, *a, **kw)
            hub.registerSelect = register
            real_return = hub._return
            def _ret(task, val):                                        # notes what the hub puts into task.rv (the "raw" value of the next resume)
                H.last_ret[H.tid(task)] = H.canon_recv("val", val)
                return real_return(task, val)
            hub._return = _ret
            draws = self.draws
            def scripted_random():                                      # Scheduler._random: the case's draw sequence, then 0
                return draws.pop(0) / UNIT if draws else 0.0
            sched._random = scripted_random
            class T(rc.BaseTask):
                def run(t, tid, prog): return H.body(tid, prog)
            tops = []
            for k in case["tasks"]:
                tid = self.ntids; self.ntids += 1
                t = self.make_task(tid, case["progs"][k], T); tops.append(t)
                pr = case["prios"][tid] if tid < len(case.get("prios", ())) else None
                t.start(scheduler=sched, fast=True, priority=(None if pr is None else pr / UNIT))   # scheduled before the scheduler starts
            self.timers = []
            for j, spec in enumerate(case["timers"]):
                self.make_timer(j, spec, sched, True)
            self.keep += tops
            budget = case["budget"]
            st = {"n": 0, "quit": None}
            real_cycle = sched.cycle
            def cycle():
                st["n"] += 1
                r = real_cycle()
                if st["n"] >= budget and st["quit"] is None:
                    st["quit"] = sched._hasQuit; sched._hasQuit = True
                return r
            sched.cycle = cycle
            fd_times = sorted(set(t for tab in self.tabs for t in tab.values() if t is not None))
            def policy(c, en):
                if en: return chooser.pick(c, en)
                now = H.now()
                cands = [t for t in c.threads if not t.done and t.timeout]
                nothing_pending = (not sched._ready and sched._selectHub._incoming.qsize() == 0 and
                                   not any(e[4] is not None for e in hub._tasks.values()) and not any(t > now for t in fd_times))
                if nothing_pending: return ("stop", "quiescent")
                if not cands: return ("stop", "deadlock")
                while True:
                    now = H.now()
                    nxt = min([deadlines[t.name] for t in cands] + [t / UNIT for t in fd_times if t > now])
                    if nxt > H.clock.now:
                        H.advance(now, int(nxt * UNIT))         # no thread can run: nothing that is due before `nxt` may be left waiting
                        H.clock.now = nxt
                    en = c.enabled()
                    if en: return chooser.pick(c, en)           # a descriptor became ready
                    due = sorted((t for t in cands if deadlines[t.name] <= H.clock.now), key=lambda t: t.name)
                    if due: return ("timeout", due[rng.randrange(len(due))])
            redir.enter_context(contextlib.redirect_stdout(out)); redir.enter_context(contextlib.redirect_stderr(out))
            status = ctl.run(policy)
            redir.close()
            errors = dict((t.name, t.error) for t in ctl.threads if t.error)
            run_exc = None
            if errors: run_exc = sorted(errors.values())[0].split(":")[0]
            text = out.getvalue()
            excs = sorted(set(m.split(".")[-1] for m in re.findall(r"^([A-Za-z_][\w.]*)(?::|$)", text, re.M)
                              if m not in ("Task", "Traceback")))
            ended = status in ("quiescent", "alldone")
            obs = {"trace": self.trace, "quit": ended and run_exc is None, "crashed": run_exc is not None,
                   "cycles": (case["budget"] if status == "budget" else st["n"]), "now": self.now(),
                   "ready": [self.tid(t) for t in sched._ready], "incoming": [self.tid(e[0]) for e in hub._incoming.snapshot()],
                   "hub": [self.tid(t) for t in hub._tasks], "subs": self.subs, "overlap": self.overlap,
                   "run_exc": run_exc if run_exc else ("deadlock" if status == "deadlock" else None),
                   "descheduled": text.count("de-scheduled"), "excs": excs, "status": status, "steps": ctl.steps,
                   "queued_run": self.queued_run, "overslept": self.overslept, "cb_bad": self.cb_bad, "cbcancel": self.cbcancel, "tstarts": self.tstarts,
                   "wakes": self.wakes}
            if status == "deadlock": obs["crashed"] = True
        finally:
            redir.close()
            leaked = ctl.teardown()
            rc.threading, rc.Thread, rc.Queue, rc.select, util.os = saved
            sys.settrace(trace_saved)
            if leaked: common.log("C06: managed threads did not unwind: %s" % leaked)
        return obs


# --------------------------------------------------------------------------------------------------------------- cases

def mk(progs, tasks, timers=(), r=(), w=(), x=(), send=(), recv=(), t0=T0, budget=400, label="", prios=(), draws=(), conv=0):
    """prios[i]: priority of task i in 1/8 (missing = 8 = the default 1); draws: scripted Scheduler._random() results in 1/8
    (exhausted = 0); conv: seed choosing, per yield, one of the calling conventions the blocking-operation classes accept
    (0 = the plainest one) - semantically irrelevant, so the model does not see it"""
    return {"t0": t0, "budget": budget, "progs": progs, "tasks": tasks, "timers": timers, "r": r, "w": w, "x": x, "send": send,
            "recv": recv, "label": label, "prios": list(prios), "draws": list(draws), "conv": conv}

def wants_canary(case):
    """one inline case in four is followed by the canary run (decided from the case alone, so that replays agree)"""
    if case.get("kind") == "epoll" or case.get("mode") == "threaded": return False
    if case.get("label") == "hidden state": return True
    import zlib
    return zlib.crc32(json.dumps([case["progs"], case["tasks"], case["timers"], case.get("conv", 0)]).encode()) % 5 == 0


NUM0, NUM4, BLOCK, SLEEP4, SLEEP0, EXIT = ["num", 0], ["num", 4], ["block"], ["sleep", 4], ["sleep", 0], ["exit"]
SLEEPN = ["sleep", None]
RAISE = ["raise", 1]
SEL_T = ["select", [], [], [], 4]                 # pure timeout
SEL_R0 = ["select", [0], [], [], 12]              # fd 0 (readable from T0+6) with timeout
SEL_R1 = ["select", [1], None, None, None]        # fd 1: never ready, no timeout -> blocks for ever
SUBS = [[["num", 3]], [SLEEP4], [], [["raise", 2]], [SLEEP4, ["num", 5]], [["braise", 1]], [SLEEP4, ["braise", 3]]]
BADOP = ["badop"]
CANARY = mk([[SLEEP4, ["select", [0], [1], [], 12], ["again", 2, True], NUM0], [["select", [1], [], [], 4], ["recv", 0, 8]], [SLEEP0, ["num", 0]]],
            [0, 1, 0], [[5, True, True, 1], [5, False, True, None]], r=[T0 + 6, None], w=[None, T0 + 6], x=[None, None], label="canary")


def sub_table(base):
    """programs base.. followed by the fixed sub-functions used by the small-scope alphabets"""
    return list(base) + SUBS


def rand_yield(rng, nsub_from, nprogs, ntimers, nfds, t0):
    """one yield; `again` only calls programs with index >= nsub_from (a DAG, so every run terminates)"""
    t = lambda hi=24: rng.choice([0, 1, 2, 4, 4, 8, 12, 16, 17, rng.randint(0, hi)])
    opt = lambda: None if rng.random() < 0.3 else t()
    fl = lambda: rng.choice([[], [], None, [rng.randrange(nfds)], [rng.randrange(nfds)], [rng.randrange(nfds), rng.randrange(nfds)]])
    r = rng.random()
    if r < 0.20: return ["num", 0]
    if r < 0.215: return ["dummy", rng.choice([0, 3])]
    if r < 0.22: return ["num", 0]
    if r < 0.30: return ["num", t()]
    if r < 0.40: return ["sleep", t()]
    if r < 0.42: return ["sleep", None]
    if r < 0.46: return ["sleepabs", max(0, t0 + rng.choice([-T0, -8, 0, 4, 16, t(40)]))]
    if r < 0.49: return ["block"]
    if r < 0.66: return ["select", fl(), fl(), fl(), opt()]
    if r < 0.71: return ["recv", rng.randrange(nfds), opt()]
    if r < 0.76: return ["send", rng.randrange(nfds), rng.choice([1, 3, 4, 8, 10, 16]), opt(), rng.choice([2, 4, 16])]
    if r < 0.77: return ["exit"]
    if r < 0.78: return ["badop"]
    if r < 0.795: return ["braise", rng.randrange(4)]
    if r < 0.82: return ["raise", rng.randint(1, 3)]
    if r < 0.95 and nsub_from < nprogs: return ["again", rng.randrange(nsub_from, nprogs), rng.random() < 0.7]
    if ntimers: return ["cancel", rng.randrange(ntimers)]
    return ["num", 0]


def rand_case(rng, ntasks=None, maxlen=12):
    ntop = ntasks or rng.randint(2, 8)
    nsub = rng.choice([0, 1, 2, 3, 4])
    nprogs = ntop + nsub
    ntimers = rng.choice([0, 0, 1, 1, 2])
    nfds = 4
    t0 = T0 if rng.random() < 0.9 else 0
    progs = []
    for k in range(nprogs):
        n = rng.choice([0, 1, 2, 3, rng.randint(0, maxlen), rng.randint(0, maxlen)])
        lo = ntop if k < ntop else k + 1
        progs.append([rand_yield(rng, lo, nprogs, ntimers, nfds, t0) for _ in range(n)])
    tab = lambda: [None if rng.random() < 0.35 else t0 + rng.choice([0, 2, 4, 6, 12, 20, 40]) for _ in range(nfds)]
    timers = [[rng.choice([0, 2, 5, 9, 18]), rng.random() < 0.6, rng.random() < 0.8, rng.choice([None, 0, 1, 2, 3, 3])] for _ in range(ntimers)]
    scr = lambda: [rng.choice([None, 0, 1, 2, 3, 8]) for _ in range(rng.choice([0, 0, 2, 5]))]
    c = mk(progs, list(range(ntop)), timers, tab(), tab(), tab(), scr(), scr(), t0, rng.choice([40, 400, 400]), "random")
    if rng.random() < 0.3:                                        # the priority lottery: some or all tasks below priority 1
        lo = rng.random() < 0.6
        c["prios"] = [rng.choice([0, 1, 2, 4, 6, 7]) if (lo or rng.random() < 0.5) else rng.choice([8, 8, 12]) for _ in range(ntop)]
        c["draws"] = [rng.choice([0, 1, 3, 5, 7, 8, 8, 8, 8]) for _ in range(rng.choice([0, 4, 12, 30]))]
    c["conv"] = rng.randrange(1, 1 << 20) if rng.random() < 0.8 else 0
    if rng.random() < 0.25:                                       # Scheduler(use_epoll=True)
        c["epoll"] = True; c["x"] = [None] * nfds
    if ntimers and rng.random() < 0.08:                           # callbacks that cancel a timer (possibly their own) or raise: judged by the oracle alone
        c["cbacts"] = [([rng.randrange(ntimers), rng.choice([0, 0, 1, 2]), "cancel", rng.randrange(ntimers)] if rng.random() < 0.6 else
                        [rng.randrange(ntimers), rng.choice([0, 0, 1]), "raise", rng.randrange(10)]) for _ in range(rng.choice([1, 1, 2]))]
        if rng.random() < 0.4:
            c["cbacts"] += [[rng.randrange(ntimers), rng.choice([0, 0, 1, 2]), "wake", rng.randrange(ntop + ntimers), rng.randrange(8)] for _ in range(rng.choice([1, 2]))]
    if ntimers and rng.random() < 0.15:                           # timers built with started=False and started later by a task (oracle alone)
        for j, t in enumerate(c["timers"]):
            if rng.random() < 0.7:
                kind = "rel" if (t[1] or rng.random() < 0.6) else "abs"
                t.append(kind)
                for _ in range(rng.choice([1, 1, 2])):              # somebody starts it, at some point of some top-level program
                    k = rng.randrange(ntop); c["progs"][k].insert(rng.randint(0, len(c["progs"][k])), ["tstart", j])
    if rng.random() < 0.3:                                        # tasks that schedule other tasks, timers, themselves
        for _ in range(rng.choice([1, 2, 3, 5])):
            k = rng.randrange(nprogs) if rng.random() < 0.2 else rng.randrange(ntop)
            c["progs"][k].insert(rng.randint(0, len(c["progs"][k])), ["wake", rng.randrange(ntop + ntimers), rng.randrange(NHOW)])
        if rng.random() < 0.5:                                      # ... and tasks that block until somebody does
            for _ in range(rng.choice([1, 2])):
                k = rng.randrange(ntop); c["progs"][k].insert(rng.randint(0, len(c["progs"][k])), rng.choice([BLOCK, SLEEPN]))
    return c


ALPHA = [NUM0, NUM4, SLEEP4, SLEEP0, SEL_T, SEL_R0, SEL_R1, BLOCK, SLEEPN, RAISE, EXIT, ["recv", 0, None], ["send", 2, 6, None, 4],
         ["cancel", 0], ["sleepabs", T0 + 4]]
ALPHA += [["again", -k, c] for k in (1, 2, 3, 4, 5) for c in (True, False)]          # -k: k-th fixed sub-function (see SUBS)
DROP = [SLEEPN, ["sleepabs", T0 + 4], ["again", -2, False], ["again", -5, False], ["again", -1, False]]
CORE = [NUM0, NUM4, SLEEP4, SEL_T, SEL_R0, BLOCK, RAISE, ["again", -1, True], ["again", -2, True], ["again", -4, False]]
FD_R, FD_W, FD_X = [T0 + 6, None, None], [None, None, T0 + 2], [None, None, None]
ONE_TIMER = [[5, True, True, 2]]


def scope(alpha, ntasks, maxlen, timers=ONE_TIMER, send=(4, 0), label="scope"):
    """every assignment of programs of length <= maxlen over `alpha` to `ntasks` tasks (start order matters)"""
    plist = [list(p) for n in range(maxlen + 1) for p in itertools.product(alpha, repeat=n)]
    send = list(send)
    for combo in itertools.product(range(len(plist)), repeat=ntasks):
        used = sorted(set(combo))
        nb = len(used)
        progs = [[(["again", nb - 1 - y[1], y[2]] if y[0] == "again" and y[1] < 0 else y) for y in plist[i]] for i in used] + SUBS
        yield mk(progs, [used.index(i) for i in combo], timers, FD_R, FD_W, FD_X, send, [], T0, 120, label)


LOTTERY = [([2, 2, 2], [8] * 7), ([4, 1, 6], [5, 5, 5, 3, 7, 0, 8, 8, 8, 2, 8, 8, 8]), ([2, 8, 2], [8, 8, 8, 8, 3]),
           ([0, 0, 0], [1, 1, 1, 1, 1, 1, 0, 1, 1, 1]), ([7, 7, 3], [8, 8, 8, 8, 8, 8, 7, 8, 8, 8, 8])]


def lottery_cases(alpha, ntasks, maxlen, label="lottery"):
    """every program assignment of a small scope under several (priorities, draw sequence) pairs, including sweeps in which
    every ready task loses its draw"""
    for i, c in enumerate(scope(alpha, ntasks, maxlen, timers=[], label=label)):
        for j, (pr, dr) in enumerate(LOTTERY):
            d = dict(c); d["prios"] = pr[:ntasks]; d["draws"] = list(dr); d["conv"] = (i * 7 + j) % 5
            yield d


def hand_cases():
    P = sub_table([[NUM0, ["num", 12], ["sleep", 16], NUM0], [SEL_T, NUM0, ["num", 24]]])
    yield mk(P, [0, 1], [[18, True, True, 2]], label="design spike D.5")
    K = 6
    P = sub_table([[NUM0, ["num", 12], ["sleep", 16], NUM0], [SEL_T, NUM0, ["num", 24]],
                   [["again", K + 0, True], ["again", K + 3, True], ["again", K + 1, True], ["again", K + 4, True], NUM0],
                   [["again", K + 3, False], NUM0], [SEL_R0, SEL_R1],
                   [["recv", 0, None], ["send", 0, 10, None, 4], ["send", 0, 10, 4, 4], NUM0]])
    yield mk(P, [2], label="sub-task results")
    yield mk(P, [3, 0], label="uncaught sub-task exception")
    yield mk(P, [4, 4, 0], r=[T0 + 6, None], label="two tasks select on one fd")
    yield mk(P, [5, 1], r=[T0 + 6], w=[T0 + 2], send=[2, 2, 2, 2, 2, 1, 1, 1], label="recv + partial sends")
    yield mk(P, [5, 0], r=[T0 + 6], w=[T0 + 2], send=[3, 0], label="D25: send writes 0 bytes")
    yield mk(P, [5, 0], r=[T0 + 6], w=[T0 + 2], send=[3, None], label="D25: send raises socket.error")
    yield mk([[["again", 1, True], NUM0], []], [0], label="D60: empty sub-task")
    yield mk([[["again", 1, False], NUM0], []], [0, 0], label="D60: empty sub-task, uncaught")
    yield mk([[NUM0, EXIT, NUM0], [NUM0, NUM0, NUM0]], [1, 0, 1], label="exit")
    yield mk([[SLEEP4, ["cancel", 0], SLEEP4, ["cancel", 1]], [["sleep", 40]]], [0, 1], [[3, True, True, None], [9, False, False, 0]], label="cancel")
    yield mk([[["sleep", 0], ["sleepabs", 0], ["sleepabs", 5], ["num", 3]]], [0, 0], t0=0, label="clock at 0")
    yield mk([[NUM0] * 6], [0, 0], [[0, True, False, None]], budget=40, label="budget stops a timer that never ends")
    # falsy results: 0, False, nothing, b"" - each must arrive as itself
    P = [[["again", 1, True], ["again", 2, True], ["again", 3, True], ["again", 4, True], ["recv", 0, None], ["recv", 0, 4], NUM0],
         [["num", 0]], [BLOCK], [], [SLEEP0, ["num", 0]]]
    yield mk(P, [0, 0], r=[T0], recv=[0, 0, 0, 0], label="falsy results")
    yield mk(P, [0], r=[T0], recv=[0], t0=0, label="falsy results, clock at 0", conv=7)
    # several things due in one sweep of the hub
    for cv in (0, 3, 11):
        yield mk([[SLEEP4, SLEEP4, ["sleep", 8]], [["sleep", 8], ["sleepabs", T0 + 12]]], [0, 1, 0], [[4, True, True, 2], [4, True, False, None], [8, False, True, None]],
                 label="equal deadlines: timers and sleepers", conv=cv, budget=60)
        yield mk([[SLEEP4, ["cancel", 0], ["cancel", 1]], [NUM0, ["sleepabs", T0 + 4], ["cancel", 1], ["cancel", 0]]], [0, 1], [[4, True, True, None], [4, False, True, None]],
                 label="cancel in the sweep in which the timer expires", conv=cv, budget=60)
        yield mk([[["select", [0], [2], [], 0], ["select", [0], [2], [], 4], ["select", [1], [2], [0], 4]], [SLEEP4, ["select", [0], [], [], 0]]], [0, 1, 0],
                 [[4, False, True, None]], r=[T0, T0 + 4], w=[None, None, T0 + 4], x=[T0 + 8], label="expired and ready in one sweep", conv=cv)
        yield mk([[SLEEP4, BADOP, NUM0], [["again", 2, True], NUM0], [SLEEP0, BADOP]], [0, 1, 0], label="operation that raises", conv=cv)
    # exceptions that are not Exceptions (SystemExit, KeyboardInterrupt, GeneratorExit, a user BaseException): in a task, a sub-task, an operation
    for b in range(4):
        P = [[NUM0, ["braise", b], NUM0], [NUM0, NUM0, SLEEP4, NUM0], [["again", 3, True], NUM0], [SLEEP0, ["braise", b]], [SLEEP4, BADOP, NUM0]]
        yield mk(P, [0, 1, 2, 1, 4], [[4, True, True, 2]], label="BaseException in a task, a sub-task, an operation", conv=b * 3, budget=80)
        c = mk([[SLEEP4, ["sleep", 8], ["sleep", 40]]], [0, 0], [[4, True, True, None], [6, False, True, None]], label="callback raises", budget=80)
        c["cbacts"] = [[0, 1, "raise", 6 + b], [1, 0, "raise", b]]
        yield c
    # timers built with started=False and started later (after the clock has moved), cancelled before / after start(), absolute deadlines
    for cv in (0, 1, 2, 5):
        yield mk([[["sleep", 8], ["tstart", 0], ["tstart", 1], ["tstart", 2], ["sleep", 40], ["cancel", 1]]], [0],
                 [[5, False, True, None, "rel"], [3, True, True, None, "rel"], [0, False, True, None, "rel"]], label="deferred timers", conv=cv, budget=120)
        yield mk([[["sleep", 8], ["cancel", 0], ["tstart", 0], ["tstart", 1], ["num", 4], ["cancel", 1], ["tstart", 2], ["tstart", 2], ["sleep", 24]]], [0],
                 [[5, False, True, None, "rel"], [8, True, False, 0, "rel"], [4, True, True, 1, "rel"]], label="deferred timers: cancel before and after start", conv=cv, budget=120)
        yield mk([[["sleep", 8], ["tstart", 0], ["tstart", 1], ["sleep", 24]], [["sleep", 16], ["tstart", 2]]], [0, 1],
                 [[4, False, True, None, "abs"], [12, False, True, None, "abs"], [16, False, False, 0, "abs"], [6, True, True, 2]],
                 label="deferred timers: absolute deadlines", conv=cv, budget=120)
    # a task is scheduled again by another task at every point of its life: in the queue (must change nothing), blocked (wakes it,
    # once), finished (harmless), itself (= gives up its slice); every spelling of the call
    for h in range(NHOW):
        yield mk([[NUM0, SLEEP4, SLEEPN, NUM0], [W(0, h), NUM0, W(0, h)]], [0, 1], label="wake: queued by `yield 0`, then sleeps", conv=h)
        yield mk([[BLOCK, SLEEP4, NUM0, BLOCK, NUM0], [W(0, h), W(0, h), ["sleep", 8], W(0, h), NUM0, W(0, h)]], [0, 1], label="wake: blocked, woken once", conv=h)
        yield mk([[NUM0, RAISE], [NUM0], [NUM0, NUM0, W(0, h), W(1, h), SLEEP4, W(0, h), W(1, h)]], [0, 1, 2], label="wake: finished tasks", conv=h)
        yield mk([[W(0, h), SLEEP4, W(0, h), NUM0], [W(1, h), W(0, h), W(1, h)]], [0, 1], label="wake: a task schedules itself", conv=h)
        yield mk([[["again", 2, True], SLEEP4, NUM0], [W(0, h), NUM0, W(0, h), SLEEP4, W(0, h)], [SLEEP4, W(0, h), ["num", 5]]], [0, 1],
                 label="wake: caller of a sub-task, sub-task that wakes", conv=h)
    for i, (tg, n) in enumerate(itertools.product(([NUM0, SLEEP4, SLEEP4, SLEEP4, NUM0], [SLEEP4, SLEEP4, SLEEP4, NUM0], [BLOCK, NUM0, BLOCK, SLEEP4, BLOCK],
                                                   [NUM0, NUM0, SLEEPN, NUM0, NUM0, RAISE]), (0, 1, 2))):
        for h in (i % NHOW, (i + 3) % NHOW):                           # a timer callback schedules a task that is queued / blocked / finished
            c = mk([tg, [["sleep", 20]]], [0, 1], [[4, True, True, 3], [2, True, False, None]], label="wake: from a timer callback", budget=100, conv=h)
            c["cbacts"] = [[0, n, "wake", 0, h], [1, n + 1, "wake", 0, (h + 1) % NHOW], [1, 2 * n, "wake", 2, 0], [0, 1, "cancel", 1]]
            yield c
    for i, dr in enumerate(itertools.product([0, 8], repeat=5)):       # a caller of priority < 1 is handed back the CPU, loses the draw, and is scheduled
        yield mk([[["again", 2, True], SLEEP4, NUM0], [W(0, i % NHOW), NUM0, W(0, (i + 3) % NHOW)], [["num", 3]]], [0, 1], prios=[2, 8], draws=list(dr) + [0] * 8,
                 label="wake: caller that lost the draw", conv=i % 3)
    # timer callbacks that cancel timers, their own included
    for acts in ([[0, 0, "cancel", 0]], [[0, 1, "cancel", 1]], [[1, 0, "cancel", 0]], [[0, 0, "cancel", 1], [1, 0, "cancel", 0]], [[0, 2, "cancel", 0], [0, 2, "cancel", 1]]):
        for tm in ([[4, True, True, None], [4, True, False, None]], [[4, True, False, 1], [6, False, True, None]]):
            c = mk([[SLEEP4, ["sleep", 8], ["sleep", 40]]], [0], tm, label="callback cancels a timer", budget=80); c["cbacts"] = acts
            yield c


# ---- tasks that schedule other tasks (Scheduler.schedule and its spellings; see Run.do_wake) -----------------------------

NHOW = 8
DUMMY0, DUMMY3 = ["dummy", 0], ["dummy", 3]


def W(k, h=0):
    return ["wake", k, h]


def respell(case, i):
    """the same case with the spelling of every wake chosen by the running number i (and the position of the wake)"""
    c = dict(case); n = 0; progs = []
    for p in case["progs"]:
        q = []
        for y in p:
            if y[0] == "wake": y = ["wake", y[1], (i * 3 + n * 5 + y[2]) % NHOW]; n += 1
            q.append(y)
        progs.append(q)
    c["progs"] = progs
    return c


def wake_ways(full=False):
    """A task gets into the ready queue in each of the ways there are (never run yet; numeric yield 0; yield n > 0, Sleep, Select
    timeout: released by the hub; Sleep until a time in the past; DummyOp; descriptor ready; Recv / Send; handed back by a
    sub-task; woken from `yield False` / Sleep(None) by schedule(); having scheduled itself; after cancel()), is scheduled
    again by another task at several moments (so also while it sits in the queue), and then blocks in each of the ways there
    are: every step must still run once, and no wait may end early or twice."""
    tg, wk = (0, 1), (1, 0)
    ways = [[], [NUM0], [NUM4], [SLEEP0], [SLEEP4], [DUMMY3], [DUMMY0], [["sleepabs", T0 - 8]], [SEL_R0], [SEL_T], [["recv", 0, None]],
            [["send", 2, 6, None, 4]], [["cancel", 0]], [["again", 2, True]], [["again", 3, True]], [BLOCK], [SLEEPN], ["self"]]
    then = [[SLEEP4], [BLOCK], [SEL_T], [NUM4], [], [["recv", 0, 8]]] + ([[SLEEPN], [["sleep", 12]], [SEL_R1]] if full else [])
    def wakers(t):
        w = W(t)
        return [[w], [NUM0, w], [SLEEP4, w], [SLEEP0, w], [w, w], [NUM0, NUM0, w], [SLEEP4, NUM0, w], [["sleep", 6], w], [w, NUM0, w],
                [w, SLEEP4, w, w], [NUM4, w], [["sleep", 2], w]] + ([[["sleep", 8], w], [NUM4, w, NUM0, w], [DUMMY3, w], [w, w, w, w]] if full else [])
    i = 0
    for order in (0, 1):
        t, k = (0, 1) if order == 0 else (1, 0)                     # tids of the target and of the waker
        for way in ways:
            for th in then:
                head = [W(t)] if way == ["self"] else way
                target = head + th + [NUM0]
                for wp in wakers(t):
                    progs = [target, wp, [["num", 3]], [SLEEP4, ["num", 5]]]
                    c = mk(progs, [0, 1] if order == 0 else [1, 0], [[40, False, True, None]], FD_R, FD_W, FD_X, [4, 0], [], T0, 160, "wake: ways into the queue")
                    c["conv"] = i % 7
                    yield respell(c, i); i += 1


def wake_timer_cases():
    """redundant wakes of Timer tasks (queued after start(), queued after the hub released them) next to sleepers due at the same times"""
    i = 0
    for timers in ([[4, True, True, 2]], [[4, False, True, None], [4, True, False, None]], [[0, True, True, 1]]):
        nt = len(timers)
        for wp in ([W(1)], [SLEEP4, W(1)], [NUM0, W(1), W(nt)], [SLEEP4, NUM0, W(1), SLEEP4, W(1)], [["sleep", 8], W(1), W(nt), NUM0, W(1)],
                   [W(1), W(1), SLEEP4, W(1), W(1), SLEEP4, W(1)]):
            for other in ([SLEEP4, SLEEP4, NUM0], [NUM0, ["sleep", 8]]):
                for cv in (0, 5):
                    c = mk([wp, other], [0], timers, label="wake: timers", budget=80, conv=cv)      # tid 0 = the waker, tids 1.. = the timers
                    yield respell(c, i); i += 1


def wake_scopes(tier):
    i = 0
    for c in scope([NUM0, SLEEP4, BLOCK, W(0), W(1)], 2, 2, label="wake: scope2x2"):                  # 31^2
        yield respell(c, i); i += 1
    for c in scope([NUM0, BLOCK, DUMMY3, W(0), W(1), W(2)], 3, 1, timers=[], label="wake: scope3x1"):  # 7^3
        yield respell(c, i); i += 1
    for c in lottery_cases([NUM0, W(0), W(1)], 2, 2, label="wake: lottery"):                          # 13^2 x 5
        yield respell(c, i); i += 1
    for c in lottery_cases([["again", -1, True], W(0), W(1)], 2, 2, label="wake: lottery"):           # 13^2 x 5 (a caller that loses the draw after its sub-task returned)
        yield respell(c, i); i += 1
    if tier == "thorough":
        for c in scope([NUM0, SLEEP4, BLOCK, SLEEPN, DUMMY0, W(0), W(1)], 2, 2, label="wake: scope2x2-wide"):     # 57^2
            yield respell(c, i + 1); i += 1
        for c in scope([NUM0, BLOCK, W(0), W(1)], 3, 2, timers=[], label="wake: scope3x2"):           # 21^3
            yield respell(c, i); i += 1
        for c in lottery_cases([NUM0, BLOCK, SLEEP4, W(0), W(1)], 2, 2, label="wake: lottery-wide"):  # 31^2 x 5
            yield respell(c, i); i += 1


# ---- the scheduler's configurations: Scheduler(use_epoll=...) x Scheduler(threaded_selecthub=...) ---------------------------------

def epolled(case, conv=None):
    """the same case on Scheduler(use_epoll=True).  EpollSelect takes no exceptional-condition set, so no descriptor ever
    has one in these cases."""
    c = copy.deepcopy(case); c["epoll"] = True; c["x"] = [None] * len(c["x"])
    c["label"] = "epoll: " + c.get("label", "")
    if conv is not None: c["conv"] = conv
    return c


SEL_RW = ["select", [0], [0], [], 12]              # one task, one descriptor, both sets
SEL_W0 = ["select", [], [0], [], 12]
IO_TABS = [([T0 + 6, None], [None, None]), ([None, None], [T0 + 6, None]), ([T0 + 6, None], [T0 + 2, None]), ([T0 + 2, T0 + 6], [T0 + 6, None])]


def both_sets_cases(full=False):
    """descriptors that enter and leave the read set and the write set in the same hub round and in different rounds (one task
    asking for both, a reader and a writer of one descriptor), readable only / writable only / one after the other"""
    i = 0
    for tr, tw in (IO_TABS if full else IO_TABS[:3]):
        for c in scope([SEL_RW, SEL_R0, SEL_W0, SLEEP4], 2, 2, timers=[], label="both sets"):      # 21^2
            c["r"], c["w"], c["x"] = list(tr), list(tw), [None, None]
            i += 1
            yield epolled(c, i % 4)
            if full or tr is IO_TABS[0][0]:
                c["conv"] = i % 4; yield c                           # ... and on the default hub
    A = [[["recv", 0, 24]], [SLEEP4, ["recv", 0, 24]], [SEL_RW, ["recv", 0, 24]], [["select", [0, 1], [1], [], 24], ["recv", 1, 8]]]
    B = [[["send", 0, 6, None, 4]], [SLEEP4, ["send", 0, 6, None, 4]], [SEL_W0, NUM0, ["send", 0, 3, 8, 2]], [["send", 1, 4, 12, 2], ["select", [1], [0], [], 8]]]
    for a in A:
        for b in B:
            for order in ([0, 1], [1, 0], [0, 1, 0]):
                for tr, tw in (([T0 + 6, T0 + 6], [T0, T0 + 2]), ([T0 + 6, None], [T0 + 2, T0 + 6]), ([T0, T0 + 6], [T0 + 6, None])):
                    c = mk([a, b], order, [], list(tr), list(tw), [None, None], [2, 0, 4], [3, 3], T0, 200, "reader and writer of one descriptor")
                    i += 1
                    yield epolled(c, i % 8)
                    c["conv"] = i % 8; yield c


def burst_cases(full=False):
    """Many tasks register with the hub in one round: every start and every registration writes one byte to the hub's wake-up
    pipe, and the hub drains it in reads of 1024.  Bursts of 2^10 - 1, 2^10, 2^10 + 1, 2^11 (...) bytes pending at the drain,
    at the first idle and at a later one, on the select and on the epoll hub.  tasks = n sleepers (2 bytes each) + k tasks that
    just block (1 byte each)."""
    P = [[SLEEP4], [BLOCK], [SLEEP4, SLEEP4], [["select", [0], [], [], 8]], [SLEEP4, NUM0, SLEEP4]]
    totals = [1023, 1024, 1025, 2048] + ([2047, 2049, 3072, 4096, 1536] if full else [])
    for n in totals:
        for ep in (False, True):
            c = mk(P, [0] * (n // 2) + [1] * (n % 2), label="burst of %d wake-ups" % n, budget=4 * n + 100)
            yield epolled(c) if ep else c
    # (program, sleepers, blockers); 1023 x program 4: 2046 bytes at the first drain, exactly 1024 at the third
    later = [(4, 1023, 0), (2, 511, 1), (3, 512, 0)] + ([(2, 512, 0), (2, 1024, 0), (2, 513, 0), (3, 1024, 0), (3, 1023, 1), (4, 512, 0), (4, 1024, 0)] if full else [])
    for k, n, b in later:                                            # the burst comes when the sleepers wake together, or when a descriptor is shared
        c = mk(P, [k] * n + [1] * b, r=[T0 + 4], label="burst at a later drain (%d tasks)" % n, budget=8 * n + 100)
        yield c
        if full: yield epolled(c)


def epoll_case(rng):
    """a sequence of select() calls on n pipes: plain differential test EpollSelect.select vs select.select (not part of the model)"""
    n = rng.randint(1, 5)
    calls = []
    for _ in range(rng.randint(1, 6)):
        calls.append({"write": [i for i in range(n) if rng.random() < 0.4], "drain": [i for i in range(n) if rng.random() < 0.2],
                      "rl": [i for i in range(n) if rng.random() < 0.7], "wl": [i for i in range(n) if rng.random() < 0.4]})
    return {"kind": "epoll", "n": n, "calls": calls, "label": "epoll"}


def run_epoll(case):
    from pox.lib.epoll_select import EpollSelect
    pipes = [os.pipe() for _ in range(case["n"])]
    es = EpollSelect()
    out = []
    try:
        for c in case["calls"]:
            for i in c["drain"]:
                if _rsel.select([pipes[i][0]], [], [], 0)[0]: os.read(pipes[i][0], 4096)
            for i in c["write"]: os.write(pipes[i][1], b"x")
            rl = [pipes[i][0] for i in c["rl"]]; wl = [pipes[i][1] for i in c["wl"]]
            a = _rsel.select(rl, wl, [], 0)
            b = es.select(rl, wl, [], 0)
            idx = lambda fds, k: sorted(next(i for i, p in enumerate(pipes) if p[k] == f) for f in fds)
            out.append({"select": [idx(a[0], 0), idx(a[1], 1), idx(a[2], 0)], "epoll": [idx(b[0], 0), idx(b[1], 1), idx(b[2], 0)]})
    finally:
        es.close()
        for r, w in pipes: os.close(r); os.close(w)
    return {"epoll": out}


# ---- threaded select hub ------------------------------------------------------------------------------------------

TH_A = [SLEEP4, ["sleep", 12], NUM0, SEL_T, RAISE, ["again", -1, True]]
TH_B = [SLEEP4, ["sleep", 12]]
TH_C = [SLEEP4, ["sleep", 12], NUM0]


def threaded(case, sched):
    c = dict(case); c["mode"] = "threaded"; c["sched"] = sched
    return c


def sched_of(i):
    return {"t": ("seq", "random", "pct", "random")[i % 4], "seed": i}


def thr_hand_cases():
    """the scenarios of the inline tier that make sense on the threaded hub, each under several schedules"""
    P3 = [[["sleep", 8]], [["sleep", 40]]]
    base = [mk(P3, [0, 0, 1], label="thr: two equal deadlines and a later one (C06-D)"),
            mk([[["sleep", 8], NUM0, ["sleep", 8]], [["sleep", 8]], [["sleep", 24], NUM0]], [0, 1, 1, 2], label="thr: equal deadlines, re-sleep"),
            mk([[["sleep", 4]], [["sleep", 8]], [["sleep", 12]]], [0, 1, 2], label="thr: distinct deadlines")]
    hc = list(hand_cases())
    keep = ("design spike D.5", "sub-task results", "uncaught sub-task exception", "two tasks select on one fd", "recv + partial sends",
            "exit", "cancel", "clock at 0", "falsy results", "operation that raises")
    base += [c for c in hc if c["label"] in keep]
    base.append(mk(sub_table([[["sleep", 8], RAISE], [["sleep", 8], NUM0, NUM0], [["again", 4, True], ["sleep", 8]]]), [0, 1, 2, 1],
                   [[8, False, True, None], [4, True, True, 2]], label="thr: raise, sub-task, timers"))
    base.append(mk([[SLEEP4, SLEEP4, ["sleep", 8]], [["sleep", 8], ["sleepabs", T0 + 12]]], [0, 1, 0], [[4, True, True, 2], [4, True, True, 1], [8, False, True, None]],
                   label="thr: equal deadlines, timers and sleepers"))
    base.append(mk([[SLEEP4, NUM0, ["sleep", 8]], [NUM0, ["sleep", 8], NUM0], [["sleep", 12]]], [0, 1, 2, 1], label="thr: lottery",
                   prios=[2, 2, 4, 2], draws=[8, 8, 8, 8, 1, 8, 8, 8, 0, 8, 8, 8, 8, 3]))
    for c in base:
        for i in range(6):
            d = threaded(c, sched_of(i)); d["conv"] = i
            yield d


def rand_thr_case(rng):
    ntop = rng.randint(2, 4)
    nsub = rng.choice([0, 1, 2])
    nprogs = ntop + nsub
    ntimers = rng.choice([0, 0, 1, 2])
    D = [4, 4, 8, 8, 12, 16, 0]
    def y(lo):
        r = rng.random()
        if r < 0.18: return ["num", 0]
        if r < 0.26: return ["num", rng.choice(D)]
        if r < 0.52: return ["sleep", rng.choice(D)]
        if r < 0.56: return ["sleepabs", T0 + rng.choice([0, 4, 8, 12])]
        if r < 0.70: return ["select", rng.choice([[], [], [0], [1], [0, 1]]), rng.choice([[], None, [2]]), [], rng.choice([4, 8, None, 12])]
        if r < 0.73: return ["block"]
        if r < 0.78: return ["raise", 1]
        if r < 0.81: return ["recv", rng.randrange(3), rng.choice([None, 8])]
        if r < 0.84: return ["send", 2, rng.choice([3, 8]), rng.choice([None, 8]), 4]
        if r < 0.855: return ["exit"]
        if r < 0.96 and lo < nprogs: return ["again", rng.randrange(lo, nprogs), rng.random() < 0.7]
        if ntimers: return ["cancel", rng.randrange(ntimers)]
        return ["sleep", 4]
    progs = [[y(ntop if k < ntop else k + 1) for _ in range(rng.choice([1, 2, 3, rng.randint(0, 5)]))] for k in range(nprogs)]
    timers = [[rng.choice([4, 8, 5]), rng.random() < 0.5, True, rng.choice([0, 1, 2])] for _ in range(ntimers)]
    tab = lambda: [None if rng.random() < 0.4 else T0 + rng.choice([0, 4, 6, 12]) for _ in range(3)]
    c = mk(progs, list(range(ntop)), timers, tab(), tab(), [None, None, None], [rng.choice([2, 4, 1]) for _ in range(rng.choice([0, 3]))], [],
           T0, 300, "thr-random", conv=rng.randrange(1 << 20))
    if rng.random() < 0.15:
        c["prios"] = [rng.choice([1, 2, 4, 7]) for _ in range(ntop)]
        c["draws"] = [rng.choice([0, 3, 8, 8, 8]) for _ in range(rng.choice([4, 12]))]
    if rng.random() < 0.3:                                        # Scheduler(use_epoll=True, threaded_selecthub=True)
        c["epoll"] = True; c["x"] = [None, None, None]
    return threaded(c, {"t": rng.choice(["seq", "random", "random", "pct"]), "seed": rng.randrange(1 << 30)})


def schedule_independent(case):
    """Program tables for which every per-task observation is the same under all schedules of the two threads, and equal to the
    inline hub's: no Exit (which tasks still run is a race), no timer.cancel() (races with the firing), no scripted sockets
    (one global script), and no descriptor that two waits could compete for (the later registration shadows the earlier)."""
    if any(p < 8 for p in case.get("prios", ())): return False     # the draw sequence is consumed in an order that depends on the schedule
    uses = {}
    inst = {}
    for k in case["tasks"]: inst[k] = inst.get(k, 0) + 1
    calls = {}
    for p in case["progs"]:
        for y in p:
            if y[0] == "again": calls[y[1]] = calls.get(y[1], 0) + 2          # a sub-function may be called more than once
    for k, p in enumerate(case["progs"]):
        n = inst.get(k, 0) + calls.get(k, 0)
        for y in p:
            if y[0] in ("exit", "cancel", "recv", "send"): return False
            if y[0] == "select":
                for kind, l in zip("rwx", y[1:4]):
                    for f in (l or []):
                        uses[(kind, f)] = uses.get((kind, f), 0) + max(n, 1)
        if sum(1 for y in p if y[0] == "select" and (y[1] or y[2] or y[3])) > 1 and n: return False
    return all(v <= 1 for v in uses.values())


def model_subs(case, trace):
    """sub-task table [tid, prog, parent, parent step] reconstructed from a model trace (tids are given out in creation order)"""
    ntop = len(case["tasks"]); nxt = ntop + len(case["timers"])
    prog = dict((t, case["progs"][k]) for t, k in enumerate(case["tasks"]))
    subs = []
    for e in trace:
        if e[0] != "s" or e[1] not in prog: continue
        p = prog[e[1]]; i = e[2]
        died = i > 0 and p[i - 1][0] == "again" and not p[i - 1][2] and e[4] is not None and e[4][0] == "exc"
        if i < len(p) and p[i][0] == "again" and not died:
            subs.append([nxt, p[i][1], e[1], i]); prog[nxt] = case["progs"][p[i][1]]; nxt += 1
    return subs


def sorted_sel(v):
    return ["sel"] + [sorted(l) for l in v[1:]] if isinstance(v, list) and v and v[0] == "sel" else v


def per_task_view(case, trace, subs, sort_sets=False):
    """what is determined whatever the interleaving: for every task (sub-tasks named by their call path) its own sequence of
    (step, virtual time, value/exception received, wake time), and every timer's firing times"""
    name = dict((t, "t%d" % t) for t in range(len(case["tasks"]) + len(case["timers"])))
    for tid, k, ptid, pidx in subs: name[tid] = "%s/%d" % (name.get(ptid, "?%d" % ptid), pidx)
    view = {}
    for e in trace:
        n = name.get(e[1], "?%d" % e[1])
        if e[0] == "s" and sort_sets: e = e[:4] + [sorted_sel(e[4]), e[5], sorted_sel(e[6])]      # (epoll: order inside a ready set is open)
        view.setdefault(n, []).append(e[2:] if e[0] == "s" else ["fire"] + e[2:])
    return view


class C06(Check):
    id = "C06"
    title = "Cooperative scheduler runs every task step exactly once, in isolation"
    prop_module = "PoxModel.Properties.C06"
    lean_targets = ["drv_c06"]
    driver = "drv_c06"
    theorems = ["Pox.C06.single_place", "Pox.C06.caller_blocked", "Pox.C06.no_overlap", "Pox.C06.pop_leaves_queue", "Pox.C06.program_order",
                "Pox.C06.step_once", "Pox.C06.not_early", "Pox.C06.wake_is_registered", "Pox.C06.wake_is_requested", "Pox.C06.wake_kept",
                "Pox.C06.wake_is_requested_trace", "Pox.C06.ready_returns", "Pox.C06.expired_returns", "Pox.C06.no_crash", "Pox.C06.isolation", "Pox.C06.isolation_gen", "Pox.C06.isolation_rf",
                "Pox.C06.finished_never_runs", "Pox.C06.again_return", "Pox.C06.again_return_gen", "Pox.C06.caller_resumed_next",
                "Pox.C06.delivery", "Pox.C06.fair_partial", "Pox.C06.timer", "Pox.C06.timer_stopped", "Pox.C06.timer_not_early",
                "Pox.C06.schedule_queued_noop", "Pox.C06.schedule_at_most_once", "Pox.C06.schedule_wakes_blocked",
                "Pox.C06.again_empty_defect", "Pox.C06.send_zero_defect"]
    # function bodies only (a `def` line executes at import time, not during a run); located by name in setup()
    ANCHOR_FUNCS = [("BaseTask", "execute"), ("BaseTask", "start"), ("Scheduler", "schedule"), ("ScheduleTask", "__init__"), ("ScheduleTask", "run"),
                    ("DummyOp", "__init__"), ("DummyOp", "execute"), ("Scheduler", "fast_schedule"), ("Scheduler", "quit"), ("Scheduler", "run"), ("Scheduler", "cycle"),
                    ("Exit", "execute"), ("Sleep", "__init__"), ("Sleep", "execute"), ("Select", "__init__"), ("Select", "execute"),
                    ("Recv", "__init__"), ("Recv", "_recvReturnFunc"), ("Recv", "execute"), ("Send", "__init__"), ("Send", "_sendReturnFunc"),
                    ("Send", "execute"), ("AgainTask", "run_again"), ("Again", "__init__"), ("Again", "execute"), ("SelectHub", "idle"),
                    ("SelectHub", "break_idle"), ("SelectHub", "_threadProc"), ("SelectHub", "_select"), ("SelectHub", "registerSelect"),
                    ("SelectHub", "_cycle"), ("SelectHub", "registerTimer"), ("SelectHub", "_return"), ("Timer", "__init__"), ("Timer", "start"),
                    ("Timer", "cancel"), ("Timer", "run")]
    anchors = []
    coverage_cases = 1500
    trusted_base = ["model Model/Recoco.lean hand-written from recoco.py (Scheduler.cycle/run, BaseTask.execute, SelectHub._select, "
                    "Sleep/Select/Recv/Send/Exit/Again/AgainTask/Timer); tied to the code by this correspondence run only",
                    "harness: virtual clock, virtual select (same definition as the model's vselect), scripted sockets, instrumented task bodies",
                    "the observation fields Task.wake / St.trace of the model are compared with the harness's own bookkeeping on every case",
                    "threaded tier: harness/forcedthreads.py (forced thread scheduler, replaced Event/Queue/Pinger/Lock/Thread) plus this module's "
                    "virtual-time select/Event.wait wrappers and time-advance policy (time moves only when no thread can run; select(...,0) polls)"]
    assumptions = ["inline tier: single scheduler thread with the inline select hub (threaded_selecthub=False), use_epoll False and True",
                   "threaded tier: scheduler thread + hub thread switch only at operations of the synchronisation primitives "
                   "(Event, Queue, pinger, select, Lock) - finer-grained races between plain statements are C07's; CallBlocking threads are not run",
                   "select honours its timeout and reports every ready descriptor (virtual select: level-triggered scripted readiness)",
                   "task programs are over the yield vocabulary of the model plus DummyOp and `wake` (Scheduler.schedule / fast_schedule / "
                   "task.start() / schedule() as from a foreign thread, for another task, a timer or the caller itself); a wake is issued only "
                   "for a target that is in the ready queue, blocked by `yield False` / Sleep(None), finished, or the caller itself - scheduling "
                   "a task that waits in the hub or for a sub-task is a misuse recoco cannot absorb (the registration stays) and is never "
                   "generated; at most one cross-thread wake (ScheduleTask) per target and run, none racing with another wake; no task yields None",
                   "times are multiples of 1/8 s, so float comparisons in the code agree with the model's integer comparisons",
                   "Scheduler(use_epoll=True): select.epoll is a scripted stand-in (FakeEpoll: register/modify/unregister/poll with epoll's "
                   "errors for a double register and for modify/unregister of an unknown descriptor, level-triggered, readiness and time from the "
                   "virtual select); the real EpollSelect runs on top of it; no descriptor has an exceptional condition in these cases "
                   "(EpollSelect takes no such set).  The hub's pinger is the real one (pox.lib.util.make_pinger -> PipePinger) in every "
                   "configuration: on real pipes in the inline tier (a read that would block the only thread is reported instead of made; a "
                   "60 s wall-clock alarm stands behind it), on the forced scheduler's virtual pipes in the threaded tier; SocketPinger "
                   "(non-posix) is not driven"]
    design_ref = "DESIGN.md §5 C06"
    technique = ("Lean 4 proof (invariants over all reachable states of a small-step model of the scheduler: placement, program order, "
                 "wake-time accounting, timer records vs. firings; one-cycle theorems for isolation and sub-task return; frame lemmas for "
                 "'finished tasks never run again' and round-robin order) + differential correspondence of the compiled "
                 "model against the real Scheduler.run() under a virtual clock/select (inline hub: whole run; threaded hub under a forced "
                 "thread scheduler: per-task projections) + independent property oracle on the real code's trace in both hub modes")
    level_text = ("Theorems single_place/caller_blocked/pop_leaves_queue/program_order/step_once/not_early/wake_is_registered/"
                  "finished_never_runs/timer/timer_stopped/timer_not_early/wake_is_requested_trace hold for every program table, task set, priorities, sequence of "
                  "lottery draws, timer set, readiness script and number of loop iterations (unbounded); no_crash additionally assumes a "
                  "well-formed program table (every Again names an existing program).  not_early covers Sleep, yield n, Select, Recv and Send "
                  "with a timeout (the event records the raw value the hub handed back, before a Recv/Send return function rewrites it) and "
                  "timers; wake_is_requested_trace says that the wake time recorded in resume i+1 of a top-level task is exactly what its yield i "
                  "asked for at the time of resume i (Send excepted: it re-registers itself); timer_not_early bounds the k-th firing of a "
                  "timer by start + delay + k*interval.  isolation (incl. an uncaught "
                  "sub-task exception and a raising return function), again_return, caller_resumed_next, delivery, wake_is_requested, "
                  "wake_kept, expired_returns and ready_returns (one hub pass returns every expired entry and every entry one of whose "
                  "descriptors is ready, unless another task waits on the same descriptor) are exact one- or two-step statements for every state; fair_partial is the exact "
                  "round-robin bound for program tables without sub-task calls and priorities >= 1.  no_overlap holds by construction of "
                  "the (sequential) model - it documents a modelling decision and is evidence only through the differential run.  The "
                  "model is hand-written (inline hub); each run re-checks it against the real scheduler on exhaustive small scopes plus "
                  "random programs - with priorities < 1 and a scripted Scheduler._random, and with every blocking operation constructed in "
                  "each calling convention its class accepts (fd sets as list/tuple/set/dict view/None, timeout and timeIsAbsolute positional "
                  "or keyword, int or float seconds, Timer positional/keyword/absolute/started later/with callback arguments, tasks as "
                  "BaseTask subclass or Task(target=...), one operation object shared by several tasks), with every `raise` drawn from a sweep of "
                  "Exception subclasses and, as a separate yield, of BaseException-only classes (SystemExit, KeyboardInterrupt, "
                  "GeneratorExit, a user class) raised by a task step, a sub-task step, a blocking operation's execute() or a timer "
                  "callback - comparing the full trace (task, step, virtual time, value/exception received, raw hub value, wake time), "
                  "timer firings, cycle count and final queues.  Threaded hub: the same task "
                  "programs run on Scheduler(threaded_selecthub=True) with the scheduler thread and the hub thread under the forced thread "
                  "scheduler (sequential, random and PCT schedules, virtual time); the property oracle judges every run, and for program "
                  "tables whose outcome cannot depend on the interleaving (no Exit, cancel, scripted sockets, contended descriptors or "
                  "priorities < 1) each task's own sequence of (step, time, value/exception received, wake time) and each timer's firing "
                  "times must equal the model's.  Tasks that schedule other tasks (`wake`): the model has Scheduler.schedule as a function on "
                  "states but no yield that calls it; schedule_queued_noop (a call for a queued task changes nothing), schedule_at_most_once "
                  "and schedule_wakes_blocked are about that function on every reachable state.  A run all of whose wakes hit queued tasks "
                  "(in each of the ways a task gets into the queue, every spelling of the call) is compared in full with the model's run of the "
                  "same programs with `yield 0` in their place; runs with effective wakes (blocked target), wakes of finished tasks, of the "
                  "caller itself and cross-thread wakes (ScheduleTask) are judged by the oracle alone: one resume per wake, no lost wake, "
                  "nothing resumed early or twice.  DummyOp(v) runs in the model as Sleep(0, absoluteTime=True) (both: fast_schedule at "
                  "once); that v arrives is checked by the oracle.")
    level_note = ("Proved about the model (inline hub), tested for the code: the tie is the differential run.  The threaded hub is covered "
                  "by testing only: the hub's bookkeeping (_select, registerSelect, _return) is the same code in both modes and the theorems "
                  "are about that code's model, but the interleavings of the two threads are sampled (a few schedules per program, switches "
                  "at synchronisation operations only), not proved; what is compared there is the per-task projection, not the global order.  "
                  "The scheduler's configurations are a case parameter: use_epoll x threaded_selecthub.  With use_epoll the model (which has "
                  "the plain select) is compared in full when no poll reported two descriptors at once, per task when the outcome cannot "
                  "depend on the order of one round, and the oracle alone judges the rest (it demands that the clock never passes the "
                  "readiness time of a descriptor somebody waits for, that a descriptor handed back as ready is ready, and that no read "
                  "on the scheduler's thread blocks for good).  Bursts of 1023/1024/1025/2048 (...) wake-up bytes pending at a drain of "
                  "the real pinger are model-compared (the model counts the bytes).  "
                  "Out of scope: real file descriptors (EpollSelect is additionally compared with select.select on pipes, as plain differential "
                  "testing), CallBlocking worker threads, locks and statement-level races (C07).  Timers built with started=False and started later by a task (relative and absolute deadlines, cancel before/after "
                  "start(), delay 0) and timer callbacks that cancel timers or raise are NOT in the model: those cases are judged by the "
                  "oracle alone (never fired before start() + delay, never after cancel / False / a raising callback, clock never "
                  "advanced past a due timer), and timer_not_early is a theorem about timers started at construction, the only form "
                  "POX itself uses.  The model has one kind of `raise`; a BaseException that is not an Exception is the same for a "
                  "top-level task and, in a sub-task, is mapped to 'the sub-task is never scheduled again' (AgainTask.run_again forwards "
                  "only Exception, so its wrapper dies and the caller stays blocked for ever - recoco's behaviour, no other task is "
                  "affected).  Limits of what is proved: (1) wake_is_requested_trace excludes Send (re-registered after a partial write, "
                  "which restarts its timeout, as the code does) and sub-tasks (their resumes are those of the AgainTask wrapper).  "
                  "(2) ready_returns needs the descriptor not to be waited on by another task in the same set (the hub keeps one task per "
                  "descriptor; the later registration shadows the earlier - the code's behaviour).  "
                  "(3) caller_resumed_next needs caller priority >= 1: with priority < 1 the caller sits at the head of the deque but can "
                  "lose the draw - the code's behaviour; the oracle allows exactly that.  (4) no_crash assumes the program table is "
                  "well-formed.  Not proved (only checked by the oracle on the real code): fairness in the presence of sub-task calls "
                  "(fair_full is false without a call-depth bound) or with priorities < 1, liveness ('eventually').  Inline-mode fact "
                  "worth knowing: the hub is polled only when the ready deque is empty, so a task that always yields 0 starves all timed "
                  "waiters.")
    rule = ("case = (program table over the yield vocabulary, task list, timers, fd readiness times, socket scripts, start time, cycle budget"
            "[, mode=threaded + schedule (sequential|random|PCT, seed)]); corpus = 153 hand-written scenarios (incl. falsy results 0/False/b""/None, several deadlines and "
            "descriptors due in one hub sweep, timer callbacks that cancel timers or raise, operations whose execute() raises, BaseException-only classes in tasks / "
            "sub-tasks / operations, timers started later by a task, tasks scheduled again by other tasks while queued / blocked / finished / running) + "
            "directed family: 18 ways into the ready queue x 6 ways to block afterwards x 12 wakers x 2 start orders, spellings of schedule() by running number + exhaustive scopes (every "
            "assignment of programs of <= L yields over an alphabet to N ordered tasks) + the threaded scenarios x 6 schedules + two threaded "
            "3-task scopes + configurations: every I/O scenario again on Scheduler(use_epoll=True), 'both sets' scopes (one descriptor in the "
            "read and the write set of one round / of different rounds, reader and writer tasks of one descriptor) on both hubs and both "
            "thread modes, bursts of 2^10-1, 2^10, 2^10+1, 2^11 wake-ups at the first and at a later drain; a quarter of the random cases "
            "use the epoll hub; non-trivial = the real run contains a timed resume, a sub-task step or a timer firing")

    def setup(self):
        import logging
        logging.disable(logging.CRITICAL)
        time.time = poxenv.clock
        import warnings
        warnings.simplefilter("ignore")
        import pox.lib.recoco.recoco as recoco
        self.rc = recoco
        self._last = (None, None)
        self._full = set()
        self.canary_want = None
        self.canary_diff()
        import ast
        rel = "pox/lib/recoco/recoco.py"
        tree = ast.parse(open(os.path.join(common.REPO, rel)).read())
        want = set(self.ANCHOR_FUNCS); anchors = []
        for cls in tree.body:
            if isinstance(cls, ast.ClassDef):
                for f in cls.body:
                    if isinstance(f, ast.FunctionDef) and (cls.name, f.name) in want:
                        body = f.body[1:] if (isinstance(f.body[0], ast.Expr) and isinstance(getattr(f.body[0], "value", None), ast.Constant)
                                              and len(f.body) > 1) else f.body
                        anchors.append((rel, body[0].lineno, f.end_lineno))
        self.anchors = anchors

    # -- cases
    def corpus(self):
        cases = list(hand_cases())
        cases.append({"kind": "epoll", "n": 2, "label": "epoll", "calls": [{"write": [0], "drain": [], "rl": [0, 1], "wl": [1]},
                     {"write": [], "drain": [0], "rl": [0, 1], "wl": []}, {"write": [1], "drain": [], "rl": [1], "wl": [0, 1]}]})
        cases += list(scope(CORE, 2, 2))                                         # 111^2
        cases += list(scope([a for a in ALPHA if a not in DROP], 3, 1, label="scope3x1"))     # 21^3 (all 26^3 in the thorough tier)
        cases += list(scope([NUM0, SLEEP4], 3, 3, label="scope3x3"))             # 15^3
        cases += list(scope([SEL_R0, ["again", -1, True]], 3, 2, label="scope3x2"))     # 7^3 (15^3 in the thorough tier)
        cases += list(lottery_cases([NUM0, SLEEP4], 3, 2))                       # 7^3 x 5
        cases += list(lottery_cases([NUM0, ["again", -1, True], RAISE], 2, 2))   # 13^2 x 5
        conv_progs = [[["select", [0], [2], [], 12], ["select", [], None, [], 4], ["select", [1], [], [0], 8], ["sleep", 4], ["num", 8],
                       ["recv", 0, 8], ["send", 2, 6, 4, 4], ["sleepabs", T0 + 60], ["recv", 1, None], NUM0],
                      [["select", [1, 0], [], [], 4], ["sleep", 0], ["send", 2, 3, None, 2], ["sleep", None]]]
        for cv in range(1, 41):                                                  # the same programs under 40 choices of calling conventions
            cases.append(mk(conv_progs, [0, 1, 0], [], FD_R, FD_W, FD_X, [2], [], T0, 200, "conventions", conv=cv))
        two = [[4, True, True, None], [4, False, True, None]]                    # two timers due together, with sleepers due at the same times
        for c in scope([SLEEP4, ["cancel", 0], ["sleepabs", T0 + 8]], 2, 2, timers=two, label="sweep: timers"): cases.append(c)      # 13^2
        sweep = [["select", [0], [], [], 0], ["select", [0], [2], [], 4], SLEEP4, NUM0]       # fd 0 ready at once, fd 2 together with the timeouts
        for i, c in enumerate(scope(sweep, 2, 2, timers=[], label="sweep: expired and ready")):                     # 21^2
            c["r"], c["w"], c["conv"] = [T0, None, None], [None, None, T0 + 4], i % 3
            cases.append(c)
        bex = [NUM0, SLEEP4, RAISE, ["braise", 0], ["braise", 3], ["again", -6, True], ["again", -7, False]]
        for i, c in enumerate(scope(bex, 3, 1, label="exception classes")):                                         # 8^3
            c["conv"] = i % 6; cases.append(c)
        for i, c in enumerate(scope([NUM0, SLEEP4, ["braise", 1], ["again", -6, True]], 2, 2, label="exception classes 2x2")):     # 21^2
            c["conv"] = i % 5; cases.append(c)
        dt = [[4, True, True, 2, "rel"], [4, False, True, None, "rel"]]
        for i, c in enumerate(scope([SLEEP4, ["sleep", 8], ["tstart", 0], ["tstart", 1], ["cancel", 0]], 2, 2, timers=dt, label="deferred timers")):   # 31^2
            c["conv"] = i % 4; cases.append(c)
        for i, c in enumerate(scope([NUM0, SEL_R1, ["select", [1], [], [], 4]], 2, 1, label="hidden state")):       # each followed by the canary
            for cv in (0, 9): d = dict(c); d["conv"] = cv; cases.append(d)
        # the scheduler's configurations: the epoll hub (EpollSelect on a scripted select.epoll), bursts of wake-ups on the real pinger
        io = ("select", "recv", "send")
        cases += [epolled(c) for c in hand_cases() if any(y[0] in io for p in c["progs"] for y in p)]
        cases += [epolled(c, c["conv"]) for c in cases if c.get("label") in ("conventions", "sweep: expired and ready") and not c.get("epoll")][::3]
        cases += list(both_sets_cases())
        cases += list(burst_cases())
        cases += list(wake_ways())                                               # 18 x 6 x 12 x 2
        cases += list(wake_timer_cases())
        cases += list(wake_scopes("quick"))
        # threaded select hub (forced thread scheduler)
        cases += list(thr_hand_cases())
        io_labels = ("two tasks select on one fd", "recv + partial sends", "falsy results", "sub-task results")
        cases += [epolled(c) for i, c in enumerate(thr_hand_cases()) if c["label"] in io_labels and i % 2 == 0]     # epoll hub on its own thread
        for i, c in enumerate(both_sets_cases()):
            if i % 29 == 0: cases.append(threaded(c, sched_of(i)))
        cases.append(threaded(mk([[SLEEP4], [BLOCK]], [0] * 1024, budget=4300, label="thr: burst of 1024 wake-ups"), sched_of(0)))
        for i, c in enumerate(scope(TH_A, 3, 1, timers=[], label="thr-scope3x1")):      # 7^3
            cases.append(threaded(c, sched_of(i)))
        for i, c in enumerate(scope(TH_B, 3, 2, timers=[], label="thr-scope3x2")):      # 7^3
            cases.append(threaded(c, sched_of(i + 1)))
        return cases

    def generate(self, rng, tier):
        n = 2500 if tier == "quick" else 20000
        for _ in range(n):
            yield rand_case(rng)
        for _ in range(40 if tier == "quick" else 400):
            yield epoll_case(rng)
        for _ in range(150 if tier == "quick" else 1800):
            yield rand_thr_case(rng)
        if tier == "thorough":
            for n, b in ((511, 1), (512, 0), (1023, 1)):
                for i in (0, 1, 2):
                    c = threaded(mk([[SLEEP4], [BLOCK]], [0] * n + [1] * b, budget=4 * n + 300, label="thr: burst of %d wake-ups" % (n + b)), sched_of(i))
                    yield epolled(c) if i == 2 else c
            for i, c in enumerate(both_sets_cases(full=True)):
                if i % 7 == 0: yield threaded(c, sched_of(i))
            for i, c in enumerate(scope(TH_C, 3, 2, timers=[[8, False, True, None]], label="thr-scope3x2-wide")):   # 13^3, two schedules each
                yield threaded(c, sched_of(i))
                yield threaded(c, {"t": "random", "seed": rng.randrange(1 << 30)})
            ph = rng.randrange(3)                                  # two thirds of the 421^2 scope per run (the third left out moves with the seed)
            for i, c in enumerate(scope([a for a in ALPHA if a not in DROP], 2, 2, label="scope2x2-wide")):
                if i % 3 != ph: yield c
            for c in wake_ways(full=True): yield c
            for c in both_sets_cases(full=True): yield c
            for c in burst_cases(full=True): yield c
            for c in wake_scopes("thorough"):
                if not c["label"].endswith(("scope2x2", "scope3x1", "lottery")): yield c
            for c in scope(ALPHA, 3, 1, label="scope3x1-full"):                  # 26^3
                yield c
            for c in scope([NUM0, RAISE], 3, 3, label="scope3x3"):               # 15^3
                yield c
            for c in scope([SEL_R0, ["again", -1, True]], 3, 3, label="scope3x3"):     # 15^3
                yield c
            for _ in range(1):                                                   # all 3 tasks x <=3 yields over a random 3-symbol alphabet
                alpha = rng.sample(ALPHA, 3)
                for c in scope(alpha, 3, 3, label="scope3x3-rand"):              # 40^3 each
                    yield c

    def search_cases(self, rng, tier):
        i = 0
        while True:
            i += 1
            yield rand_thr_case(rng) if i % 8 == 0 else rand_case(rng, maxlen=rng.choice([3, 6, 12]))

    # -- implementation (observables are kept as one JSON string per case: hundreds of thousands of cases are held in memory)
    def impl(self, case):
        if case.get("kind") == "epoll":
            return {"j": json.dumps(run_epoll(case), separators=(",", ":"))}
        if case.get("mode") == "threaded":
            return {"j": json.dumps(ThreadedRun(self.rc, case).go(), separators=(",", ":"))}
        o = Run(self.rc, case).go()
        if wants_canary(case):                                      # hidden state: a fresh scheduler afterwards must behave like a fresh one
            o["canary"] = self.canary_diff()
        return {"j": json.dumps(o, separators=(",", ":"))}

    def canary_diff(self):
        got = Run(self.rc, CANARY).go()
        if self.canary_want is None:
            self.canary_want = got                                  # first use: recorded in setup(), before any other case has run
            return None
        for k in self.KEYS + ("subs", "descheduled", "excs"):
            if got[k] != self.canary_want[k]:
                return "%s is %s, in a fresh process %s" % (k, json.dumps(got[k])[:200], json.dumps(self.canary_want[k])[:200])
        return None

    def _o(self, obs):
        if self._last[0] is not obs:
            self._last = (obs, json.loads(obs["j"]))
        return self._last[1]

    KEYS = ("trace", "quit", "crashed", "cycles", "now", "ready", "incoming", "hub")

    def model_request2(self, case, obs):
        """cases with `wake` yields: when every wake of the run was one that must change nothing (the target was in the ready
        queue: Pox.C06.schedule_queued_noop; or the harness made no call), the run must be that of the same programs with
        `yield 0` in their place"""
        if case.get("kind") == "epoll" or case.get("mode") == "threaded": return None
        has_wake = any(y[0] == "wake" for p in case["progs"] for y in p)
        if not has_wake and not case.get("epoll"): return None
        o = self._o(obs)
        if any(w[4] not in ("noop", "skip") for w in o.get("wakes", ())): return None
        if case.get("epoll"):
            # Scheduler(use_epoll=True): EpollSelect emulates select, so the run must be the model's (which has the plain select) -
            # in full when no poll reported two descriptors at once (the order in which epoll reports them is open), else in
            # what every task saw for itself, where that cannot depend on the order
            if o.get("epoll_multi") == 0: self._full.add(id(case))
            elif has_wake or not schedule_independent(case): return None
            return self.model_request(case, wakes_are_noops=True, epoll_ok=True)
        return self.model_request(case, wakes_are_noops=True)

    def projected(self, case):
        """is this case compared with the model per task (True) or as one global trace (False)?"""
        return case.get("mode") == "threaded" or (bool(case.get("epoll")) and id(case) not in self._full)

    def model_request(self, case, wakes_are_noops=False, epoll_ok=False):
        if case.get("kind") == "epoll": return None                 # plain differential test, no model counterpart
        if case.get("epoll") and case.get("mode") != "threaded" and not epoll_ok: return None     # see model_request2
        has_wake = any(y[0] == "wake" for p in case["progs"] for y in p)
        if has_wake and not wakes_are_noops: return None            # see model_request2
        if case.get("mode") == "threaded" and not schedule_independent(case):
            return None                                             # more than one legal outcome: the oracle alone judges
        if case.get("cbacts"): return None                          # callbacks that act on timers are not modelled: the oracle alone judges
        if any(len(t) > 4 and t[4] for t in case["timers"]): return None      # nor are timers started later by a task (`tstart`)
        r = {k: v for k, v in case.items() if k not in ("label", "_iso", "mode", "sched", "conv", "cbacts", "epoll")}
        r.setdefault("prios", []); r.setdefault("draws", [])
        if any(y[0] in ("badop", "braise", "tstart", "wake", "dummy") for p in r["progs"] for y in p):
            # an operation whose execute() raises = the task is never scheduled again.  A BaseException that is not an Exception: a
            # top-level task dies like from any exception; in a sub-task AgainTask does not forward it (it catches Exception), so the
            # wrapper dies and the caller stays blocked - for the model: the sub-task is never scheduled again
            called = set(y[1] for p in r["progs"] for y in p if y[0] == "again")
            if any(k in called for k in r["tasks"]) and any(y[0] == "braise" for p in r["progs"] for y in p): return None
            def m(k, y):
                if y[0] == "badop": return ["sleep", None]
                if y[0] == "braise": return ["sleep", None] if k in called else ["raise", 1]
                if y[0] == "tstart": return ["num", 0]                 # no deferred timer in this case: a no-op
                if y[0] == "wake": return ["num", 0]                   # a wake that changes nothing, then `yield 0`
                if y[0] == "dummy": return ["sleepabs", 0]             # DummyOp: fast_schedule at once (the value: oracle; see impl_view)
                return y
            r["progs"] = [[m(k, y) for y in p] for k, p in enumerate(r["progs"])]
        r["timers"] = [list(t[:4]) for t in r["timers"]]
        r.update(REPAIRED)
        return r

    def model_obs(self, case, resp):
        if "error" in resp: return resp
        if self.projected(case):                                    # the inline model, projected on what no interleaving can change
            return per_task_view(case, resp["trace"], model_subs(case, resp["trace"]), bool(case.get("epoll")))
        return {k: resp.get(k) for k in self.KEYS}

    def impl_view(self, case, obs):
        o = self._o(obs)
        if self.projected(case):
            return per_task_view(case, o["trace"], o["subs"], bool(case.get("epoll")))
        if any(y[0] == "dummy" for p in case["progs"] for y in p):
            # the model runs DummyOp(v) as Sleep(0, absoluteTime=True) (both: fast_schedule at once): it notes wake time 0 and hands
            # back nothing; that v arrives is demanded by the oracle
            tab = task_table(case, o); tr = []
            for e in o["trace"]:
                if e[0] == "s" and e[2] > 0 and e[1] in tab and e[2] <= len(tab[e[1]][0]) and tab[e[1]][0][e[2] - 1][0] == "dummy":
                    e = e[:4] + [None, [0, False], None]
                tr.append(e)
            v = {k: o[k] for k in self.KEYS}; v["trace"] = tr
            return v
        return {k: o[k] for k in self.KEYS}

    # -- the property itself, on the implementation's observables (independent of the model)
    def oracle(self, case, obs):
        o = self._o(obs)
        if case.get("kind") == "epoll":
            for i, c in enumerate(o["epoll"]):
                if c["select"] != c["epoll"]:
                    return "epoll:mismatch | call %d: select.select %s, EpollSelect %s" % (i, c["select"], c["epoll"])
            return None
        return oracle(self, case, o)

    def finding_key(self, case, obs, failure):
        return failure.split(" | ")[0]

    def nontrivial(self, case, obs):
        o = self._o(obs)
        if case.get("kind") == "epoll": return any(c["select"][0] or c["select"][1] for c in o["epoll"])
        subs = set(s[0] for s in o["subs"])
        return any(e[0] == "f" or (e[0] == "s" and (e[5] is not None or e[1] in subs)) for e in o["trace"])

    def shrink_candidates(self, case):
        c0 = json.loads(json.dumps(case))
        if case.get("kind") == "epoll":
            for i in range(len(c0["calls"])):
                c = json.loads(json.dumps(c0)); del c["calls"][i]; yield c
            return
        nt = len(c0["tasks"])
        if nt > 16:                                                  # a burst: by halves and quarters, then the last task - not one run per task
            for cut in (slice(nt // 2, nt), slice(0, nt // 2), slice(nt - nt // 4, nt), slice(nt - 1, nt)):
                c = json.loads(json.dumps(c0)); del c["tasks"][cut]; yield c
        elif nt > 1:
            for i in range(nt):
                c = json.loads(json.dumps(c0)); del c["tasks"][i]; yield c
        for k, p in enumerate(c0["progs"]):
            for i in range(len(p)):
                c = json.loads(json.dumps(c0)); del c["progs"][k][i]; yield c
        uses_cancel = any(y[0] == "cancel" for p in c0["progs"] for y in p)
        if c0["timers"] and not uses_cancel:
            c = json.loads(json.dumps(c0)); c["timers"] = []; yield c
        for key in ("send", "recv"):
            if c0[key]:
                c = json.loads(json.dumps(c0)); c[key] = c[key][:-1]; yield c


TIMEOUT = ["sel", [], [], []]


def task_table(case, o):
    """tid -> (program, parent tid or None, parent's step index)"""
    tab = {}
    for tid, k in enumerate(case["tasks"]):
        tab[tid] = (case["progs"][k], None, None)
    for tid, k, ptid, pidx in o["subs"]:
        tab[tid] = (case["progs"][k], ptid, pidx)
    return tab


def expected_exc(name):
    return "RuntimeError" if name == "StopIteration" else name


def oracle(chk, case, o):
    trace = o["trace"]
    ntop = len(case["tasks"])
    timer_tids = range(ntop, ntop + len(case["timers"]))
    tab = task_table(case, o)
    steps = {}
    for pos, e in enumerate(trace):
        if e[0] == "s": steps.setdefault(e[1], []).append((pos, e))
    prios = case.get("prios", [])
    def prio_of(tid):
        while tid in tab and tab[tid][1] is not None: tid = tab[tid][1]          # a sub-task inherits its caller's priority
        return prios[tid] if tid < min(len(prios), ntop) else 8
    # 0. the scheduler loop itself must survive whatever the tasks do
    if o.get("blocked"):
        return "hung:blocking-read | the scheduler's thread blocked for good in %s: runnable tasks %s (...) are never run" % (o["blocked"], o.get("stranded"))
    if o["crashed"]:
        return "scheduler-died:%s | an exception escaped Scheduler.run()" % o["run_exc"]
    if o["overlap"]:
        return "overlap | a task step began while another was running"
    if o.get("queued_run"):
        return "run-while-queued | a task was executed while it was still in the ready deque"
    if o.get("overslept"):
        return "overslept | %s although everything was idle" % o["overslept"]
    if o.get("cb_bad"):
        return "timer:args | %s" % o["cb_bad"]
    if o.get("canary"):
        return "hidden-state | after this run a fresh scheduler no longer behaves like a fresh one: %s" % o["canary"]
    # 1. program order, each step once
    for tid, evs in steps.items():
        if tid not in tab: return "unknown-task | step of a task that was never created"
        idxs = [e[2] for _, e in evs]
        if idxs != list(range(len(idxs))):
            return "program-order | task %d executed steps %s" % (tid, idxs[:8])
        if idxs and idxs[-1] > len(tab[tid][0]):
            return "program-order | task %d ran past the end of its program" % tid
    # 2. never early
    for e in trace:
        if e[0] == "s" and e[5] is not None:
            w, hasfds = e[5]
            if (not hasfds or e[6] == TIMEOUT) and e[3] < w:        # e[6]: what the hub put into task.rv (also for Recv/Send)
                return "early-wake | task %d step %d resumed at %d, wake time %d" % (e[1], e[2], e[3], w)
    # 2b. resumed for I/O only when there is I/O: a descriptor handed back as ready is ready (scripted readiness times)
    iotabs = [case["r"], case["w"], case["x"]]
    for e in trace:
        if e[0] != "s": continue
        for v in (e[4], e[6]):
            if v is not None and v[0] == "sel":
                for kind, got, tb in zip("rwx", v[1:], iotabs):
                    for f in got:
                        if not (f < len(tb) and tb[f] is not None and tb[f] <= e[3]):
                            return "select:not-ready | task %d step %d was handed descriptor %d as ready (%s) at %d, ready at %s" % (
                                e[1], e[2], f, kind, e[3], tb[f] if f < len(tb) else None)
    # 3. only the task's own exceptions may deschedule it
    allowed = set(OWN_EXC_NAMES)
    if any(y[0] in ("braise", "badop") for p in case["progs"] for y in p) or any(a[2] == "raise" for a in case.get("cbacts", ())):
        allowed |= BASE_EXC_NAMES
    internal = [x for x in o["excs"] if x not in allowed]
    pending_send = any(len(evs) and evs[-1][1][2] < len(tab[tid][0]) and tab[tid][0][evs[-1][1][2]][0] == "send" for tid, evs in steps.items())
    if "NameError" in internal and pending_send:
        return "send:zero-bytes:NameError | Send wrote 0 bytes: the task was killed by a NameError inside recoco"
    if internal:
        return "descheduled-by:%s | a task was killed by an exception it did not raise" % ",".join(internal)
    # 4. sub-task call / return
    def outcome(tid):
        """None if the sub-task has not finished; else the canonical value/exception its caller must receive"""
        prog = tab[tid][0]; evs = steps.get(tid, [])
        if not evs: return None
        _, last = evs[-1]; i = last[2]
        if i > 0 and prog[i - 1][0] == "again" and not prog[i - 1][2] and last[4] is not None and last[4][0] == "exc":
            return ["exc", expected_exc(last[4][1])]                       # uncaught exception propagates
        if i == len(prog): return "none"
        y = prog[i]
        if y[0] == "raise": return ["exc", "E%d" % y[1]]
        if y[0] == "num": return ["num", y[1]]
        if y[0] == "block": return ["false"]
        if y[0] in ("cancel", "tstart", "wake"): return ["num", 0]
        return None
    for tid, k, ptid, pidx in o["subs"]:
        out = outcome(tid)
        if out is None: continue
        last_pos = steps[tid][-1][0]
        pe = [(p, e) for p, e in steps.get(ptid, []) if e[2] == pidx + 1]
        ended = o["quit"] or o["cycles"] >= case["budget"]
        hi = prio_of(ptid) >= 8                   # a caller of priority < 1 goes through the lottery like everybody else
        if not pe:
            if (hi and last_pos + 1 < len(trace)) or not ended:
                return "again:not-delivered | sub-task %d finished, caller %d was not resumed next" % (tid, ptid)
            continue
        p, e = pe[0]
        if hi and p != last_pos + 1:
            return "again:not-next | caller %d did not run right after its sub-task %d finished" % (ptid, tid)
        want = None if out == "none" else out
        if e[4] != want:
            if out == "none" and e[4] == ["exc", "StopIteration"] and len(tab[tid][0]) == 0:
                return "again:empty-subtask:StopIteration | a sub-task that returns before its first yield gives its caller StopIteration"
            return "again:wrong-result | caller %d received %s, sub-task %d produced %s" % (ptid, e[4], tid, want)
    for tid, evs in steps.items():
        prog = tab[tid][0]
        for _, e in evs:
            r = e[4]
            if r is not None and r[0] in ("num", "false", "exc", "data"):
                prev = prog[e[2] - 1][0] if e[2] > 0 else None
                ok = (prev == "again") or (r[0] == "num" and prev == "send") or (r[0] == "data" and prev == "recv") or (r[0] == "num" and prev == "dummy")
                if not ok: return "stray-result | task %d step %d received %s after yielding %s" % (tid, e[2], r, prev)
    # 4b. a task is resumed from a blocking operation only when that operation has completed, with the operation's own result
    #     (Send: the byte count, all bytes unless it timed out or the descriptor is in error; Recv: data or None; Select: ready
    #     subsets of what was asked or the timeout tuple; Sleep / n>0: the timeout tuple; 0: None)
    xtab = case["x"]
    wakes = o.get("wakes", ())
    for tid, evs in steps.items():
        prog = tab[tid][0]
        woken = 0
        for q, e in evs:
            if e[2] == 0 or e[2] > len(prog): continue
            y = prog[e[2] - 1]; r = e[4]
            if r is not None and r[0] == "exc": continue                     # only after `again` (checked above)
            if (y[0] == "block" or y == ["sleep", None]) and tab[tid][1] is None:
                # a blocked task runs again only because somebody scheduled it: one resume per wake that was issued for it before
                # (a cross-thread wake issued while it was still queued counts: it is carried out after the task's next step)
                woken += 1
                issued = sum(1 for w in wakes if w[2] == tid and w[4] in ("eff", "st-b", "st-q") and w[0] <= q)
                if woken > issued:
                    return "resumed-from-block | task %d was resumed after %s: %d resumes of this kind, %d wakes" % (tid, y, woken, issued)
                if r is not None:
                    return "wake:wrong-result | task %d, woken by schedule(), received %s" % (tid, r)
                continue
            if y[0] == "send":
                err = y[1] < len(xtab) and xtab[y[1]] is not None
                ok = r is not None and r[0] == "num" and 0 <= r[1] <= y[2] and (r[1] == y[2] or y[3] is not None or err)
                if not ok:
                    return "send:wrong-result | task %d resumed from Send of %d bytes with %s" % (tid, y[2], r)
            elif y[0] == "recv":
                if not (r is None or r[0] == "data"):
                    return "recv:wrong-result | task %d resumed from Recv with %s" % (tid, r)
            elif y[0] == "select":
                ok = r is not None and r[0] == "sel" and all(set(got) <= set(asked or []) for got, asked in zip(r[1:], y[1:4])) \
                     and (r != TIMEOUT or y[4] is not None)
                if not ok:
                    return "select:wrong-result | task %d resumed from Select%s with %s" % (tid, y[1:], r)
            elif (y[0] in ("sleep", "sleepabs") and y[1] is not None) or (y[0] == "num" and y[1] > 0):
                if not (r == TIMEOUT or (r is None and y[0] != "num")):
                    return "sleep:wrong-result | task %d resumed from %s with %s" % (tid, y, r)
            elif y[0] == "dummy":
                if r != ["num", y[1]]:
                    return "dummy:wrong-result | task %d resumed from DummyOp(%d) with %s" % (tid, y[1], r)
            elif y[0] in ("num", "cancel", "tstart", "wake"):
                if r is not None and tab[tid][1] is None:
                    return "yield0:wrong-result | task %d resumed from %s with %s" % (tid, y, r)
            elif y[0] in ("block", "exit", "badop", "braise", "raise") or y == ["sleep", None]:
                return "resumed-from-block | task %d was resumed after %s" % (tid, y)
    # 5. timers
    for j, spec in enumerate(case["timers"]):
        delay, recurring, selfstop, false_at = spec[:4]
        defer = spec[4] if len(spec) > 4 else None
        tt = ntop + j
        fires = [(p, e) for p, e in enumerate(trace) if e[0] == "f" and e[1] == tt]
        if [e[2] for _, e in fires] != list(range(len(fires))): return "timer:count | timer %d firing numbers %s" % (j, [e[2] for _, e in fires])
        if not recurring and len(fires) > 1: return "timer:one-shot-twice | one-shot timer %d fired %d times" % (j, len(fires))
        due = case["t0"] + delay
        started = [(p, tm_) for p, k, tm_ in o.get("tstarts", ()) if k == j]
        if defer:                                                  # the requested time is measured from start()
            if not started:
                if fires: return "timer:before-start | timer %d fired although it was never started" % j
                continue
            if fires and fires[0][0] < started[0][0]: return "timer:before-start | timer %d fired before start()" % j
            if defer == "rel": due = started[0][1] + delay
        for n, (p, e) in enumerate(fires):
            if e[3] < due: return "timer:early | timer %d firing %d at %d, due %d" % (j, n, e[3], due)
            due = e[3] + delay
            if selfstop and false_at == n and n + 1 < len(fires): return "timer:after-false | timer %d fired after its callback returned False" % j
        cancels = [p for tid, evs in steps.items() for p, e in evs
                   if e[2] < len(tab[tid][0]) and tab[tid][0][e[2]] == ["cancel", j] and not (e[4] is not None and e[4][0] == "exc" and e[2] > 0
                        and tab[tid][0][e[2] - 1][0] == "again" and not tab[tid][0][e[2] - 1][2])]
        cancels += [p for p, k in o.get("cbcancel", ()) if k == j]
        if cancels and fires and fires[-1][0] >= min(cancels): return "timer:after-cancel | timer %d fired after cancel()" % j
        targeted = any(y == ["cancel", j] for p in case["progs"] for y in p) or any(a[2] == "cancel" and a[3] == j for a in case.get("cbacts", ()))
        raises = [a[1] for a in case.get("cbacts", ()) if a[0] == j and a[2] == "raise"]
        if raises and len(fires) > min(raises) + 1: return "timer:after-raise | timer %d fired again after its callback raised" % j
        stopped = (selfstop and false_at is not None and len(fires) > false_at) or (raises and len(fires) > min(raises))
        if recurring and not targeted and not stopped and tt not in o["ready"] + o["hub"] + o["incoming"]:
            return "timer:stopped-early | recurring timer %d is no longer scheduled after %d firings" % (j, len(fires))
    # 6. round-robin fairness of the ready deque (inline hub: nothing can overtake a task that yielded 0, except sub-task call/return)
    for tid, evs in steps.items():
        prog = tab[tid][0]
        for (p, e), (q, _) in zip(evs, evs[1:]):
            if e[2] < len(prog) and prog[e[2]][0] in ("num",) and prog[e[2]][1] == 0 and tab[tid][1] is None and prio_of(tid) >= 8:
                seen = {}
                for x in trace[p + 1:q]:
                    if x[0] != "s": continue
                    b = x[1]; bp = tab[b][0]
                    front = ((x[2] == 0 and tab[b][1] is not None) or (x[2] > 0 and bp[x[2] - 1][0] == "again") or
                             (0 < x[2] <= len(bp) and (bp[x[2] - 1][0] == "block" or bp[x[2] - 1] == ["sleep", None])))     # woken: schedule(first=True)
                    if not front:
                        seen[b] = seen.get(b, 0) + 1
                        if seen[b] > 1: return "unfair | task %d ran twice while task %d was waiting in the ready deque" % (b, tid)
    # 7. every runnable task is eventually run: at quiescence nothing that can still run is left behind
    exited = any(e[0] == "s" and e[2] < len(tab[e[1]][0]) and tab[e[1]][0][e[2]] == ["exit"] and
                 not (e[2] > 0 and tab[e[1]][0][e[2] - 1][0] == "again" and not tab[e[1]][0][e[2] - 1][2] and e[4] is not None and e[4][0] == "exc")
                 for e in trace)
    if o["quit"] and not exited and o["cycles"] < case["budget"]:
        tabs = {"r": case["r"], "w": case["w"], "x": case["x"]}
        def never(lst, key):
            return all(f >= len(tabs[key]) or tabs[key][f] is None for f in (lst or []))
        child_of = dict(((ptid, pidx), tid) for tid, k, ptid, pidx in o["subs"])
        for tid, (prog, ptid, pidx) in tab.items():
            evs = steps.get(tid, [])
            if not evs: return "never-started | task %d never ran" % tid
            _, last = evs[-1]; i = last[2]
            if i == len(prog): continue
            if i > 0 and prog[i - 1][0] == "again" and not prog[i - 1][2] and last[4] is not None and last[4][0] == "exc": continue
            y = prog[i]
            if (y[0] == "block" or y == ["sleep", None]) and ptid is None:
                lastpos = evs[-1][0]
                for w in wakes:
                    if w[2] != tid: continue
                    if w[4] in ("eff", "st-b") and w[0] > lastpos:
                        return "lost-wakeup:wake | task %d was scheduled after it blocked (step %d) and never ran again" % (tid, i)
                    if w[4] == "st-q" and prio_of(tid) >= 8:           # carried out right after the target's next step: if that step blocks, it is woken
                        nxt = [p_ for p_, _ in evs if p_ >= w[0]]
                        if nxt and nxt[0] == lastpos:
                            return "lost-wakeup:wake | task %d was scheduled from another thread before it blocked (step %d) and never ran again" % (tid, i)
            may_block = (y[0] in ("block", "raise", "braise", "exit", "badop") or y == ["sleep", None]
                         or (y[0] == "select" and y[4] is None and never(y[1], "r") and never(y[2], "w") and never(y[3], "x"))
                         or (y[0] == "recv" and y[2] is None and never([y[1]], "r") and never([y[1]], "x"))
                         or (y[0] == "send" and y[3] is None and never([y[1]], "w") and never([y[1]], "x"))
                         or (y[0] == "again" and (tid, i) in child_of and outcome(child_of[(tid, i)]) is None)
                         or (ptid is not None and y[0] in ("num", "cancel", "tstart", "wake")))  # plain yield in a sub-task = return (checked in 4)
            if not may_block:
                return "lost-wakeup:%s | task %d is still waiting on %s although nothing else can happen" % (y[0], tid, y)
        for j, spec in enumerate(case["timers"]):
            fired = sum(1 for e in trace if e[0] == "f" and e[1] == ntop + j)
            cancelled = any(y == ["cancel", j] for p in case["progs"] for y in p) or any(a[2] == "cancel" and a[3] == j for a in case.get("cbacts", ()))
            if len(spec) > 4 and spec[4] and not any(k == j for _, k, _ in o.get("tstarts", ())): continue      # never started
            if not cancelled and fired == 0: return "timer:never | timer %d never fired" % j
    # 8. isolation: replacing a top-level `raise` by `yield False` must not change anybody's trace
    raised = [(tid, e[2]) for tid, evs in steps.items() if tab[tid][1] is None for _, e in evs
              if e[2] < len(tab[tid][0]) and tab[tid][0][e[2]][0] in ("raise", "braise")]
    if raised and not case.get("_iso"):
        c2 = dict(case); c2["_iso"] = True
        ks = set(case["tasks"][tid] for tid, _ in raised)
        c2["progs"] = [[(["dead"] if (k in ks and y[0] in ("raise", "braise")) else y) for y in p] for k, p in enumerate(case["progs"])]
        if case.get("mode") == "threaded":                          # same schedule; compare what each task saw
            o2 = ThreadedRun(chk.rc, c2).go()
            if per_task_view(case, o2["trace"], o2["subs"]) != per_task_view(case, o["trace"], o["subs"]):
                return "isolation | a raising task changed the run of the others (per-task traces differ when it blocks instead)"
            return None
        o2 = Run(chk.rc, c2).go()
        for key in ("trace", "now", "ready", "hub", "incoming", "cycles"):
            if o2[key] != o[key]:
                return "isolation | a raising task changed the run of the others (%s differs when it blocks instead)" % key
    return None


CHECK = C06
