"""C06 — cooperative scheduler runs every task step exactly once, in isolation (DESIGN §5 C06).

Implementation side: the real `recoco.Scheduler(startInThread=False, threaded_selecthub=False)`, its real `run()` loop, real
`BaseTask`/`Timer`/`Again`/`Sleep`/`Select`/`Recv`/`Send`/`Exit`; `time.time` is the virtual clock and
`SelectHub._select_func` is the virtual select of Model/Recoco.lean (`vselect`).  No threads are ever started.
Times in cases are integers in units of 1/8 s (exact in binary64)."""
import sys, io, time, threading, itertools, contextlib, select as _rsel, socket, os
import common, poxenv
from common import Check

UNIT = 8.0
T0 = 8000                       # 1000.0 s


class E(Exception):
    def __init__(self, n): Exception.__init__(self, n); self.n = n


def exc_name(e):
    return "E%d" % e.n if isinstance(e, E) else type(e).__name__


class VFd(object):
    """virtual descriptor / scripted socket; hashable by identity (one object per id and run)"""
    def __init__(self, i, H): self.id = i; self.H = H
    def send(self, data, flags=0):
        H = self.H
        n = H.send_script.pop(0) if H.send_script else len(data)
        if n is None: raise socket.error("scripted EAGAIN")
        return min(n, len(data))
    def recv(self, n, flags=0):
        H = self.H
        k = H.recv_script.pop(0) if H.recv_script else 1
        if k is None: raise socket.error("scripted recv failure")
        return b"x" * k
    def __repr__(self): return "<fd %d>" % self.id


class Run(object):
    """one execution of a case on the real scheduler"""
    def __init__(self, recoco, case):
        self.rc = recoco
        self.case = case
        self.clock = poxenv.clock
        self.trace = []
        self.subs = []              # [tid, prog, parent tid]
        self.overlap = 0
        self.running = None
        self.fds = {}
        self.send_script = list(case["send"])
        self.recv_script = list(case["recv"])
        self.tabs = [dict((i, t) for i, t in enumerate(case[k])) for k in ("r", "w", "x")]
        self.tid_of = {}            # id(task object or sub generator) -> tid
        self.keep = []
        self.ntids = 0

    def now(self):
        u = self.clock.now * UNIT
        assert u == int(u), "virtual time left the 1/8 s grid: %r" % self.clock.now
        return int(u)

    def fd(self, i):
        f = self.fds.get(i)
        if f is None: f = self.fds[i] = VFd(i, self)
        return f

    def fdl(self, l):
        return None if l is None else [self.fd(i) for i in l]

    # ---- virtual select (mirrors Pox.Recoco.vselect)
    def vselect(self, rl, wl, xl, timeout=None):
        hub = self.hub
        pinger = hub._pinger
        lists = [[f for f in rl if f is not pinger], list(wl), list(xl)]
        pinged = bool(_rsel.select([pinger], [], [], 0)[0])
        now = self.now()
        def ready(t):
            return [[f for f in l if tab.get(f.id) is not None and tab[f.id] <= t] for l, tab in zip(lists, self.tabs)]
        rd = ready(now)
        if pinged or rd[0] or rd[1] or rd[2]:
            return rd[0] + ([pinger] if pinged else []), rd[1], rd[2]
        to = timeout * UNIT
        assert to == int(to)
        to = int(to)
        cands = [tab[f.id] for l, tab in zip(lists, self.tabs) for f in l if tab.get(f.id) is not None]
        has_timer = any(t[4] is not None for t in hub._tasks.values())
        if cands and min(cands) <= now + to:
            c = min(cands)
            self.clock.now += (c - now) / UNIT
            rd = ready(c)
            return rd[0], rd[1], rd[2]
        if not cands and not has_timer:
            self.sched.quit()                      # quiescent: nothing can ever happen again
            return [], [], []
        self.clock.now += timeout
        return [], [], []

    # ---- generators
    def canon_recv(self, kind, v):
        if kind == "exc": return ["exc", exc_name(v)]
        if v is None: return None
        if v is False: return ["false"]
        if isinstance(v, tuple): return ["sel"] + [[f.id for f in l] for l in v]
        if isinstance(v, bytes): return ["data", len(v)]
        if isinstance(v, float) and v * UNIT == int(v * UNIT): return ["num", int(v * UNIT)]     # sub-task result n/8
        if isinstance(v, int): return ["num", v]                                                # byte count / 0
        return ["other", repr(v)]

    def build(self, y, tid):
        rc = self.rc; now = self.now(); tag = y[0]
        sec = lambda u: None if u is None else u / UNIT
        if tag == "num": return (y[1] / UNIT if y[1] else 0), ([now + y[1], False] if y[1] else None)
        if tag == "block": return False, None
        if tag == "sleep": return rc.Sleep(sec(y[1])), (None if y[1] is None else [now + y[1], False])
        if tag == "sleepabs": return rc.Sleep(sec(y[1]), absoluteTime=True), [y[1], False]
        if tag == "select":
            has = bool(y[1] or y[2] or y[3])
            return rc.Select(self.fdl(y[1]), self.fdl(y[2]), self.fdl(y[3]), sec(y[4])), (None if y[4] is None else [now + y[4], has])
        if tag == "recv": return rc.Recv(self.fd(y[1]), timeout=sec(y[2])), (None if y[2] is None else [now + y[2], True])
        if tag == "send":
            H = self
            class Send(rc.Send):                    # records when the real Send (re-)registers its select
                def execute(op, task, scheduler):
                    op.last_reg = H.now()
                    return rc.Send.execute(op, task, scheduler)
            return Send(self.fd(y[1]), b"d" * y[2], timeout=sec(y[3]), block_size=y[4]), ("send", y[3])
        if tag == "exit": return rc.Exit(), None
        if tag == "again":
            tid2 = self.ntids; self.ntids += 1
            g = self.body(tid2, self.case["progs"][y[1]])
            self.tid_of[id(g)] = tid2; self.keep.append(g)
            self.subs.append([tid2, y[1], tid])
            return rc.Again(g), None
        if tag == "cancel":
            self.timers[y[1]].cancel()
            return 0, None
        raise ValueError(tag)

    def body(self, tid, prog):
        i = 0; recv = None; wake = None; uncaught = None
        while True:
            if self.running is not None: self.overlap += 1
            self.running = tid
            if isinstance(wake, tuple):                             # Send: last registration + timeout
                wake = None if wake[1] is None else [wake[2].last_reg + wake[1], True]
            self.trace.append(["s", tid, i, self.now(), recv, wake])
            try:
                if uncaught is not None: raise uncaught
                if i == len(prog): return
                y = prog[i]
                if y[0] == "raise": raise E(y[1])
                val, wake = self.build(y, tid)
                if wake is not None and wake[0] == "send": wake = ("send", wake[1], val)
            finally:
                self.running = None
            try:
                v = yield val
                recv = self.canon_recv("val", v)
            except Exception as e:
                recv = self.canon_recv("exc", e)
                if y[0] == "again" and not y[2]: uncaught = e
            i += 1

    # ---- run
    def go(self):
        rc = self.rc; case = self.case
        self.clock.now = case["t0"] / UNIT
        sched = self.sched = rc.Scheduler(isDefaultScheduler=False, startInThread=False, threaded_selecthub=False)
        hub = self.hub = sched._selectHub
        sched._thread = threading.current_thread()
        hub._select_func = self.vselect
        H = self
        class T(rc.BaseTask):
            def run(t, tid, prog): return H.body(tid, prog)
        tops = []
        for k in case["tasks"]:
            tid = self.ntids; self.ntids += 1
            t = T(tid, case["progs"][k]); self.tid_of[id(t)] = tid; tops.append(t)
            t.start(scheduler=sched)
        self.timers = []
        for (delay, recurring, selfstop, false_at) in case["timers"]:
            tid = self.ntids; self.ntids += 1
            st = {"n": 0}
            def cb(tid=tid, st=st, false_at=false_at):
                n = st["n"]; st["n"] += 1
                H.trace.append(["f", tid, n, H.now()])
                return False if false_at == n else None
            tm = rc.Timer(delay / UNIT, cb, recurring=recurring, selfStoppable=selfstop, scheduler=sched)
            self.tid_of[id(tm)] = tid; self.timers.append(tm)
        self.keep += tops
        budget = case["budget"]
        st = {"n": 0, "quit": None}
        real_cycle = sched.cycle
        def cycle():
            st["n"] += 1
            r = real_cycle()
            if st["n"] >= budget and st["quit"] is None:
                st["quit"] = sched._hasQuit; sched._hasQuit = True
            return r
        sched.cycle = cycle
        run_exc = None
        out = io.StringIO()
        try:
            with contextlib.redirect_stdout(out), contextlib.redirect_stderr(out):
                sched.run()
        except Exception as e:
            run_exc = type(e).__name__
        quit_ = sched._hasQuit if st["quit"] is None else st["quit"]
        def tid(t):
            if id(t) in self.tid_of: return self.tid_of[id(t)]
            g = getattr(getattr(t, "parent", None), "subtask_func", None)
            return self.tid_of.get(id(g), -1)
        obs = {"trace": self.trace, "quit": bool(quit_) and run_exc is None, "crashed": run_exc is not None, "cycles": st["n"],
               "now": self.now(), "ready": [tid(t) for t in sched._ready], "incoming": [tid(e[0]) for e in list(hub._incoming.queue)],
               "hub": [tid(t) for t in hub._tasks], "subs": self.subs, "overlap": self.overlap, "run_exc": run_exc,
               "descheduled": out.getvalue().count("de-scheduled")}
        # release the pinger pipe now (its __del__ would otherwise close recycled descriptor numbers later)
        p = hub._pinger
        for a in ("_r", "_w"):
            try: os.close(getattr(p, a))
            except OSError: pass
            setattr(p, a, -1)
        sched.cycle = None; hub._select_func = None
        return obs


# --------------------------------------------------------------------------------------------------------------- cases

def mk(progs, tasks, timers=(), r=(), w=(), x=(), send=(), recv=(), t0=T0, budget=400, label=""):
    return {"t0": t0, "budget": budget, "progs": [list(p) for p in progs], "tasks": list(tasks), "timers": [list(t) for t in timers],
            "r": list(r), "w": list(w), "x": list(x), "send": list(send), "recv": list(recv), "label": label}

NUM0, NUM4, BLOCK, SLEEP4, SLEEP0, EXIT = ["num", 0], ["num", 4], ["block"], ["sleep", 4], ["sleep", 0], ["exit"]
SLEEPN = ["sleep", None]
RAISE = ["raise", 1]
SEL_T = ["select", [], [], [], 4]                 # pure timeout
SEL_R0 = ["select", [0], [], [], 12]              # fd 0 (readable from T0+6) with timeout
SEL_R1 = ["select", [1], None, None, None]        # fd 1: never ready, no timeout -> blocks for ever


def sub_table(base):
    """programs base.. followed by the fixed sub-functions used by the small-scope alphabets"""
    return list(base) + [[["num", 3]], [SLEEP4], [], [["raise", 2]], [SLEEP4, ["num", 5]]]



def rand_yield(rng, nsub_from, nprogs, ntimers, nfds, in_sub):
    """one yield; `again` only calls programs with index >= nsub_from (a DAG, so every run terminates)"""
    t = lambda hi=24: rng.choice([0, 1, 2, 4, 4, 8, 12, 16, 17, rng.randint(0, hi)])
    opt = lambda: None if rng.random() < 0.3 else t()
    fl = lambda: rng.choice([[], [], None, [rng.randrange(nfds)], [rng.randrange(nfds)], [rng.randrange(nfds), rng.randrange(nfds)]])
    r = rng.random()
    if r < 0.22: return ["num", 0]
    if r < 0.30: return ["num", t()]
    if r < 0.40: return ["sleep", t()]
    if r < 0.42: return ["sleep", None]
    if r < 0.46: return ["sleepabs", rng.choice([0, T0 - 8, T0, T0 + 4, T0 + 16, T0 + t(40)])]
    if r < 0.49: return ["block"]
    if r < 0.66: return ["select", fl(), fl(), fl(), opt()]
    if r < 0.71: return ["recv", rng.randrange(nfds), opt()]
    if r < 0.76: return ["send", rng.randrange(nfds), rng.choice([1, 3, 8, 10]), opt(), rng.choice([2, 4, 16])]
    if r < 0.775: return ["exit"]
    if r < 0.82: return ["raise", rng.randint(1, 3)]
    if r < 0.95 and nsub_from < nprogs: return ["again", rng.randrange(nsub_from, nprogs), rng.random() < 0.7]
    if ntimers: return ["cancel", rng.randrange(ntimers)]
    return ["num", 0]


def rand_case(rng, ntasks=None, maxlen=12):
    ntop = ntasks or rng.randint(2, 8)
    nsub = rng.choice([0, 1, 2, 3, 4])
    nprogs = ntop + nsub
    ntimers = rng.choice([0, 0, 1, 1, 2])
    nfds = 4
    progs = []
    for k in range(nprogs):
        n = rng.choice([0, 1, 2, 3, rng.randint(0, maxlen), rng.randint(0, maxlen)])
        lo = ntop if k < ntop else k + 1
        progs.append([rand_yield(rng, lo, nprogs, ntimers, nfds, k >= ntop) for _ in range(n)])
    t0 = T0 if rng.random() < 0.9 else 0
    tab = lambda: [None if rng.random() < 0.35 else t0 + rng.choice([0, 2, 4, 6, 12, 20, 40]) for _ in range(nfds)]
    timers = [[rng.choice([0, 2, 5, 9, 18]), rng.random() < 0.6, rng.random() < 0.8, rng.choice([None, 0, 1, 2, 3, 3])] for _ in range(ntimers)]
    scr = lambda: [rng.choice([None, 0, 1, 2, 3, 8]) for _ in range(rng.choice([0, 0, 2, 5]))]
    c = mk(progs, list(range(ntop)), timers, tab(), tab(), tab(), scr(), scr(), t0, rng.choice([40, 400, 400]), "random")
    if t0 == 0:
        for p in c["progs"]:
            for y in p:
                if y[0] == "sleepabs": y[1] = max(0, y[1] - T0)
    return c


ALPHA = [NUM0, NUM4, SLEEP4, SLEEP0, SEL_T, SEL_R0, SEL_R1, BLOCK, SLEEPN, RAISE, EXIT, ["recv", 0, None], ["send", 2, 6, None, 4],
         ["cancel", 0], ["sleepabs", T0 + 4]]
ALPHA += [["again", -k, c] for k in (1, 2, 3, 4, 5) for c in (True, False)]          # -k: k-th fixed sub-function (see sub_table)


def scope(alpha, ntasks, maxlen, timers=(), **kw):
    """every assignment of programs of length <= maxlen over `alpha` to `ntasks` tasks (start order matters)"""
    plist = [list(p) for n in range(maxlen + 1) for p in itertools.product(alpha, repeat=n)]
    for combo in itertools.product(range(len(plist)), repeat=ntasks):
        used = sorted(set(combo))
        base = [plist[i] for i in used]
        nb = len(base)
        progs = sub_table([[(["again", nb - 1 - y[1], y[2]] if y[0] == "again" and y[1] < 0 else y) for y in p] for p in base])
        yield mk(progs, [used.index(i) for i in combo], timers, kw.get("r", [T0 + 6, None, None]), kw.get("w", [None, None, T0 + 2]),
                 kw.get("x", [None, None, None]), kw.get("send", [4, 0]), kw.get("recv", []), T0, 120, "scope")


class C06(Check):
    id = "C06"
    title = "Cooperative scheduler runs every task step exactly once, in isolation"
    prop_module = "PoxModel.Properties.C06"
    lean_targets = ["drv_c06"]
    driver = "drv_c06"
    theorems = []
    anchors = [("pox/lib/recoco/recoco.py", 94, 111), ("pox/lib/recoco/recoco.py", 250, 352), ("pox/lib/recoco/recoco.py", 431, 461),
               ("pox/lib/recoco/recoco.py", 545, 598), ("pox/lib/recoco/recoco.py", 615, 735), ("pox/lib/recoco/recoco.py", 806, 830),
               ("pox/lib/recoco/recoco.py", 840, 955), ("pox/lib/recoco/recoco.py", 1041, 1081)]
    coverage_cases = 400

    def setup(self):
        import logging
        logging.disable(logging.CRITICAL)
        time.time = poxenv.clock
        import warnings
        warnings.simplefilter("ignore")
        import pox.lib.recoco.recoco as recoco
        self.rc = recoco

    def impl(self, case):
        return Run(self.rc, case).go()

    KEYS = ("trace", "quit", "crashed", "cycles", "now", "ready", "incoming", "hub")

    def model_request(self, case):
        return {k: v for k, v in case.items() if k != "label"}

    def model_obs(self, case, resp):
        return resp if "error" in resp else {k: resp.get(k) for k in self.KEYS}

    def impl_view(self, case, obs):
        return {k: obs[k] for k in self.KEYS}


CHECK = C06
