import sys, os, importlib
sys.path.insert(0, os.path.dirname(os.path.abspath(__file__)))
import common

def main():
    if len(sys.argv) < 2:
        print("usage: check Cxx [--tier quick|thorough] [--replay FILE]"); return 2
    pid = sys.argv[1].upper()
    mod = importlib.import_module(pid.lower())
    chk = mod.CHECK()
    try:
        return common.run_check(chk, sys.argv[2:])
    except SystemExit:
        raise
    except Exception as e:
        import traceback
        traceback.print_exc()
        tb = traceback.extract_tb(sys.exc_info()[2])
        root = os.path.realpath(common.REPO) + os.sep
        if any(os.path.realpath(f.filename).startswith(root) for f in tb):
            # the exception came out of the code under test while harness code (a generator, a probe, a view) was driving it
            # outside any guarded call: the harness cannot attach to this tree as it did to the tree it was written against.
            # The tie between model and code is broken — reported as a broken obligation, not as an infrastructure error
            # (which would hide a changed tree); never seen on the unchanged tree, where every run exercises these paths.
            path = common.write_replay(pid, "broken", {"property": pid, "kind": "broken-obligation", "case": None,
                                                       "broken": [["harness", "%s: %s" % (type(e).__name__, str(e)[:300])]],
                                                       "traceback": traceback.format_exc()[-2000:], "search": {"cases_tried": 0, "found": False}})
            print("VIOLATION property=%s replay=%s no-failing-input-found" % (pid, path))
            return 1
        return 2

if __name__ == "__main__":
    sys.exit(main())
