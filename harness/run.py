import sys, os, importlib
sys.path.insert(0, os.path.dirname(os.path.abspath(__file__)))
import common

def main():
    if len(sys.argv) < 2:
        print("usage: check Cxx [--tier quick|thorough] [--replay FILE]"); return 2
    pid = sys.argv[1].upper()
    mod = importlib.import_module(pid.lower())
    chk = mod.CHECK()
    try:
        return common.run_check(chk, sys.argv[2:])
    except SystemExit:
        raise
    except Exception:
        import traceback
        traceback.print_exc()
        return 2

if __name__ == "__main__":
    sys.exit(main())
